from alg import *
def check_main(two_block, commuting):
    mode=set()
    if commuting: mode.add('commuting')
    if two_block: mode|={'commuting','two_block'}
    types={'h0':'S','hs':'S','hr':'R','V':'R','W':('S' if two_block else None)}
    herm={'h0':1,'hs':1,'hr':1,'W':1,'V':-1}
    A=Alg(herm,types,{},mode)
    W=A.P('W');V=A.P('V')
    A.rules={('V','W'):A.P('W','V'),('V','V'):A.add(A.P('W','W'),A.P('W',c=2))}
    h0,hs,hr=A.P('h0'),A.P('hs'),A.P('hr')
    one={():Fr(1)}
    Up=A.add(W,V); Upd=A.sub(W,V)
    HS=A.add(h0,hs)
    X=A.sub(A.mul(Up,HS),A.mul(HS,Up))
    Am=A.mul(hr,Up)
    B=A.sub(A.sub(X,hr),Am)
    Y=A.scale(A.add(X,A.adj(X)),Fr(1,2))
    U=A.add(one,Up);Ud=A.add(one,Upd)
    Ht=A.mul(A.mul(Ud,A.add(HS,hr)),U)
    I={"H'_diag":hs,"H'_offdiag":hr,"V":V,"W":W,"Yadj":Y,"U'":Up,"U'†":Upd,"X":X,"B":B,
       "U'† @ U'":A.mul(Upd,Up),"H'_offdiag @ U'":Am,"U'† @ B":A.mul(Upd,B),"V @ H'_diag":A.mul(V,hs)}
    res={}
    # adjoint pairing
    res['adj(U\')==U\'†']=A.sub(A.adj(Up),Upd)
    # W
    Pm=I["U'† @ U'"]
    wd=A.S(A.scale(Pm,Fr(-1,2))); wo={} if two_block else A.R(A.scale(Pm,Fr(-1,2)))
    res['W']=A.sub(W,A.add(wd,wo))
    # Yadj
    yo=A.R(A.adj(X)) if two_block else A.R(A.scale(A.add(A.adj(X),X),Fr(1,2)))
    yd={} if commuting else A.S(A.scale(A.add(A.adj(X),X),Fr(1,2)))
    res['Yadj']=A.sub(Y,A.add(yo,yd))
    # V : V h0 - h0 V == R(rhs)
    VH=I["V @ H'_diag"]
    rhs=A.sub(A.sub(A.adj(I["Yadj"]),VH),A.adj(VH))
    res['V sylvester']=A.sub(A.sub(A.mul(V,h0),A.mul(h0,V)),A.R(rhs))
    # X
    res['X']=A.sub(X,A.add(B,hr,Am))
    # B
    UB=I["U'† @ B"]
    bd=A.scale(A.add(A.sub(UB,A.adj(UB)),Am,A.adj(Am)),Fr(-1,2))
    if not commuting: bd=A.add(bd,VH,A.adj(VH))
    bo=A.scale(UB,-1)
    res['B diag']=A.sub(A.S(B),A.S(bd))
    rB=A.sub(A.R(B),A.R(bo))
    res['B offdiag + R(Ht)']=A.add(rB,A.R(Ht))
    # H_tilde
    hd=A.add(hs,A.scale(A.add(Am,A.adj(Am)),Fr(1,2)),A.scale(A.add(UB,A.adj(UB)),Fr(-1,2)),A.scale(I["Yadj"],-1))
    res['H_tilde']=A.sub(A.S(A.sub(Ht,h0)),A.S(hd))
    res['unitarity']=A.sub(A.mul(Ud,U),one)
    res['hermitian Ht']=A.sub(Ht,A.adj(Ht))
    print(f"--- main two_block={two_block} commuting={commuting}")
    for k,v in res.items(): print(f"  {k:22s}: {A.show(v)[:300]}")
for tb,c in [(False,False),(False,True),(True,True)]:
    check_main(tb,c)
