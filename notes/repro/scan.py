import ast, sys, pathlib
root=pathlib.Path('/repo/pymablock')
MUT={'sort','fill','resize','put','itemset','update','pop','popitem','clear','append','extend','insert','remove','setdefault','add','discard','eliminate_zeros','setdiag','sum_duplicates','sort_indices','prune','setflags'}
for f in sorted(root.glob('*.py')):
    t=ast.parse(f.read_text())
    for n in ast.walk(t):
        if isinstance(n,ast.AugAssign):
            print(f.name,n.lineno,'AUG',ast.unparse(n))
        elif isinstance(n,(ast.Assign,)):
            for tg in n.targets:
                for s in ast.walk(tg):
                    if isinstance(s,ast.Subscript) and isinstance(s.ctx,ast.Store):
                        print(f.name,n.lineno,'SUBSTORE',ast.unparse(n)[:110])
        elif isinstance(n,ast.Call):
            if isinstance(n.func,ast.Attribute) and n.func.attr in MUT:
                print(f.name,n.lineno,'MUTCALL',ast.unparse(n)[:110])
            for k in n.keywords:
                if k.arg and (k.arg=='out' or k.arg.startswith('overwrite') or k.arg=='copy'):
                    print(f.name,n.lineno,'KW',ast.unparse(n)[:110])
        elif isinstance(n,ast.Delete):
            print(f.name,n.lineno,'DEL',ast.unparse(n)[:100])
