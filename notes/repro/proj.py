import numpy as np, warnings
from scipy.sparse.linalg import LinearOperator, aslinearoperator
from pymablock.linalg import ComplementProjector
class CP(ComplementProjector):
    def __init__(self, vecs, left_vecs=None):
        ComplementProjector.__init__(self, vecs, left_vecs)
        LinearOperator.__init__(self, dtype=self.dtype, shape=self.shape)
rng=np.random.default_rng(0)
n,k=6,2
for cplx in (False,True):
  for biorth in (False,True):
    R=rng.normal(size=(n,k))+(1j*rng.normal(size=(n,k)) if cplx else 0)
    if biorth:
        L=rng.normal(size=(n,k))+(1j*rng.normal(size=(n,k)) if cplx else 0)
        L=L@np.linalg.inv(R.conj().T@L)  # L^H R = 1 ?
        L=L@np.linalg.inv((L.conj().T@R)).conj().T
    else:
        R,_=np.linalg.qr(R); L=R
    Pd=np.eye(n)-R@L.conj().T
    P=CP(R,None if not biorth else L)
    A=rng.normal(size=(n,n))+1j*rng.normal(size=(n,n))
    Aop=aslinearoperator(A)
    x=rng.normal(size=(3,n))+1j*rng.normal(size=(3,n))
    v=rng.normal(size=n)+1j*rng.normal(size=n)
    comp=P@Aop@P
    r={}
    r['P@v']=np.abs(P@v-Pd@v).max()
    r['x@P']=np.abs(x@P-x@Pd).max()
    r['rmatvec']=np.abs(P.rmatvec(v)-Pd.conj().T@v).max()
    r['P.H@v']=np.abs(P.H@v-Pd.conj().T@v).max()
    r['P.T@v']=np.abs(P.T@v-Pd.T@v).max()
    r['x@(PAP)']=np.abs(x@comp-x@Pd@A@Pd).max()
    r['(PAP).H@v']=np.abs(comp.H@v-(Pd@A@Pd).conj().T@v).max()
    r['(PAP).T@v']=np.abs(comp.T@v-(Pd@A@Pd).T@v).max()
    print('complex' if cplx else 'real','biorth' if biorth else 'orth',{k:float(f"{v:.1e}") for k,v in r.items()})
try:
    ComplementProjector(np.eye(3)[:,:1])@np.ones(3)
except Exception as e: print("unpatched:",type(e).__name__,e)
