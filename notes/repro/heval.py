import sympy, warnings
from sympy.physics.quantum import Dagger
from sympy.physics.quantum.boson import BosonOp
from pymablock import block_diagonalize
from pymablock.series import BlockSeries
warnings.simplefilter("ignore")
a=BosonOp('a'); w,g=sympy.symbols('w g',real=True)
H0=sympy.ImmutableMatrix([[w*Dagger(a)*a,0],[0,-w*Dagger(a)*a+3]])
H1=sympy.ImmutableMatrix([[0,g*(a+Dagger(a))],[g*(a+Dagger(a)),0]])
for mk in (sympy.Matrix, sympy.ImmutableMatrix):
    H=BlockSeries(data={(0,0,0):mk([[H0[0,0]]]),(1,1,0):mk([[H0[1,1]]]),(0,1,1):mk([[H1[0,1]]]),(1,0,1):mk([[H1[1,0]]])},shape=(2,2),n_infinite=1)
    try:
        Ht,U,Ud=block_diagonalize(H)
        print(mk.__name__, "H_tilde[0,0,2] =", Ht[0,0,2])
    except Exception as e:
        print(mk.__name__, "raises", type(e).__name__, str(e)[:200])
