import sympy
from sympy.physics.quantum import Dagger
from sympy.physics.quantum.boson import BosonOp
from sympy.physics.quantum.fermion import FermionOp
from pymablock.number_ordered_form import NumberOrderedForm as NOF, NumberOperator
a=BosonOp('a'); N=NumberOperator(a)
x=NOF.from_expr(N*a**2); y=NOF.from_expr(Dagger(a))
print("(N a^2) a† =", x*y, "   expected N(N+2)a... as", NOF.from_expr(N)*NOF.from_expr(a)*NOF.from_expr(a)*y)
print("assoc: ", (NOF.from_expr(N)*NOF.from_expr(a**2))*y, " vs ", NOF.from_expr(N)*(NOF.from_expr(a**2)*y))
c1,c2,c3=FermionOp('c1'),FermionOp('c2'),FermionOp('c3')
l=NOF.from_expr(Dagger(c1)); r=NOF.from_expr(c1*c2)
print("c1† (c1 c2):", l*r, " vs (c1† c1) c2:", (l*NOF.from_expr(c1))*NOF.from_expr(c2))
one=NOF.from_expr(sympy.S.One, [c1,c2])
print("1*(c1 c2)=",one*NOF.from_expr(c1*c2), " from_expr(c1*c2)=",NOF.from_expr(c1*c2), "  1*(c2 c1)=", one*NOF.from_expr(c2*c1), NOF.from_expr(c2*c1))
