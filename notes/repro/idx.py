import numpy as np
from pymablock.series import BlockSeries, zero, one
calls=[]
def ev(*idx):
    calls.append(idx); return idx[0]*100+idx[1]*10+idx[2]
s=BlockSeries(eval=ev,shape=(2,2),n_infinite=1)
for it in [(0,1,-1),(0,1,[-1]),(0,1,slice(-1,2)),(0,1,slice(None,None)), (0,1,[0,-2])]:
    try: print(it, '->', s[it])
    except Exception as e: print(it,'raises',type(e).__name__,e)
print(calls)
