import numpy as np
from pymablock.block_diagonalization import solve_sylvester_diagonal
from pymablock.algorithm_parsing import series_computation
from pymablock.algorithms import main, nonhermitian
from pymablock.series import BlockSeries, zero, one
from util import dense
rng=np.random.default_rng(0)
def run(alg, dims, mask=None, herm=True, N=3, degenerate=False):
    n=sum(dims); nb=len(dims)
    E=np.arange(n)*1.0+rng.normal(size=n)*0.1
    if degenerate:
        E=np.repeat(np.arange(nb)*3.0, dims)
    h0=np.diag(E).astype(complex)
    hp=[rng.normal(size=(n,n))+1j*rng.normal(size=(n,n)) for _ in range(2)]
    if herm: hp=[h+h.conj().T for h in hp]
    Hs=[h0]+hp
    off=np.cumsum((0,)+tuple(dims))
    def blk(M,i,j): return M[off[i]:off[i+1],off[j]:off[j+1]]
    data={(i,j,k):blk(Hs[k],i,j) for i in range(nb) for j in range(nb) for k in range(3) if not (k==0 and i!=j)}
    H=BlockSeries(data=data,shape=(nb,nb),n_infinite=1,name="H")
    eigs=[E[off[i]:off[i+1]] for i in range(nb)]
    ss=solve_sylvester_diagonal(eigs)
    scope={"solve_sylvester":ss,"two_block_optimized": nb==2 and mask is None,"commuting_blocks":[mask is None]*nb}
    if mask is not None:
        keep={i:1-mask[i] for i in mask}
        def diag(x,index):
            x=x[index] if isinstance(x,BlockSeries) else x
            if index[0] not in keep or x is zero: return x
            return x*keep[index[0]]
        def offdiag(x,index):
            if index[0] not in keep: return zero
            x=x[index] if isinstance(x,BlockSeries) else x
            if x is zero: return zero
            return x*mask[index[0]]
        scope["diag"]=diag; scope["offdiag"]=offdiag
    series,_=series_computation({"H":H},algorithm=alg,scope=scope)
    # S projection mask full
    Smask=np.zeros((n,n))
    for i in range(nb):
        Smask[off[i]:off[i+1],off[i]:off[i+1]] = 1 if (mask is None or i not in mask) else 1-mask[i]
    def full(name,k):
        s=series[name]
        return np.block([[dense(s[(i,j,k)],(dims[i],dims[j])) for j in range(nb)] for i in range(nb)])
    def cauchy(*fs):
        # fs lists of matrices per order
        out=fs[0]
        for f in fs[1:]:
            out=[sum(out[a]@f[k-a] for a in range(k+1)) for k in range(N+1)]
        return out
    Z=np.zeros((n,n),complex)
    Hfull=[Hs[k] if k<3 else Z for k in range(N+1)]
    HS=[Hfull[k]*Smask if k>0 else h0 for k in range(N+1)]
    hr=[Hfull[k]*(1-Smask) if k>0 else Z for k in range(N+1)]
    Up=[full("U'",k) for k in range(N+1)]
    return series, full, cauchy, HS, hr, Up, Smask, N, Hfull
def sub(a,b): return [x-y for x,y in zip(a,b)]
def add(a,b): return [x+y for x,y in zip(a,b)]
def mx(a): return max(np.abs(x).max() for x in a)
for label,kw in [("2blk",dict(dims=(2,3))),("3blk",dict(dims=(2,1,2))),("sel",dict(dims=(4,),mask={0:None})),("2blk-sel",dict(dims=(3,2),mask={0:None}))]:
    if kw.get("mask"):
        d=kw["dims"][0]; m=(rng.random((d,d))>0.5).astype(int); m=np.triu(m,1); m=m+m.T; kw["mask"]={0:m}
    series, full, cauchy, HS, hr, Up, Smask, N, Hfull = run(main, **kw)
    Upd=[full("U'†",k) for k in range(N+1)]
    X=[full("X",k) for k in range(N+1)]
    B=[full("B",k) for k in range(N+1)]
    Y=[full("Yadj",k) for k in range(N+1)]
    Xtrue=sub(cauchy(Up,HS),cauchy(HS,Up))
    A=cauchy(hr,Up)
    print(label,"X-[U',H_S]",mx(sub(X,Xtrue)),"B-(X-hr-A)",mx(sub(B,sub(sub(X,hr),A))),"Yadj-herm(X)",mx(sub(Y,[(x+x.conj().T)/2 for x in X])), "U'†-adj",mx(sub(Upd,[u.conj().T for u in Up])))
