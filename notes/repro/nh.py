import numpy as np
from pymablock import block_diagonalize
from util import *
rng=np.random.default_rng(1)
n=4
for E in ([0.,1.,5.,7.],[0.,0.,5.,5.]):
  h0=np.diag(E).astype(complex)
  h1=rng.normal(size=(n,n))+1j*rng.normal(size=(n,n))
  for herm in (False,True):
    hh1 = h1+h1.conj().T if herm else h1
    Ht,U,Ui=block_diagonalize([h0,hh1],subspace_indices=[0,0,1,1],hermitian=herm)
    print(E,herm,check(Ht,U,Ui,[h0,hh1],(2,2),4))
