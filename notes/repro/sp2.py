import numpy as np, warnings
from scipy import sparse
warnings.simplefilter("ignore")
x=sparse.csr_array(np.array([[1.,2.],[3.,4.]]))
m=np.array([[0,1],[1,0]])
r=x.multiply(m); print(type(r), r.nnz, r.tocoo().data)
r2=x.multiply(m.astype(bool)); print(type(r2), r2.nnz, r2.tocoo().data)
from pymablock import block_diagonalize
from util import *
n=4
h0=sparse.diags([0.,0.,1.,2.]).tocsr()
rng=np.random.default_rng(0)
h1=rng.normal(size=(n,n)); h1=h1+h1.T
mask=np.ones((n,n),bool); np.fill_diagonal(mask,False); mask[0,1]=mask[1,0]=False
Ht,U,Ud=block_diagonalize([h0,sparse.csr_array(h1)],fully_diagonalize=mask)
for k in range(4):
    v=U[0,0,k]; print(k,type(v).__name__, np.isnan(dense(v,(n,n))).any())
