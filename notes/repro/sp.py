import numpy as np, warnings
from scipy import sparse
from pymablock import block_diagonalize
from pymablock.block_diagonalization import solve_sylvester_diagonal
from util import *
warnings.simplefilter("ignore")
# direct solver probe
eigs=(np.array([0.,0.,1.]),)
ss=solve_sylvester_diagonal(eigs)
Yd=np.array([[0,0.,1],[0,0,2],[1,2,0]])
print("dense:",ss(Yd,(0,0,1)))
Ys=sparse.csr_array(np.array([[0,1e-30,1],[1e-30,0,2],[1,2,0]]))
print("sparse:",ss(Ys,(0,0,1)).toarray())
# full pipeline: sparse H, mask with a kept degenerate pair
n=4
h0=sparse.diags([0.,0.,1.,2.]).tocsr()
rng=np.random.default_rng(0)
h1=rng.normal(size=(n,n)); h1=h1+h1.T
mask=np.ones((n,n),bool); np.fill_diagonal(mask,False); mask[0,1]=mask[1,0]=False
for fmt in ("dense","sparse"):
    H1 = h1 if fmt=="dense" else sparse.csr_array(h1)
    H0 = h0.toarray() if fmt=="dense" else h0
    Ht,U,Ud=block_diagonalize([H0,H1],fully_diagonalize=mask)
    vals=[dense(U[0,0,k],(n,n)) for k in range(3)]
    print(fmt,[bool(np.isnan(v).any()) for v in vals])
