import numpy as np
from scipy import sparse
def dense(x, shape):
    nm=type(x).__name__
    if nm=='Zero': return np.zeros(shape,complex)
    if nm=='One': return np.eye(shape[0],dtype=complex)
    if sparse.issparse(x): return x.toarray().astype(complex)
    return np.asarray(x,dtype=complex)
def full(S,k,dims):
    if not isinstance(k,tuple): k=(k,)
    return np.block([[dense(S[(i,j)+k],(dims[i],dims[j])) for j in range(len(dims))] for i in range(len(dims))])
def check(Ht,U,Ui,Hterms,dims,N):
    n=sum(dims); out=[]
    for k in range(N+1):
        tot=np.zeros((n,n),complex)
        for a in range(k+1):
            for b in range(k+1-a):
                c=k-a-b
                if b<len(Hterms): tot+=full(Ui,a,dims)@Hterms[b]@full(U,c,dims)
        uu=sum(full(Ui,a,dims)@full(U,k-a,dims) for a in range(k+1))-(np.eye(n) if k==0 else 0)
        out.append((k,np.abs(tot-full(Ht,k,dims)).max(),np.abs(uu).max()))
    return out
