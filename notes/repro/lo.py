import ast, pathlib
src=pathlib.Path('/venv/lib/python3.12/site-packages/scipy/sparse/linalg/_interface.py').read_text()
t=ast.parse(src)
cls=[n for n in t.body if isinstance(n,ast.ClassDef) and n.name=='LinearOperator'][0]
classlevel=set()
for n in cls.body:
    if isinstance(n,(ast.FunctionDef,)): classlevel.add(n.name)
    elif isinstance(n,ast.Assign):
        for tg in n.targets:
            if isinstance(tg,ast.Name): classlevel.add(tg.id)
    elif isinstance(n,ast.AnnAssign) and n.value is not None: classlevel.add(n.target.id)
reads={}
writes={}
for fn in [n for n in cls.body if isinstance(n,ast.FunctionDef)]:
    for n in ast.walk(fn):
        if isinstance(n,ast.Attribute) and isinstance(n.value,ast.Name) and n.value.id=='self':
            (writes if isinstance(n.ctx,ast.Store) else reads).setdefault(n.attr,set()).add(fn.name)
inst_reads={a:sorted(f) for a,f in reads.items() if a not in classlevel}
print("instance attrs read:",{a:f[:6] for a,f in inst_reads.items()})
print("written in:",{a:sorted(f) for a,f in writes.items()})
