from alg import *
def check_nh(commuting):
    mode={'commuting'} if commuting else set()
    types={'h0':'S','hs':'S','hr':'R','u':None,'g':None}
    herm={'h0':1,'hs':1,'hr':1,'u':('adj','u_dag'),'g':('adj','g_dag')}
    A=Alg(herm,types,{},mode)
    u=A.P('u');g=A.P('g')
    A.rules={('g','u'):A.scale(A.add(u,g),-1),('u','g'):A.scale(A.add(u,g),-1)}
    h0,hs,hr=A.P('h0'),A.P('hs'),A.P('hr'); one={():Fr(1)}
    HS=A.add(h0,hs)
    X=A.sub(A.mul(HS,u),A.mul(u,HS))
    Am=A.mul(hr,u)
    B=A.add(X,hr,Am)
    U=A.add(one,u);Ui=A.add(one,g)
    Ht=A.mul(A.mul(Ui,A.add(HS,hr)),U)
    res={}
    gu=A.mul(g,u)
    # gauge axiom: S(g) = S(u): implement by checking obligations modulo substitution: replace S[g] -> S[u]
    def gauge(p):
        out={}
        for w,c in p.items():
            w2=tuple((('S',('u',)) if a==('S',('g',)) else a) for a in w)
            out[w2]=out.get(w2,0)+c
        return {w:c for w,c in out.items() if c}
    res["U' diag: S(u)+S(gu)/2"]=gauge(A.add(A.S(u),A.scale(A.S(gu),Fr(1,2))))
    # above uses identity g+u+gu=0 -> S(g)+S(u)+S(gu)=0 ; check S(gu) normalises
    res["U_inv': g+u+gu"]=A.add(g,u,A.mul(g,u))
    res["inverse"]=A.sub(A.mul(Ui,U),one)
    res["inverse2"]=A.sub(A.mul(U,Ui),one)
    # U' offdiag: h0 R(u) - R(u) h0 == R(X - hs u + u hs)
    rhs=A.add(A.sub(X,A.mul(hs,u)),A.mul(u,hs))
    Ru=A.R(u)
    res["U' sylvester"]=A.sub(A.sub(A.mul(h0,Ru),A.mul(Ru,h0)),A.R(rhs))
    gB=A.mul(g,B)
    xo=A.scale(A.add(hr,Am,gB),-1)
    res["X offdiag - R(Ht)"]=A.add(A.sub(A.R(X),A.R(xo)),A.scale(A.R(Ht),-1))
    xd=A.sub(A.mul(hs,u),A.mul(u,hs))
    res["X diag"]=A.sub(A.S(X),A.S(xd))
    res["B"]=A.sub(B,A.add(X,hr,Am))
    res["H_tilde"]=A.sub(A.S(A.sub(Ht,h0)),A.S(A.add(hs,B,gB)))
    print(f"--- nonhermitian commuting={commuting}")
    for k,v in res.items(): print(f"  {k:26s}: {A.show(v)[:300]}")
check_nh(False); check_nh(True)
