import numpy as np
from pymablock.series import BlockSeries, zero
from pymablock.algorithm_parsing import series_computation
from pymablock.series import AlgebraElement

def my_algorithm():
    with "Y":
        start = "A"
        "A" + "A"
    with "X":
        start = 1
        "Y"

rng = np.random.default_rng(0)
vals = {}
def a_eval(*index):
    return vals.setdefault(index, rng.normal(size=(2, 2)))
A = BlockSeries(eval=a_eval, shape=(2, 2), n_infinite=1, name="A")
out, _ = series_computation({"A": A}, my_algorithm, scope={}), None
print(type(out))
res = out if isinstance(out, dict) else out[0]
X, Y = res["X"], res["Y"]
a0 = A[0, 1, 0]
print("Y before", np.allclose(Y[0, 1, 0], a0))
_ = X[0, 1, 0]
print("X[0,1,0] == 1?", _)
y = Y[0, 1, 0]
print("Y after X requested: equals A0?", np.allclose(y, a0), " equals 2*A0?", np.allclose(y, 2 * a0))
