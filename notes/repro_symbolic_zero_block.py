"""F11 (fixed in b47c81c): solve_sylvester_diagonal, sympy branch, shaped the energy denominators with np.resize.
With a column block of scalar zero energies (a vanishing H_0 block) the (n_a, 1) column of 1 / (E_a - 0) was tiled row-major,
so V_ij was divided by the energy of another state and U did not eliminate the off-diagonal block.
Run with PYTHONPATH=<tree>: on b114d4b the off-diagonal block of U^dagger H U is Matrix([[0, 3*x/2], [-4*x, 0]]) at order 1,
on b47c81c it vanishes at every order."""
import sympy

from pymablock import block_diagonalize, operator_to_BlockSeries
from pymablock.series import cauchy_dot_product, zero

x = sympy.Symbol("x", real=True)
H0 = sympy.diag(1, 2, 0, 0)
H1 = sympy.Matrix([[0, 1, 2, 3], [1, 0, 4, 5], [2, 4, 0, 6], [3, 5, 6, 0]])
H_tilde, U, U_adj = block_diagonalize(H0 + x * H1, symbols=[x], subspace_indices=[0, 0, 1, 1])
H = operator_to_BlockSeries(H0 + x * H1, symbols=[x], subspace_indices=[0, 0, 1, 1])
P = cauchy_dot_product(U_adj, H, U)
bad = []
for n in (1, 2, 3):
    v = P[0, 1, n]
    if v is not zero and sympy.simplify(v) != sympy.zeros(2, 2):
        bad.append((n, sympy.simplify(v)))
print("eliminated block of U^dagger H U:", bad or "zero at orders 1-3")
raise SystemExit(1 if bad else 0)
