# scratch prototype of the free *-algebra normaliser (design de-risking only)
from fractions import Fraction as Fr
from itertools import product as iproduct

class Alg:
    def __init__(self, herm, types, rules, mode):
        self.herm=herm      # atom -> +1 (hermitian) / -1 (antihermitian) / ('adj', other)
        self.types=types    # atom -> 'S'/'R'/None
        self.rules=rules    # dict (a,b) -> poly  for adjacent atoms
        self.mode=mode      # set of flags: 'commuting','two_block'
    # --- polys: dict word->Fr ; word: tuple of atoms ; atom: str or ('S', word)
    def P(self,*atoms,c=1): return {tuple(atoms):Fr(c)}
    def add(self,*ps):
        out={}
        for p in ps:
            for w,c in p.items():
                out[w]=out.get(w,0)+c
                if out[w]==0: del out[w]
        return out
    def scale(self,p,c): return {w:Fr(c)*v for w,v in p.items()} if c else {}
    def sub(self,a,b): return self.add(a,self.scale(b,-1))
    def mul(self,a,b):
        out={}
        for (w1,c1),(w2,c2) in iproduct(a.items(),b.items()):
            w=w1+w2; out[w]=out.get(w,0)+c1*c2
            if out[w]==0: del out[w]
        return self.norm(out)
    def adj_atom(self,a):
        if isinstance(a,tuple):  # ('S',word)
            p=self.adj({a[1]:Fr(1)})
            return self.S(p)
        h=self.herm[a]
        if isinstance(h,tuple): return {(h[1],):Fr(1)}
        return {(a,):Fr(h)}
    def adj(self,p):
        out={}
        for w,c in p.items():
            q={():Fr(1)}
            for a in reversed(w):
                q=self.mul(q,self.adj_atom(a))
            out=self.add(out,self.scale(q,c))
        return out
    def wtype(self,w):
        t='S'
        for a in w:
            ta='S' if isinstance(a,tuple) else self.types.get(a)
            if ta is None: return None
            if t=='S': t=ta
            elif ta=='S': t='R' if 'commuting' in self.mode else None
            else: t='S' if 'two_block' in self.mode else None
            if t is None: return None
        return t
    def Sword(self,w):
        # returns poly for S(word); word already normalised
        pre=[];post=[]
        w=list(w)
        while w and w[0]=='h0': pre.append(w.pop(0))
        while w and w[-1]=='h0': post.insert(0,w.pop())
        w=tuple(w)
        if len(w)==0: core={():Fr(1)}
        elif len(w)==1 and isinstance(w[0],tuple): core={w:Fr(1)}
        else:
            t=self.wtype(w) if (self.mode or len(w)==1) else (self.types.get(w[0]) if len(w)==1 else None)
            if len(w)==1 and not isinstance(w[0],tuple): t=self.types.get(w[0])
            if t=='S': core={w:Fr(1)}
            elif t=='R': core={}
            else: core={(('S',w),):Fr(1)}
        return {tuple(pre)+k+tuple(post):c for k,c in core.items()}
    def S(self,p):
        p=self.norm(p); out={}
        for w,c in p.items():
            out=self.add(out,self.scale(self.Sword(w),c))
        return self.norm(out)
    def R(self,p): return self.sub(self.norm(p),self.S(p))
    def norm_word(self,w):
        # normalise inside S-atoms first
        for i,a in enumerate(w):
            if isinstance(a,tuple):
                inner=self.norm({a[1]:Fr(1)})
                if inner!={a[1]:Fr(1)}:
                    q=self.S(inner)
                    return self.mul3({w[:i]:Fr(1)},q,{w[i+1:]:Fr(1)})
        for i in range(len(w)-1):
            r=self.rules.get((w[i],w[i+1]))
            if r is not None:
                return self.mul3({w[:i]:Fr(1)},r,{w[i+2:]:Fr(1)})
        return None
    def mul3(self,a,b,c):
        out={}
        for (w1,c1),(w2,c2),(w3,c3) in iproduct(a.items(),b.items(),c.items()):
            w=w1+w2+w3; out[w]=out.get(w,0)+c1*c2*c3
            if out[w]==0: del out[w]
        return out
    def norm(self,p):
        changed=True
        while changed:
            changed=False; out={}
            for w,c in p.items():
                r=self.norm_word(w)
                if r is None: q={w:c}
                else: q=self.scale(r,c); changed=True
                out=self.add(out,q)
            p=out
        return p
    def show(self,p):
        def sa(a): return a if isinstance(a,str) else 'S['+'.'.join(sa(x) for x in a[1])+']'
        return ' + '.join(f"{c}*{'.'.join(sa(a) for a in w) or '1'}" for w,c in sorted(p.items(),key=str)) or '0'
