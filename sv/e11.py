"""E11 -- contracts of the small helper functions the other engines rely on.

Each rule states what the helper must denote and decides it from the helper's own
body (path enumeration, truth tables, resolved expressions); a form that is not
understood stops the analysis (exit 2).
"""

from __future__ import annotations

import ast

from .core import AnalysisError, Repo, Report, call_name, nested_defs, norm, own_nodes
from .paths import enum_paths
from .resolve import rtext, run_block

MOD = "block_diagonalization"


def _returns(f):
    return [n for n in own_nodes(f) if isinstance(n, ast.Return)]


def rule_helpers(rep: Report, repo: Repo):
    R = "E11"
    loc = lambda n: repo.loc(MOD, n)

    # -- _normalize_subspace_eigenvectors: pairs are (right, left); a single basis is both ------------
    from .paths import eval_bool
    from .resolve import env_at, resolved
    from .sem import Scope, canon, outcomes
    f = repo.find(f"{MOD}::_normalize_subspace_eigenvectors", R)
    loops = [n for n in f.body if isinstance(n, ast.For)]
    if len(loops) != 1 or not isinstance(loops[0].target, ast.Name):
        raise AnalysisError(R, "_normalize_subspace_eigenvectors: loop not found")
    var = loops[0].target.id
    rets = _returns(f)
    if len(rets) != 1 or not (isinstance(rets[0].value, ast.Tuple) and len(rets[0].value.elts) == 2):
        raise AnalysisError(R, "_normalize_subspace_eigenvectors: does not return one pair")
    lists = []
    for e in rets[0].value.elts:
        while isinstance(e, ast.Call) and call_name(e) in ("tuple", "list") and len(e.args) == 1:
            e = e.args[0]
        if not isinstance(e, ast.Name):
            raise AnalysisError(R, f"_normalize_subspace_eigenvectors: returned component `{norm(e)[:40]}` is not a local list")
        lists.append(e.id)
    RL, LL = lists
    seen = {}
    for is_pair in (True, False):
        def atom(n, is_pair=is_pair):
            t = norm(canon(n))
            if t == f"isinstance({var}, tuple)":
                return is_pair
            return None
        apps_all = []
        for o in outcomes(loops[0].body, None, env={}, atom=atom):
            if o.kind == "raise":
                continue
            apps = {}
            for kind, st, rv in o.seq:
                if kind == "stmt" and isinstance(rv, ast.Call) and isinstance(rv.func, ast.Attribute) and rv.func.attr == "append" \
                        and len(rv.args) == 1:
                    apps.setdefault(norm(rv.func.value), []).append(norm(rv.args[0]))
            apps_all.append(apps)
        if not apps_all:
            raise AnalysisError(R, "_normalize_subspace_eigenvectors: no non-raising path through the loop body")
        seen[is_pair] = apps_all
    ok = all(a_ == {RL: [f"{var}[0]"], LL: [f"{var}[1]"]} for a_ in seen[True])
    rep.check(ok, R, f"{MOD}::_normalize_subspace_eigenvectors a pair is (right, left) and goes to (right_subspaces, left_subspaces)",
              f"appended {seen[True]}; returned (right, left) = ({RL}, {LL})", loc(f))
    ok = all(a_ == {RL: [var], LL: [var]} for a_ in seen[False])
    rep.check(ok, R, f"{MOD}::_normalize_subspace_eigenvectors a single basis V is used as (V, V)", str(seen[False]), loc(f))
    rep.ok(R, f"{MOD}::_normalize_subspace_eigenvectors returns (right bases, left bases)", norm(rets[0].value), loc(f))

    # -- _convert_if_zero: only a value that IS zero becomes the sentinel; everything else is returned unchanged --
    f = repo.find(f"{MOD}::_convert_if_zero", R)
    KINDS = {
        "ndarray": ("isinstance(value, np.ndarray)", ["np.allclose(value, 0, atol=atol)"]),
        "sparse": ("sparse.issparse(value)", ["value.count_nonzero() == 0", "value.nnz == 0"]),
        "sympy": ("isinstance(value, sympy.MatrixBase)", ["value.is_zero_matrix"]),
        "else": (None, ["value == 0"]),
    }
    for kind, (ktest, allowed) in KINDS.items():
        def atom(n, kind=kind):
            t = norm(canon(n))
            for k2, (kt, _a) in KINDS.items():
                if kt is not None and t == kt:
                    return k2 == kind
            return None
        table = {}
        for o in outcomes(f.body, None, env={}, atom=atom):
            if o.kind != "return":
                raise AnalysisError(R, "_convert_if_zero: path without return")
            free = [(norm(canon(t)), pol) for t, pol in o.conds if eval_bool(t, atom) is None]
            if len(free) != 1:
                raise AnalysisError(R, f"_convert_if_zero [{kind}]: path decided by {len(free)} value tests")
            table.setdefault(free[0][0], {})[free[0][1]] = norm(o.value)
        ok = len(table) == 1 and next(iter(table)) in allowed and next(iter(table.values())) == {True: "zero", False: "value"}
        label = ktest or "else"
        rep.check(ok, R, f"{MOD}::_convert_if_zero [{label}] turns exactly a zero value into the `zero` sentinel",
                  f"{table}; accepted zero tests {allowed}", loc(f))

    # -- _unpack_blocks.op_eval: block (i, j) of a nested list is h[i][j] -------------------------------------
    f = repo.find(f"{MOD}::_unpack_blocks", R)
    ev = [d for d in nested_defs(f) if d.name == "op_eval"]
    if len(ev) != 1:
        raise AnalysisError(R, "_unpack_blocks.op_eval not found")
    rr = [n for n in ast.walk(ev[0]) if isinstance(n, ast.Return) and n.value is not None and norm(n.value) != "zero"]
    texts = [rtext(n.value, env_at(n, ev[0])) for n in rr]
    ok = texts == ["_convert_if_zero(_convert_if_zero(operator[index[2:]], atol=atol)[index[0]][index[1]], atol=atol)"]
    rep.check(ok, R, f"{MOD}::_unpack_blocks block (i, j) of a nested-list term is term[i][j]", str(texts), loc(ev[0]))
    shp = [n for n in ast.walk(f) if isinstance(n, ast.Call) and call_name(n) == "BlockSeries"]
    ok = False
    if len(shp) == 1:
        sh = {k.arg: k.value for k in shp[0].keywords}.get("shape")
        if sh is not None:
            t = rtext(sh, env_at(shp[0], f))
            zo = [n for n in ast.walk(f) if isinstance(n, ast.NamedExpr) and norm(n.value) == "operator[(0,) * operator.n_infinite]"]
            Z = [zo[0].target.id] if zo else []
            Z.append("operator[(0,) * operator.n_infinite]")
            ok = any(t in (f"2 * (len({z}),)", f"(len({z}),) * 2", f"(len({z}), len({z}))") for z in Z)
    rep.check(ok, R, f"{MOD}::_unpack_blocks the block grid is N x N with N = number of block rows of H_0", "", loc(f))

    # -- _extract_diagonal ---------------------------------------------------------------------------------------
    f = repo.find(f"{MOD}::_extract_diagonal", R)
    loops = [n for n in own_nodes(f) if isinstance(n, ast.For) and norm(n.iter) == "h_0"]
    ok = False
    if len(loops) == 1:
        body = loops[0].body
        eg = [n for n in ast.walk(loops[0]) if isinstance(n, ast.Assign) and norm(n.targets[0]) == "eigs"]
        zero_case = [n for n in body if isinstance(n, ast.If) and "block is zero" in norm(n.test)]
        ok = bool(eg) and norm(eg[0].value) == "block.diagonal()" and len(zero_case) == 1 and \
            norm(zero_case[0].body[0]) == "diags.append(np.array(0))"
    rep.check(ok, R, f"{MOD}::_extract_diagonal energies of block i are the diagonal of H_0[i, i] (0 for an absent block)", "", loc(f))
    h0 = [n for n in own_nodes(f) if isinstance(n, ast.Assign) and norm(n.targets[0]) == "h_0"]
    ok = len(h0) == 1 and norm(h0[0].value) == "operator[(diag_indices, diag_indices) + (0,) * operator.n_infinite]"
    rep.check(ok, R, f"{MOD}::_extract_diagonal reads the diagonal blocks (i, i) at order zero", "", loc(f))
    rep.check([norm(r.value) for r in _returns(f)] == ["tuple(diags)"], R, f"{MOD}::_extract_diagonal returns the energies in block order", "", loc(f))

    # -- _preprocess_sylvester.wrapped -------------------------------------------------------------------------------
    f = repo.find(f"{MOD}::_preprocess_sylvester", R)
    w = [d for d in nested_defs(f) if d.name == "wrapped"][0]
    rets = [norm(r.value) for r in _returns(w)]
    idx = [n for n in own_nodes(w) if isinstance(n, ast.If) and norm(n.test) == "isinstance(Y, BlockSeries)"]
    ok = rets == ["solve_sylvester(Y) if Y is not zero else zero"] and len(idx) == 1 and norm(idx[0].body[0]) == "Y = Y[index]"
    rep.check(ok, R, f"{MOD}::_preprocess_sylvester a legacy solver gets the element at the requested index; an absent right-hand side stays absent",
              str(rets), loc(w))

    # -- _group_close_energies: a partition of the indices into groups closed under |E_a - E_b| <= atol ---------------
    f = repo.find(f"{MOD}::_group_close_energies", R)
    real = [n for n in own_nodes(f) if isinstance(n, ast.If) and norm(n.test) == "np.isrealobj(energies)"]
    ok = False
    if len(real) == 1:
        env = run_block(real[0].body)
        r = [x for x in real[0].body if isinstance(x, ast.Return)]
        ok = len(r) == 1 and rtext(r[0].value, env) == "np.split(np.argsort(energies), np.nonzero(np.diff(energies[np.argsort(energies)]) > atol)[0] + 1)"
    rep.check(ok, R, f"{MOD}::_group_close_energies [real] sorted energies are split where the gap exceeds atol", "", loc(f))
    q = [n for n in ast.walk(f) if isinstance(n, ast.Call) and isinstance(n.func, ast.Attribute) and n.func.attr == "query_pairs"]
    ok = len(q) == 1 and {k.arg: norm(k.value) for k in q[0].keywords}.get("r") == "atol"
    cc = [n for n in ast.walk(f) if isinstance(n, ast.Call) and (call_name(n) or "").endswith("connected_components")]
    last = _returns(f)[-1]
    ok = ok and len(cc) == 1 and norm(last.value) == "[np.flatnonzero(labels == label) for label in range(n_components)]"
    rep.check(ok, R, f"{MOD}::_group_close_energies [complex] groups are the connected components of the |E_a - E_b| <= atol graph", "", loc(f))

    # -- linalg.aslinearoperator / is_diagonal ------------------------------------------------------------------------------
    f = repo.find("linalg::aslinearoperator", R)
    first = [s for s in f.body if isinstance(s, ast.If)]
    ok = len(first) == 1 and norm(first[0].test) in ("A is zero or A is one", "A is one or A is zero") and norm(first[0].body[0]) == "return A" \
        and norm(f.body[-1]) == "return scipy_aslinearoperator(A)"
    rep.check(ok, R, "linalg::aslinearoperator passes the zero / one sentinels through unchanged", "", repo.loc("linalg", f))

    # -- second_quantization.apply_mask_to_operator + NumberOrderedForm.filter_terms: keep / discard are complementary ------
    f = repo.find("second_quantization::apply_mask_to_operator", R)
    from .sem import outcomes as _outcomes
    loops = [n for n in ast.walk(f) if isinstance(n, ast.For) and not any(isinstance(x, ast.For) for s_ in n.body for x in ast.walk(s_))]
    if len(loops) != 1 or not isinstance(loops[0].target, ast.Name):
        raise AnalysisError(R, "apply_mask_to_operator: element loop not found")
    outer_loops = [n for n in ast.walk(f) if isinstance(n, ast.For) and loops[0] in n.body]
    if len(outer_loops) != 1 or not isinstance(outer_loops[0].target, ast.Name):
        raise AnalysisError(R, "apply_mask_to_operator: row loop not found")
    I, J = outer_loops[0].target.id, loops[0].target.id
    IJ = f"{I}, {J}"
    table = {}
    for keep in (True, False):
        for empty_mask in (True, False):
            def atom(n, keep=keep, empty_mask=empty_mask):
                t = norm(canon(n))
                if t == "keep":
                    return keep
                if t == f"mask[{IJ}]":
                    return not empty_mask
                if t == f"operator[{IJ}]":
                    return True   # an empty operator entry is skipped: only non-empty values are of interest
                return None
            res = set()
            for o in _outcomes(loops[0].body, None, env={}, atom=atom):
                stores = []
                for kind, st, rv in o.seq:
                    if kind == "assign" and isinstance(st, ast.Assign) and norm(st.targets[0]) == f"result[{IJ}]":
                        stores.append(norm(rv))
                res.add(tuple(stores))
            table[(keep, "empty mask" if empty_mask else "mask")] = sorted(res)
    VAL = f"operator[{IJ}]"
    NOF = f"NumberOrderedForm.from_expr({VAL})._combine_operators(mask[{IJ}])"
    # (the combined mask is written back to mask[i, j] by the same unpacking, so `mask[i, j].terms` are the combined terms)
    filt = [(f"{NOF}[0].filter_terms(tuple(mask[{IJ}].terms), keep)",)]
    ok = table.get((True, "empty mask")) == [()] and table.get((False, "empty mask")) == [(VAL,)] and \
        table.get((True, "mask")) == filt and table.get((False, "mask")) == filt
    rep.check(ok, R, "second_quantization::apply_mask_to_operator an empty mask entry selects nothing (keep) / everything (discard); otherwise filter_terms(mask terms, keep)",
              str({k: [tuple(x[:90] for x in t) for t in v] for k, v in table.items()}), repo.loc("second_quantization", f))
    ft = repo.find("number_ordered_form::NumberOrderedForm::filter_terms", R)
    comps = [n for n in ast.walk(ft) if isinstance(n, ast.GeneratorExp) and n.generators[0].ifs]
    ok = False
    if comps:
        cond = comps[0].generators[0].ifs[0]
        t = norm(cond)
        ok = t.startswith("not bool(keep) != any((all(((power - ref).is_zero is not False for power, ref in zip(powers, condition)))")
    rep.check(ok, R, "number_ordered_form::NumberOrderedForm.filter_terms keeps a term iff (it matches some condition) == keep",
              "so filter_terms(c, True) + filter_terms(c, False) is the whole form", repo.loc("number_ordered_form", ft))
