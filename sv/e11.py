"""E11 -- contracts of the small helper functions the other engines rely on.

Each rule states what the helper must denote and decides it from the helper's own
body (path enumeration, truth tables, resolved expressions); a form that is not
understood stops the analysis (exit 2).
"""

from __future__ import annotations

import ast

from .core import AnalysisError, Repo, Report, call_name, nested_defs, norm, own_nodes
from .paths import enum_paths
from .resolve import rtext, run_block
from .sem import inline

MOD = "block_diagonalization"


def _returns(f):
    return [n for n in own_nodes(f) if isinstance(n, ast.Return)]


def rule_helpers(rep: Report, repo: Repo, sections=None, nonhermitian: bool = True):
    R = "E11"
    loc = lambda n: repo.loc(MOD, n)

    from .paths import eval_bool
    from .resolve import env_at, resolved
    from .sem import Scope, canon, outcomes
    from .sem import kwcalls
    from .sem import elementwise_map, ctext
    from .sem import outcomes as _outcomes
    if sections is None or "subspaces" in sections:
        # -- _normalize_subspace_eigenvectors: pairs are (right, left); a single basis is both ------------
        f = repo.find(f"{MOD}::_normalize_subspace_eigenvectors", R)
        loops = [n for n in f.body if isinstance(n, ast.For)]
        if len(loops) != 1 or not isinstance(loops[0].target, ast.Name):
            raise AnalysisError(R, "_normalize_subspace_eigenvectors: loop not found")
        var = loops[0].target.id
        rets = _returns(f)
        if len(rets) != 1 or not (isinstance(rets[0].value, ast.Tuple) and len(rets[0].value.elts) == 2):
            raise AnalysisError(R, "_normalize_subspace_eigenvectors: does not return one pair")
        # the two returned components: either two local lists (tuple(A), tuple(B)) or the two projections of one list of
        # pairs (tuple(r for r, _ in P), tuple(l for _, l in P))
        lists = []
        for e in rets[0].value.elts:
            while isinstance(e, ast.Call) and call_name(e) in ("tuple", "list") and len(e.args) == 1:
                e = e.args[0]
            if isinstance(e, ast.Name):
                lists.append((e.id, None))
            elif isinstance(e, (ast.GeneratorExp, ast.ListComp)) and len(e.generators) == 1 and not e.generators[0].ifs \
                    and isinstance(e.generators[0].iter, ast.Name) and isinstance(e.generators[0].target, ast.Tuple) \
                    and isinstance(e.elt, ast.Name) and [norm(t) for t in e.generators[0].target.elts].count(e.elt.id) == 1:
                lists.append((e.generators[0].iter.id, [norm(t) for t in e.generators[0].target.elts].index(e.elt.id)))
            else:
                raise AnalysisError(R, f"_normalize_subspace_eigenvectors: returned component `{norm(e)[:40]}` is not a local list")
        seen = {}
        for is_pair in (True, False):
            def atom(n, is_pair=is_pair):
                t = norm(canon(n))
                if t == f"isinstance({var}, tuple)":
                    return is_pair
                return None
            apps_all = []
            for o in outcomes(loops[0].body, None, env={}, atom=atom):
                if o.kind == "raise":
                    continue
                apps = {}
                for kind, st, rv in o.seq:
                    if kind == "stmt" and isinstance(rv, ast.Call) and isinstance(rv.func, ast.Attribute) and rv.func.attr == "append" \
                            and len(rv.args) == 1:
                        apps.setdefault(norm(rv.func.value), []).append(rv.args[0])
                # what each returned component receives on this path
                got = []
                for lname, proj in lists:
                    vals = apps.get(lname, [])
                    if proj is None:
                        got.append([norm(v) for v in vals])
                    else:
                        if not all(isinstance(v, ast.Tuple) and len(v.elts) > proj for v in vals):
                            raise AnalysisError(R, "_normalize_subspace_eigenvectors: appended value is not a pair")
                        got.append([norm(v.elts[proj]) for v in vals])
                apps_all.append(got)
            if not apps_all:
                raise AnalysisError(R, "_normalize_subspace_eigenvectors: no non-raising path through the loop body")
            seen[is_pair] = apps_all
        RL, LL = lists[0][0], lists[1][0]
        ok = all(a_ == [[f"{var}[0]"], [f"{var}[1]"]] for a_ in seen[True])
        rep.check(ok, R, f"{MOD}::_normalize_subspace_eigenvectors a pair is (right, left) and goes to (right_subspaces, left_subspaces)",
                  f"appended (right component, left component) = {seen[True]}", loc(f))
        ok = all(a_ == [[var], [var]] for a_ in seen[False])
        rep.check(ok, R, f"{MOD}::_normalize_subspace_eigenvectors a single basis V is used as (V, V)", str(seen[False]), loc(f))
        rep.ok(R, f"{MOD}::_normalize_subspace_eigenvectors returns (right bases, left bases)", norm(rets[0].value), loc(f))

    if sections is None or "convert_if_zero" in sections:
        # -- _convert_if_zero: only a value that IS zero becomes the sentinel; everything else is returned unchanged --
        f = repo.find(f"{MOD}::_convert_if_zero", R)
        KINDS = {
            "ndarray": ("isinstance(value, np.ndarray)", ["np.allclose(value, 0, atol=atol)"]),
            "sparse": ("sparse.issparse(value)", ["value.count_nonzero() == 0", "value.nnz == 0"]),
            "sympy": ("isinstance(value, sympy.MatrixBase)", ["value.is_zero_matrix"]),
            "else": (None, ["value == 0"]),
        }
        for kind, (ktest, allowed) in KINDS.items():
            def atom(n, kind=kind):
                t = norm(canon(n))
                for k2, (kt, _a) in KINDS.items():
                    if kt is not None and t == kt:
                        return k2 == kind
                return None
            table = {}
            for o in outcomes(f.body, None, env={}, atom=atom):
                if o.kind != "return":
                    raise AnalysisError(R, "_convert_if_zero: path without return")
                free = [(norm(canon(t)), pol) for t, pol in o.conds if eval_bool(t, atom) is None]
                if len(free) != 1:
                    raise AnalysisError(R, f"_convert_if_zero [{kind}]: path decided by {len(free)} value tests")
                table.setdefault(free[0][0], {})[free[0][1]] = norm(o.value)
            ok = len(table) == 1 and next(iter(table)) in allowed and next(iter(table.values())) == {True: "zero", False: "value"}
            label = ktest or "else"
            rep.check(ok, R, f"{MOD}::_convert_if_zero [{label}] turns exactly a zero value into the `zero` sentinel",
                      f"{table}; accepted zero tests {allowed}", loc(f))

    if sections is None or "unpack_blocks" in sections:
        # -- _unpack_blocks.op_eval: block (i, j) of a nested list is h[i][j] -------------------------------------
        f = repo.find(f"{MOD}::_unpack_blocks", R)
        ev = [d for d in nested_defs(f) if d.name == "op_eval"]
        if len(ev) != 1:
            raise AnalysisError(R, "_unpack_blocks.op_eval not found")
        rr = [n for n in ast.walk(ev[0]) if isinstance(n, ast.Return) and n.value is not None and norm(n.value) != "zero"]
        # a Hermitian fill (lower block = adjoint of the upper one) is legitimate only under a flag that every caller sets from
        # its own `hermitian` argument
        fills = [n for n in rr if isinstance(n.value, ast.Call) and call_name(n.value) in ("Dagger", "adjoint") and len(n.value.args) == 1
                 and isinstance(n.value.args[0], ast.Subscript) and "index[1], index[0]" in norm(n.value.args[0].slice)]
        if fills:
            rr = [n for n in rr if n not in fills]
            from .sem import bind_args, outcomes as _outcomes
            from .paths import bool_atoms
            params = [a.arg for a in f.args.args + f.args.kwonlyargs]
            for o in _outcomes(ev[0].body, None, env={}, expand=False):
                if o.kind != "return" or o.node not in fills:
                    continue
                true_atoms = [norm(a) for t, pol in o.conds if pol for a in (bool_atoms(t) if isinstance(t, ast.BoolOp) and isinstance(t.op, ast.And) else [t])]
                lower = any(t in ("index[0] > index[1]", "index[1] < index[0]") for t in true_atoms)
                flags = [t for t in true_atoms if t in params]
                if not lower:
                    raise AnalysisError(R, f"_unpack_blocks.op_eval: adjoint fill under `{true_atoms}`: not understood")
                if not flags:
                    rep.fail(R, f"{MOD}::_unpack_blocks.op_eval takes a lower block as the adjoint of the upper one without a Hermiticity flag",
                             "for a non-Hermitian input given as nested block lists the lower blocks are independent data", loc(o.node))
                    continue
                F = flags[0]
                sites = [c for t_ in repo.trees.values() for c in ast.walk(t_) if isinstance(c, ast.Call) and call_name(c) == "_unpack_blocks"]
                defaults = dict(zip([a.arg for a in f.args.args][len(f.args.args) - len(f.args.defaults):], f.args.defaults))
                defaults.update({a.arg: d for a, d in zip(f.args.kwonlyargs, f.args.kw_defaults) if d is not None})
                for c in sites:
                    b = bind_args(f, c)
                    if b is None:
                        raise AnalysisError(R, f"cannot bind `{norm(c)[:60]}`")
                    host = c
                    while host is not None and not isinstance(host, ast.FunctionDef):
                        host = getattr(host, "_parent", None)
                    host_params = [a.arg for a in host.args.args + host.args.kwonlyargs] if host is not None else []
                    given = b.get(F, defaults.get(F))
                    gtxt = norm(given) if given is not None else "<missing>"
                    inst = f"{MOD}::{host.name if host else '?'} calls _unpack_blocks with {F} = {gtxt}" + ("" if F in b else " (the default)")
                    if gtxt == "False" or (isinstance(given, ast.Name) and given.id in host_params and "hermitian" in given.id):
                        rep.ok(R, inst, "the fill follows the caller's Hermiticity flag", loc(c))
                    elif gtxt == "True" and any("hermitian" in p_ for p_ in host_params) and not nonhermitian:
                        rep.ok(R, inst, "harmless for the Hermitian inputs this property is about (reported under C05 / C14)", loc(c))
                    elif gtxt == "True" and any("hermitian" in p_ for p_ in host_params):
                        rep.fail(R, inst + f" although {host.name} has its own Hermiticity argument",
                                 "with hermitian=False the lower blocks of a nested-block-list Hamiltonian are replaced by the adjoints of the "
                                 "upper ones: the result belongs to a different operator", loc(c))
                    else:
                        raise AnalysisError(R, f"{inst}: not understood")
        msc = Scope(repo.trees[MOD], None)
        # a term taken from somewhere else than `operator[index[2:]]` on some path: legitimate only for the zeroth order as a whole
        from .sem import outcomes as _oc_u
        outer_env_u = env_at(ev[0], f)
        zeroth_txt = "operator[(0,) * operator.n_infinite]"
        reuse_checked = False
        paths_u = []  # (value, conditions, node)
        try_stmts = [s_ for s_ in ev[0].body if isinstance(s_, ast.Try)]
        for o_ in _oc_u(ev[0].body, None, env={}, expand=False):
            if o_.kind == "return" and o_.value is not None:
                paths_u.append((o_.value, o_.conds, o_.node))
            elif o_.kind == "fall" and len(try_stmts) == 1:
                # the path reaches the `try:` whose body returns the block: its return values are read in this path's environment
                for r_ in [x for x in ast.walk(try_stmts[0]) if isinstance(x, ast.Return) and x.value is not None and x in try_stmts[0].body]:
                    paths_u.append((resolved(r_.value, o_.env), o_.conds, r_))
        for val_u, conds_u, node_u in paths_u:
            o_ = type("_P", (), {"value": val_u, "conds": conds_u, "node": node_u})()
            if norm(o_.value) == "zero" or o_.node in fills:
                continue
            vt = norm(resolved(o_.value, outer_env_u))
            if "operator[index[2:]]" in vt:
                continue
            if zeroth_txt in vt or any(isinstance(x, ast.Name) and x.id in outer_env_u and zeroth_txt in norm(outer_env_u[x.id]) for x in ast.walk(o_.value)) \
                    or any(isinstance(x, ast.Name) and any(isinstance(w, ast.NamedExpr) and w.target.id == x.id and norm(w.value) == zeroth_txt
                                                           for w in ast.walk(f)) for x in ast.walk(o_.value)):
                conds_t = [(norm(canon(t_)), p_) for t_, p_ in o_.conds]
                whole = any((t_ in ("any(index[2:])", "sum(index[2:])") and not p_) or (t_ in ("not any(index[2:])", "sum(index[2:]) == 0",
                            "all((_v0 == 0 for _v0 in index[2:]))", "index[2:] == (0,) * operator.n_infinite") and p_) for t_, p_ in conds_t)
                last_only = any((t_ in ("index[-1]", "index[2]") and not p_) or (t_ in ("index[-1] == 0", "index[2] == 0", "not index[-1]") and p_) for t_, p_ in conds_t)
                reuse_checked = True
                if whole:
                    rep.ok(R, f"{MOD}::_unpack_blocks.op_eval reuses the unperturbed term only when every order is zero", str(conds_t)[:100], loc(o_.node))
                elif last_only:
                    rep.fail(R, f"{MOD}::_unpack_blocks.op_eval takes the blocks of the UNPERTURBED term whenever one order index is zero (`{next(t_ for t_, _p in conds_t if 'index[' in t_)}`)",
                             "with two or more perturbation parameters the orders (n_1, ..., 0) are perturbation terms of their own: they are "
                             "replaced by H_0", loc(o_.node))
                else:
                    raise AnalysisError(R, f"_unpack_blocks.op_eval reuses the unperturbed term under `{conds_t}`: not understood")
        if reuse_checked and any("operator[index[2:]]" not in norm(resolved(n.value, env_at(n, ev[0]))) for n in rr):
            # the per-path check above has decided the paths that do not read the packed series; the text check below looks at the others
            rr = [n for n in rr if "operator[index[2:]]" in norm(resolved(n.value, env_at(n, ev[0])))]
        texts = [norm(kwcalls(resolved(n.value, env_at(n, ev[0])), msc)) for n in rr]
        WANT = "_convert_if_zero(_convert_if_zero(operator[index[2:]], atol=atol)[index[0]][index[1]], atol=atol)"
        ok = texts == [WANT]
        if not ok:
            # understood and wrong: the same expression with other block indices; anything else (another way of obtaining the term, ...)
            # is not understood
            import re as _re
            shape_ = _re.escape(WANT).replace(_re.escape("[index[0]][index[1]]"), r"\[index\[\d\]\]\[index\[\d\]\]")
            if not (len(texts) == 1 and _re.fullmatch(shape_, texts[0])):
                raise AnalysisError(R, f"_unpack_blocks.op_eval returns `{(texts or ['?'])[0][:100]}`: not the (i, j) element of the term read from the packed series")
        rep.check(ok, R, f"{MOD}::_unpack_blocks block (i, j) of a nested-list term is term[i][j]", str(texts), loc(ev[0]))
        shp = [n for n in ast.walk(f) if isinstance(n, ast.Call) and call_name(n) == "BlockSeries"]
        ok = False
        if len(shp) == 1:
            sh = {k.arg: k.value for k in shp[0].keywords}.get("shape")
            if sh is not None:
                zo = [n for n in ast.walk(f) if isinstance(n, ast.NamedExpr) and norm(n.value) == "operator[(0,) * operator.n_infinite]"]
                env_s = env_at(shp[0], f)
                if zo:
                    env_s[zo[0].target.id] = zo[0].value
                t = rtext(sh, env_s)
                z = "operator[(0,) * operator.n_infinite]"
                ok = t in (f"2 * (len({z}),)", f"(len({z}),) * 2", f"(len({z}), len({z}))")
        rep.check(ok, R, f"{MOD}::_unpack_blocks the block grid is N x N with N = number of block rows of H_0", "", loc(f))

    if sections is None or "extract_diagonal" in sections:
        # -- _extract_diagonal: one energy array per diagonal block, in block order ------------------------------------------
        f = repo.find(f"{MOD}::_extract_diagonal", R)
        sc_ = Scope(repo.trees[MOD], f)
        em = elementwise_map(f, sc_)
        if em is None:
            raise AnalysisError(R, "_extract_diagonal: not recognised as an element-wise map over the diagonal blocks")
        it, V, paths = em
        want_it = ctext(ast.parse("operator[(np.arange(operator.shape[0] - implicit), np.arange(operator.shape[0] - implicit)) + (0,) * operator.n_infinite]",
                                  mode="eval").body)
        rep.check(ctext(it) == want_it, R, f"{MOD}::_extract_diagonal reads the diagonal blocks (i, i) at order zero", ctext(it)[:160], loc(f))
        rep.ok(R, f"{MOD}::_extract_diagonal returns the energies in block order", "one value per element of the diagonal blocks, in iteration order", loc(f))
        DIAG = f"{V}.diagonal()"
        WANT = {
            "absent": ("np.array(0)",),
            "numeric": (DIAG,),
            "sympy": (f"np.array({DIAG}, dtype=object)",),
            "sympy+operators": (f"np.array([NumberOrderedForm.from_expr(_v0).simplify() for _v0 in {DIAG}], dtype=object)",
                                f"np.array([NumberOrderedForm.from_expr(_v1).simplify() for _v1 in {DIAG}], dtype=object)"),
        }
        bad = []
        for absent_zero, absent_masked, sym, ops in [(z, m, s_, o) for z in (0, 1) for m in (0, 1) for s_ in (0, 1) for o in (0, 1)]:
            def atom(n):
                t = norm(canon(n))
                if t == f"{V} is zero":
                    return bool(absent_zero)
                if t == f"{V} is np.ma.masked":
                    return bool(absent_masked)
                if t == "operators":
                    return bool(ops)
                if t == "is_sympy" or (t.startswith("any((isinstance(") and "sympy.MatrixBase" in t):
                    return bool(sym)
                return None
            taken = []
            for conds, val in paths:
                vals = [eval_bool(c, atom) for c, _p in conds]
                if None in vals:
                    raise AnalysisError(R, f"_extract_diagonal: condition `{norm(conds[vals.index(None)][0])[:60]}` not understood")
                if all(v == p for v, (_c, p) in zip(vals, conds)):
                    taken.append(val)
            kind = "absent" if (absent_zero or absent_masked) else ("numeric" if not sym else ("sympy+operators" if ops else "sympy"))
            got = [norm(resolved(v, {})) if v is not None else "<skipped>" for v in taken]
            if len(got) != 1 or got[0] not in WANT[kind]:
                bad.append((kind, got))
        rep.check(not bad, R, f"{MOD}::_extract_diagonal energies of block i are the diagonal of H_0[i, i] (0 for an absent block)",
                  f"disagreeing cases {bad[:2]}" if bad else "absent -> np.array(0); numeric -> diagonal; symbolic -> object array (NumberOrderedForm-simplified with operators)", loc(f))

    if sections is None or "preprocess_sylvester" in sections:
        # -- _preprocess_sylvester.wrapped -------------------------------------------------------------------------------
        f = repo.find(f"{MOD}::_preprocess_sylvester", R)
        ws = [d for d in f.body if isinstance(d, ast.FunctionDef) and isinstance(f.body[-1], ast.Return) and norm(f.body[-1].value) == d.name]
        if len(ws) != 1 or [a_.arg for a_ in ws[0].args.args] != ["Y", "index"]:
            raise AnalysisError(R, "_preprocess_sylvester: wrapper (Y, index) not found")
        w = ws[0]
        table = {}
        for is_series in (True, False):
            for absent in (True, False):
                def atom(n):
                    t = norm(canon(n))
                    if t == "isinstance(Y, BlockSeries)":
                        return is_series
                    if t == "Y is zero":
                        return absent
                    if t == "Y is not zero":
                        return not absent
                    return None
                res = set()
                for o in outcomes(w.body, None, env={}, atom=atom, opaque=("Y",)):
                    if o.kind == "raise":
                        continue
                    if o.kind != "return":
                        raise AnalysisError(R, "_preprocess_sylvester: path without return")
                    rebinds = []
                    for kind, st, rv in o.seq:
                        if kind == "assign" and isinstance(st, ast.Assign) and norm(st.targets[0]) == "Y":
                            while isinstance(rv, ast.IfExp):
                                pick = eval_bool(rv.test, atom)
                                if pick is None:
                                    raise AnalysisError(R, "_preprocess_sylvester: rebinding of Y depends on an unknown condition")
                                rv = rv.body if pick else rv.orelse
                            if norm(rv) != "Y":
                                rebinds.append(norm(rv))
                    v = o.value
                    while isinstance(v, ast.IfExp):
                        pick = eval_bool(v.test, atom)
                        if pick is None:
                            raise AnalysisError(R, "_preprocess_sylvester: returned value depends on an unknown condition")
                        v = v.body if pick else v.orelse
                    res.add((tuple(rebinds), norm(v)))
                table[(is_series, absent)] = sorted(res)
        want = {(True, True): [(("Y[index]",), "zero")], (True, False): [(("Y[index]",), "solve_sylvester(Y)")],
                (False, True): [((), "zero")], (False, False): [((), "solve_sylvester(Y)")]}
        rep.check(table == want, R, f"{MOD}::_preprocess_sylvester a legacy solver gets the element at the requested index; an absent right-hand side stays absent",
                  str(table), loc(w))

    if sections is None or "group_close" in sections:
        # -- _group_close_energies: a partition of the indices into groups closed under |E_a - E_b| <= atol ---------------
        f = repo.find(f"{MOD}::_group_close_energies", R)
        res_real, res_cplx = [], []
        for real in (True, False):
            def atom(n, real=real):
                t = norm(canon(n))
                if t == "np.isrealobj(energies)":
                    return real
                if t == "np.iscomplexobj(energies)":
                    return not real
                if t in ("len(energies) == 0", "0 == len(energies)", "not len(energies)"):
                    return False
                if t == "len(energies)":
                    return True
                return None
            for o in outcomes(f.body, None, env={}, atom=atom, expand=False):
                if o.kind != "return":
                    raise AnalysisError(R, "_group_close_energies: path without return")
                (res_real if real else res_cplx).append(o)
        ok = len(res_real) == 1 and norm(res_real[0].value) == \
            "np.split(np.argsort(energies), np.nonzero(np.diff(energies[np.argsort(energies)]) > atol)[0] + 1)"
        rep.check(ok, R, f"{MOD}::_group_close_energies [real] sorted energies are split where the gap exceeds atol",
                  norm(res_real[0].value)[:140] if res_real else "", loc(f))
        # complex energies: pairs within atol (KD tree on (re, im)) -> symmetric graph -> connected components -> one index array per label
        ok = bool(res_cplx)
        detail = ""
        for o in res_cplx:
            v = o.value
            good = isinstance(v, ast.ListComp) and len(v.generators) == 1 and isinstance(v.elt, ast.Call) and call_name(v.elt) == "np.flatnonzero"
            if good:
                g_ = v.generators[0]
                cmp_ = v.elt.args[0]
                cc_call = "sparse.csgraph.connected_components("
                lab = norm(cmp_.left) if isinstance(cmp_, ast.Compare) else ""
                rng = norm(g_.iter)
                # labels / n_components come from one connected_components(graph, directed=False) call (resolved by position)
                if isinstance(cmp_, ast.Compare) and len(cmp_.ops) == 1 and norm(cmp_.left) == norm(g_.target):
                    # `label == labels`: the same selection with the operands the other way round
                    cmp_ = ast.Compare(left=cmp_.comparators[0], ops=cmp_.ops, comparators=[cmp_.left])
                    lab = norm(cmp_.left)
                good = isinstance(cmp_, ast.Compare) and isinstance(cmp_.ops[0], ast.Eq) and norm(cmp_.comparators[0]) == norm(g_.target) \
                    and lab.startswith(cc_call) and lab.endswith(", directed=False)[1]") and rng == "range(" + lab[:-3] + "[0])"
                graph = lab[len(cc_call):-len(", directed=False)[1]")]
                pairs = "np.array(list(KDTree(np.column_stack((energies.real, energies.imag))).query_pairs(r=atol)), dtype=int)"
                sym = (f"sparse.coo_array((np.ones(len(np.concatenate(({pairs}[:, 0], {pairs}[:, 1]))), dtype=bool), "
                       f"(np.concatenate(({pairs}[:, 0], {pairs}[:, 1])), np.concatenate(({pairs}[:, 1], {pairs}[:, 0])))), shape=(len(energies), len(energies)))")
                empty = "sparse.coo_array((len(energies), len(energies)), dtype=bool)"
                good = good and graph in (sym, empty)
                detail = graph[:100]
            ok = ok and bool(good)
        rep.check(ok, R, f"{MOD}::_group_close_energies [complex] groups are the connected components of the |E_a - E_b| <= atol graph", detail, loc(f))

    if sections is None or "aslinearoperator" in sections:
        # -- linalg.aslinearoperator: the sentinels pass through, everything else is wrapped -------------------------------
        f = repo.find("linalg::aslinearoperator", R)
        table = {}
        for z in (False, True):
            for o1 in (False, True):
                if z and o1:
                    continue
                def atom(n, z=z, o1=o1):
                    t = norm(canon(n))
                    return {"A is zero": z, "A is not zero": not z, "A is one": o1, "A is not one": not o1}.get(t)
                outs = [o for o in outcomes(f.body, None, env={}, atom=atom, expand=False)]
                if len(outs) != 1 or outs[0].kind != "return":
                    raise AnalysisError(R, "aslinearoperator: condition not understood")
                table[(z, o1)] = norm(outs[0].value)
        ok = table == {(False, False): "scipy_aslinearoperator(A)", (True, False): "A", (False, True): "A"}
        rep.check(ok, R, "linalg::aslinearoperator passes the zero / one sentinels through unchanged", str(table), repo.loc("linalg", f))

    if sections is None or "is_diagonal" in sections:
        # -- linalg.is_diagonal [dense]: EVERY off-diagonal entry is inspected ------------------------------------------------
        fd = repo.find("linalg::is_diagonal", R)
        if any(isinstance(c_, ast.Call) and isinstance(c_.func, ast.Name) and c_.func.id.startswith("_") for c_ in ast.walk(fd)):
            fd = repo.find_expanded("linalg::is_diagonal", R)  # the dense branch may have moved into a private helper
        dense = [s_ for s_ in fd.body if isinstance(s_, ast.If) and norm(s_.test) in ("isinstance(A, np.ndarray)",)]
        if len(dense) != 1:
            raise AnalysisError(R, "is_diagonal: dense branch not found")
        rets_d = [x_ for x_ in ast.walk(dense[0]) if isinstance(x_, ast.Return) and x_.value is not None]
        # locals (hoisted sizes, the view of the off-diagonal entries) are read through
        txt = " ".join(norm(resolved(x_.value, env_at(x_, fd))) for x_ in rets_d) or " ".join(norm(x_) for x_ in dense[0].body)
        one_triangle = any(t_ in txt for t_ in ("np.triu_indices_from(", "np.tril_indices_from(", "np.triu_indices(", "np.tril_indices(", "np.triu(", "np.tril("))
        both = ("np.triu" in txt and "np.tril" in txt)
        if "A.reshape(-1)[:-1].reshape(len(A) - 1, len(A) + 1)[:, 1:]" in txt or "np.diag(np.diag(A))" in txt or "~np.eye(" in txt or both:
            rep.ok(R, "linalg::is_diagonal [dense] inspects every off-diagonal entry", "", repo.loc("linalg", dense[0]))
        elif one_triangle:
            rep.fail(R, "linalg::is_diagonal [dense] looks at one triangle of the matrix only",
                     "a non-Hermitian (or simply wrong) H_0 with entries in the other triangle is declared diagonal: it is then stored as a "
                     "sparse 'diagonal' matrix and the block-diagonality rejection may never see the offending block", repo.loc("linalg", dense[0]))
        else:
            raise AnalysisError(R, f"is_diagonal: dense branch `{txt[:80]}` not understood")

    if sections is None or "apply_mask" in sections:
        # -- second_quantization.apply_mask_to_operator + NumberOrderedForm.filter_terms: keep / discard are complementary ------
        f = repo.find_expanded("second_quantization::apply_mask_to_operator", R)  # extracted helpers are seen through
        # the element loop: the innermost loop that stores into the result matrix; (i, j) are read off the store target
        stores = [n for n in ast.walk(f) if isinstance(n, ast.Assign) and isinstance(n.targets[0], ast.Subscript)
                  and isinstance(n.targets[0].slice, ast.Tuple) and len(n.targets[0].slice.elts) == 2 and norm(n.targets[0].value) == "result"]
        if not stores:
            raise AnalysisError(R, "apply_mask_to_operator: no store into the result matrix found")
        ijs = {norm(n.targets[0].slice).strip("()") for n in stores}
        if len(ijs) != 1:
            raise AnalysisError(R, f"apply_mask_to_operator: stores at different positions {sorted(ijs)}")
        IJ = next(iter(ijs))
        I, J = (x.strip() for x in IJ.split(","))
        loops = []
        p_ = stores[0]
        while p_ is not f and not loops:
            p_ = p_._parent
            if isinstance(p_, ast.For):
                loops.append(p_)
        if not loops:
            raise AnalysisError(R, "apply_mask_to_operator: element loop not found")
        L = loops[0]
        outerL = getattr(L, "_parent", None)
        if isinstance(L.target, ast.Tuple):
            ok_grid = norm(L.target) == f"({I}, {J})" and isinstance(L.iter, ast.Call) and call_name(L.iter) in ("product", "itertools.product") \
                and [norm(a_) for a_ in L.iter.args] == ["range(operator.rows)", "range(operator.cols)"]
        else:
            ok_grid = isinstance(outerL, ast.For) and norm(outerL.target) == I and norm(L.target) == J \
                and norm(outerL.iter) in ("range(operator.rows)", "range(operator.shape[0])") and norm(L.iter) in ("range(operator.cols)", "range(operator.shape[1])")
        if not ok_grid:
            raise AnalysisError(R, "apply_mask_to_operator: iteration over the matrix elements not understood")
        table = {}
        for keep in (True, False):
            for empty_mask in (True, False):
                def atom(n, keep=keep, empty_mask=empty_mask):
                    t = norm(canon(n))
                    if t == "keep":
                        return keep
                    if t == f"mask[{IJ}]":
                        return not empty_mask
                    if t == f"operator[{IJ}]":
                        return True   # an empty operator entry is skipped: only non-empty values are of interest
                    return None
                res = set()
                for o in _outcomes(loops[0].body, None, env={}, atom=atom):
                    stores = []
                    for kind, st, rv in o.seq:
                        if kind == "assign" and isinstance(st, ast.Assign) and norm(st.targets[0]) == f"result[{IJ}]":
                            stores.append(ctext(rv))
                    res.add(tuple(stores))
                table[(keep, "empty mask" if empty_mask else "mask")] = sorted(res)
        VAL = f"operator[{IJ}]"
        NOF = f"NumberOrderedForm.from_expr({VAL})._combine_operators(mask[{IJ}])"
        # (the combined mask is written back to mask[i, j] by the same unpacking, so `mask[i, j].terms` are the combined terms)
        filt = [(f"{NOF}[0].filter_terms(tuple(mask[{IJ}].terms), keep)",), (f"{NOF}[0].filter_terms(tuple(mask[{IJ}].terms), keep=keep)",)]
        ok_empty = table.get((True, "empty mask")) == [()] and table.get((False, "empty mask")) == [(VAL,)]
        ok_mask = table.get((True, "mask")) in ([x] for x in filt) and table.get((False, "mask")) in ([x] for x in filt)
        if ok_empty and not ok_mask:
            # understood and wrong: one filter_terms call whose keep argument is not the caller's `keep`; a call written differently
            # (other receiver / terms expression) is not understood
            import re as _re
            for key_ in ((True, "mask"), (False, "mask")):
                got_ = table.get(key_)
                if not (got_ and len(got_) == 1 and len(got_[0]) == 1 and ".filter_terms(" in got_[0][0]):
                    raise AnalysisError(R, f"apply_mask_to_operator: value stored for a non-empty mask entry `{str(got_)[:90]}` not understood")
                m_ = _re.search(r"\.filter_terms\((.*), (keep=)?([^,()]+)\)$", got_[0][0])
                if m_ is None or m_.group(3).strip() == "keep":
                    raise AnalysisError(R, f"apply_mask_to_operator: filter call `{got_[0][0][:100]}` not understood")
        ok = ok_empty and ok_mask
        rep.check(ok, R, "second_quantization::apply_mask_to_operator an empty mask entry selects nothing (keep) / everything (discard); otherwise filter_terms(mask terms, keep)",
                  str({k: [tuple(x[:90] for x in t) for t in v] for k, v in table.items()}), repo.loc("second_quantization", f))
        ft = repo.find("number_ordered_form::NumberOrderedForm::filter_terms", R)
        # a list split into two parts by `not any(p ...)` and `all(p ...)` loses the elements for which p holds for some members only
        splits = {}
        for c_ in ast.walk(ft):
            if isinstance(c_, (ast.ListComp, ast.SetComp, ast.GeneratorExp)) and len(c_.generators) == 1 and len(c_.generators[0].ifs) == 1 \
                    and isinstance(c_.generators[0].iter, ast.Name):
                t_ = c_.generators[0].ifs[0]
                neg = False
                while isinstance(t_, ast.UnaryOp) and isinstance(t_.op, ast.Not):
                    t_, neg = t_.operand, not neg
                if isinstance(t_, ast.Call) and call_name(t_) in ("any", "all") and len(t_.args) == 1 and isinstance(t_.args[0], (ast.GeneratorExp, ast.ListComp)):
                    from .resolve import resolved as _rs11
                    inner_txt = norm(_rs11(ast.GeneratorExp(elt=t_.args[0].elt, generators=t_.args[0].generators), {c_.generators[0].target.id: ast.Name(id="_ELT_", ctx=ast.Load())}
                                            if isinstance(c_.generators[0].target, ast.Name) else {}))
                    splits.setdefault((c_.generators[0].iter.id, inner_txt), []).append((call_name(t_), neg, c_))
        for (src_, _g), parts_ in splits.items():
            kinds_ = {(k_, n_) for k_, n_, _c in parts_}
            if kinds_ == {("any", True), ("all", False)}:
                rep.fail(R, f"number_ordered_form::NumberOrderedForm.filter_terms splits `{src_}` into `not any(...)` and `all(...)`",
                         "an element for which the predicate holds for some of its entries only (a condition mixing fixed and symbolic powers) is in "
                         "neither part and is ignored: the terms it selects are neither kept nor discarded as asked", repo.loc("number_ordered_form", parts_[0][2]))
        comps = [n for n in ast.walk(ft) if isinstance(n, (ast.GeneratorExp, ast.ListComp)) and n.generators[0].ifs
                 and norm(n.generators[0].iter) in ("self.args[1]", "self.terms.items()")]
        if len(comps) == 1 and len(comps[0].generators[0].ifs) == 1 and isinstance(comps[0].generators[0].target, ast.Tuple):
            gen = comps[0].generators[0]
            pw = norm(gen.target.elts[0])
            sel = inline(gen.ifs[0], Scope(repo.trees["number_ordered_form"], ft))
        else:
            # the same selection as a loop that appends the kept terms
            from .sem import list_built_by_loop
            built = None
            for acc in {norm(c.func.value) for c in ast.walk(ft) if isinstance(c, ast.Call) and isinstance(c.func, ast.Attribute) and c.func.attr == "append"}:
                built = list_built_by_loop(ft.body, acc) or built
            if built is None or len(built[2]) != 1 or not isinstance(built[0], ast.Tuple) or norm(built[1]) not in ("self.args[1]", "self.terms.items()") \
                    or not built[2][0][0]:
                raise AnalysisError(R, "filter_terms: selection of the terms not found as one filtered comprehension or one appending loop")
            pw = norm(built[0].elts[0])
            conds = built[2][0][0]
            sel = conds[0] if len(conds) == 1 else ast.BoolOp(op=ast.And(), values=list(conds))
            sel = inline(sel, Scope(repo.trees["number_ordered_form"], ft))
        # a predicate moved into a method / staticmethod of the class (`self._may_match(powers, c)`) is read from its definition:
        # a single returned expression, or a loop with an early `return False` followed by `return True` (= all(not test ...))
        cls_ = repo.find("number_ordered_form::NumberOrderedForm", R)

        def predicate_expr(fn):
            body = [b_ for b_ in fn.body if not (isinstance(b_, ast.Expr) and isinstance(b_.value, ast.Constant))]
            if len(body) == 1 and isinstance(body[0], ast.Return) and body[0].value is not None:
                return body[0].value
            if len(body) == 2 and isinstance(body[0], ast.For) and not body[0].orelse and len(body[0].body) == 1 and isinstance(body[0].body[0], ast.If) \
                    and not body[0].body[0].orelse and len(body[0].body[0].body) == 1 and isinstance(body[0].body[0].body[0], ast.Return) \
                    and norm(body[0].body[0].body[0].value) == "False" and isinstance(body[1], ast.Return) and norm(body[1].value) == "True":
                lp = body[0]
                return ast.Call(func=ast.Name(id="all", ctx=ast.Load()), keywords=[], args=[ast.GeneratorExp(
                    elt=ast.UnaryOp(op=ast.Not(), operand=lp.body[0].test),
                    generators=[ast.comprehension(target=lp.target, iter=lp.iter, ifs=[], is_async=0)])])
            return None

        class _Methods(ast.NodeTransformer):
            def visit_Call(self, node):
                self.generic_visit(node)
                if isinstance(node.func, ast.Attribute) and isinstance(node.func.value, ast.Name) and node.func.value.id in ("self", "NumberOrderedForm", "cls") \
                        and not node.keywords:
                    fns = [m_ for m_ in cls_.body if isinstance(m_, ast.FunctionDef) and m_.name == node.func.attr]
                    if len(fns) == 1:
                        params = [a_.arg for a_ in fns[0].args.args if a_.arg not in ("self", "cls")]
                        ex = predicate_expr(fns[0])
                        if ex is not None and len(params) == len(node.args):
                            from .resolve import resolved as _rs
                            return _rs(ex, dict(zip(params, node.args)))
                return node
        from .resolve import clone as _clone11
        sel = canon(_Methods().visit(_clone11(sel)))
        MATCH = (f"any((all(((_v0 - _v1).is_zero is not False for _v0, _v1 in zip({pw}, _v2))) for _v2 in conditions))",
                 f"any((all(((_v1 - _v2).is_zero is not False for _v1, _v2 in zip({pw}, _v0))) for _v0 in conditions))")

        def beval(e, k, m):
            """value of a boolean expression over the atoms keep (k) and `the term matches some condition` (m); None = unknown"""
            e = canon(e) if not isinstance(e, ast.Constant) else e
            if isinstance(e, ast.UnaryOp) and isinstance(e.op, ast.Not):
                v = beval(e.operand, k, m)
                return None if v is None else (not v)
            if isinstance(e, ast.BoolOp):
                vs = [beval(x, k, m) for x in e.values]
                if None in vs:
                    return None
                return all(vs) if isinstance(e.op, ast.And) else any(vs)
            if isinstance(e, ast.Compare) and len(e.ops) == 1 and isinstance(e.ops[0], (ast.Eq, ast.NotEq, ast.Is, ast.IsNot)):
                l, r = beval(e.left, k, m), beval(e.comparators[0], k, m)
                if l is None or r is None:
                    return None
                return (l == r) if isinstance(e.ops[0], (ast.Eq, ast.Is)) else (l != r)
            if isinstance(e, ast.IfExp):
                t = beval(e.test, k, m)
                return None if t is None else beval(e.body if t else e.orelse, k, m)
            t = rtext(e, {})
            if t in ("keep", "bool(keep)"):
                return k
            if t in MATCH:
                return m
            if isinstance(e, ast.Constant) and isinstance(e.value, bool):
                return e.value
            return None
        rows = {(k, m): beval(sel, k, m) for k in (False, True) for m in (False, True)}
        if None in rows.values():
            raise AnalysisError(R, f"filter_terms: selection condition `{norm(sel)[:100]}` not understood")
        ok = all(v == (k == m) for (k, m), v in rows.items())
        rep.check(ok, R, "number_ordered_form::NumberOrderedForm.filter_terms keeps a term iff (it matches some condition) == keep",
                  f"(keep, matches) -> selected: {rows}; so filter_terms(c, True) + filter_terms(c, False) is the whole form", repo.loc("number_ordered_form", ft))
