"""A tiny evaluator of guard expressions over *representative abstract values*.

Used where a validator only compares / type-tests its argument (finite set of
relevant classes): each class is represented by one value, the guard expression's
syntax tree is interpreted on it (never ``eval``-ed), and anything outside the
understood expression forms stops the analysis (AnalysisError -> exit 2).
"""

from __future__ import annotations

import ast

from .core import AnalysisError, call_name, norm

UNKNOWN = object()

TYPES = {"int": int, "slice": slice, "list": list, "tuple": tuple, "bool": bool, "float": float,
         "str": str, "dict": dict}


HELPERS: dict = {}  # name -> FunctionDef of module-level predicates a validator may call (set by the rule that runs it)


class Interp:
    def __init__(self, env: dict, rule: str):
        self.env = dict(env)
        self.rule = rule

    def ev(self, e: ast.AST):
        m = getattr(self, "ev_" + type(e).__name__, None)
        if m is None:
            raise AnalysisError(self.rule, f"guard expression form not understood: `{norm(e)}`")
        return m(e)

    def ev_Constant(self, e):
        return e.value

    def ev_Name(self, e):
        if e.id in self.env:
            return self.env[e.id]
        raise AnalysisError(self.rule, f"free name `{e.id}` in guard expression")

    def ev_Attribute(self, e):
        v = self.ev(e.value)
        if isinstance(v, slice) and e.attr in ("start", "stop", "step"):
            return getattr(v, e.attr)
        raise AnalysisError(self.rule, f"attribute `{norm(e)}` not understood")

    def ev_UnaryOp(self, e):
        v = self.ev(e.operand)
        if isinstance(e.op, ast.Not):
            return not v
        if isinstance(e.op, ast.USub):
            return -v
        raise AnalysisError(self.rule, f"unary op in `{norm(e)}`")

    def ev_BoolOp(self, e):
        if isinstance(e.op, ast.And):
            r = True
            for v in e.values:
                r = self.ev(v)
                if not r:
                    return r
            return r
        r = False
        for v in e.values:
            r = self.ev(v)
            if r:
                return r
        return r

    def ev_Compare(self, e):
        left = self.ev(e.left)
        for op, c in zip(e.ops, e.comparators):
            right = self.ev(c)
            try:
                ok = {
                    ast.Lt: lambda a, b: a < b, ast.LtE: lambda a, b: a <= b,
                    ast.Gt: lambda a, b: a > b, ast.GtE: lambda a, b: a >= b,
                    ast.Eq: lambda a, b: a == b, ast.NotEq: lambda a, b: a != b,
                    ast.Is: lambda a, b: a is b, ast.IsNot: lambda a, b: a is not b,
                    ast.In: lambda a, b: a in b, ast.NotIn: lambda a, b: a not in b,
                }[type(op)](left, right)
            except TypeError:
                # the real code would raise TypeError here: report as a distinct outcome
                raise GuardTypeError(norm(e))
            if not ok:
                return False
            left = right
        return True

    def ev_Call(self, e):
        name = call_name(e)
        if name == "isinstance" and len(e.args) == 2:
            v = self.ev(e.args[0])
            t = e.args[1]
            names = [norm(x) for x in t.elts] if isinstance(t, ast.Tuple) else [norm(t)]
            if isinstance(t, ast.BinOp):  # int | list
                names = [norm(x) for x in _union(t)]
            for n in names:
                n = n.split(".")[-1]
                if n in ("integer", "Integral"):
                    n = "int"
                if n not in TYPES:
                    raise AnalysisError(self.rule, f"isinstance against unknown type `{n}`")
                if isinstance(v, TYPES[n]) and not (n == "int" and isinstance(v, bool)):
                    return True
            return False
        if name in ("any", "all") and len(e.args) == 1 and isinstance(e.args[0], (ast.GeneratorExp, ast.ListComp)):
            g = e.args[0]
            if len(g.generators) != 1 or not isinstance(g.generators[0].target, ast.Name):
                raise AnalysisError(self.rule, f"comprehension form in `{norm(e)}`")
            gen = g.generators[0]
            seq = self.ev(gen.iter)
            res = []
            for item in seq:
                sub = Interp({**self.env, gen.target.id: item}, self.rule)
                if all(sub.ev(c) for c in gen.ifs):
                    res.append(sub.ev(g.elt))
            return any(res) if name == "any" else all(res)
        if name in ("min", "max", "np.min", "np.max", "np.amin", "np.amax") and len(e.args) >= 1:
            v = self.ev(e.args[0])
            kw = {k.arg: self.ev(k.value) for k in e.keywords}
            vals = list(v) if isinstance(v, (list, tuple)) else [v]
            if "initial" in kw:
                vals.append(kw["initial"])
            if "default" in kw and not vals:
                return kw["default"]
            return (min if "min" in name else max)(vals)
        if name == "len" and len(e.args) == 1:
            return len(self.ev(e.args[0]))
        if isinstance(e.func, ast.Attribute) and e.func.attr == "indices" and len(e.args) == 1 and not e.keywords:
            v = self.ev(e.func.value)
            if isinstance(v, slice):
                try:
                    return v.indices(self.ev(e.args[0]))
                except (TypeError, ValueError):
                    raise GuardTypeError(norm(e))
        if name == "range" and 1 <= len(e.args) <= 3 and not e.keywords:
            return range(*[self.ev(a) for a in e.args])
        if name in HELPERS and not e.keywords:
            fn = HELPERS[name]
            params = [a.arg for a in fn.args.args]
            if len(params) == len(e.args) and not fn.args.vararg and not fn.args.kwarg:
                r = run_validator(fn.body, dict(zip(params, [self.ev(a) for a in e.args])), self.rule)
                if r[0] == "return":
                    return r[1]
                if r[0] == "fall":
                    return None
                raise AnalysisError(self.rule, f"helper `{name}` ends with {r[0]} when called from a guard")
        raise AnalysisError(self.rule, f"call `{norm(e)}` not understood in a guard")

    def ev_BinOp(self, e):
        a, b = self.ev(e.left), self.ev(e.right)
        ops = {ast.Add: lambda x, y: x + y, ast.Sub: lambda x, y: x - y, ast.Mult: lambda x, y: x * y, ast.FloorDiv: lambda x, y: x // y,
               ast.Mod: lambda x, y: x % y}
        if type(e.op) not in ops:
            raise AnalysisError(self.rule, f"operator in `{norm(e)}` not understood in a guard")
        try:
            return ops[type(e.op)](a, b)
        except (TypeError, ZeroDivisionError):
            raise GuardTypeError(norm(e))

    def ev_Subscript(self, e):
        v, i = self.ev(e.value), self.ev(e.slice)
        try:
            return v[i]
        except (TypeError, IndexError, KeyError):
            raise GuardTypeError(norm(e))

    def ev_IfExp(self, e):
        return self.ev(e.body) if self.ev(e.test) else self.ev(e.orelse)

    def ev_Tuple(self, e):
        return tuple(self.ev(x) for x in e.elts)

    def ev_List(self, e):
        return [self.ev(x) for x in e.elts]


class GuardTypeError(Exception):
    pass


def _union(t):
    if isinstance(t, ast.BinOp) and isinstance(t.op, ast.BitOr):
        return _union(t.left) + _union(t.right)
    return [t]


def run_validator(stmts: list[ast.stmt], env: dict, rule: str, depth: int = 0):
    """Interpret a validator body (if / for / raise / return / continue / pass) on
    representative values.  Returns ('raise', ExcName) | ('return', None) | ('fall', None)."""
    it = Interp(env, rule)
    for s in stmts:
        if isinstance(s, ast.Expr) and isinstance(s.value, ast.Constant):
            continue
        if isinstance(s, ast.Pass):
            continue
        if isinstance(s, ast.If):
            branch = s.body if it.ev(s.test) else s.orelse
            r = run_validator(branch, it.env, rule, depth + 1)
            if r[0] != "fall":
                return r
            continue
        if isinstance(s, ast.For):
            if not isinstance(s.target, ast.Name):
                raise AnalysisError(rule, f"loop target `{norm(s.target)}`")
            for item in it.ev(s.iter):
                r = run_validator(s.body, {**it.env, s.target.id: item}, rule, depth + 1)
                if r[0] == "continue":
                    continue
                if r[0] == "break":
                    break
                if r[0] != "fall":
                    return r
            continue
        if isinstance(s, ast.Raise):
            exc = s.exc.func if isinstance(s.exc, ast.Call) else s.exc
            return ("raise", norm(exc))
        if isinstance(s, ast.Return):
            return ("return", it.ev(s.value) if s.value is not None else None)
        if isinstance(s, ast.Continue):
            return ("continue", None)
        if isinstance(s, ast.Break):
            return ("break", None)
        if isinstance(s, ast.Assign) and len(s.targets) == 1 and isinstance(s.targets[0], ast.Name):
            it.env[s.targets[0].id] = it.ev(s.value)
            continue
        if isinstance(s, ast.Assign) and len(s.targets) == 1 and isinstance(s.targets[0], ast.Tuple) \
                and all(isinstance(t, ast.Name) for t in s.targets[0].elts):
            vals = it.ev(s.value)
            if not isinstance(vals, (tuple, list)) or len(vals) != len(s.targets[0].elts):
                raise AnalysisError(rule, f"unpacking `{norm(s)[:60]}` in a validator")
            for t, v in zip(s.targets[0].elts, vals):
                it.env[t.id] = v
            continue
        raise AnalysisError(rule, f"validator statement not understood: `{norm(s)[:60]}`")
    return ("fall", None)
