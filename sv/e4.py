"""E4 -- freshness / in-place-mutation analysis (C10, C11) and closure-state inventory (T7).

Intraprocedural, flow-sensitive over statement lists, lattice {FRESH, ALIAS}
(ALIAS = may share storage with a caller-owned value, a cached series element or
a value already returned).  A *sink* is a construct that mutates its target in
place; a sink whose target may be ALIAS is a violation unless the target is a
parameter (then the function gets a "mutates parameter" summary and every call
site must pass a FRESH argument) or a listed, reasoned exemption.
"""

from __future__ import annotations

import ast

from .core import AnalysisError, Repo, Report, call_name, dotted, nested_defs, norm, own_nodes

RULE = "E4"
FRESH, ALIAS = "FRESH", "ALIAS"
MODS = ("series", "algorithm_parsing", "block_diagonalization", "linalg", "kpm", "second_quantization")

MUTATING_METHODS = {
    "sort", "fill", "resize", "put", "itemset", "update", "pop", "popitem", "clear", "append", "extend",
    "insert", "remove", "setdefault", "add", "discard", "eliminate_zeros", "setdiag", "sum_duplicates",
    "sort_indices", "prune", "setflags", "partition", "byteswap",
}
MUTATING_FUNCS = {"np.copyto": 0, "np.fill_diagonal": 0, "np.put": 0, "np.place": 0, "np.putmask": 0}
# calls whose result may share storage with an argument / receiver
VIEW_FUNCS = {"np.asarray", "np.asanyarray", "np.atleast_1d", "np.atleast_2d", "np.squeeze", "np.ravel", "np.transpose",
              "np.reshape", "np.real", "np.imag", "np.broadcast_to", "aslinearoperator", "scipy_aslinearoperator",
              "_convert_if_zero", "_zero_sum", "_safe_divide", "getattr", "next", "iter", "zip", "enumerate", "reversed",
              "sparse.csr_array", "sparse.csc_array", "sparse.coo_array", "sparse.csr_matrix", "sparse.csc_matrix",
              "sparse.dia_array", "_unpack_blocks", "_to_scalar_BlockSeries", "operator_to_BlockSeries", "diag", "offdiag",
              "map", "filter"}
VIEW_METHODS = {"reshape", "view", "ravel", "squeeze", "transpose", "swapaxes", "get", "pop", "setdefault", "tocsr", "tocsc",
                "tocoo", "asformat", "values", "items", "keys", "__getitem__", "filled", "diagonal", "conj", "conjugate"}
VIEW_ATTRS = {"T", "real", "imag", "flat", "data", "H", "base", "_data", "_vecs", "_left_vecs"}
MODULE_ALIASES = {"np", "numpy", "sparse", "sympy", "ma", "scipy", "ast", "warnings", "second_quantization", "sparse.linalg",
                  "np.linalg", "sparse.csgraph"}
# module-level names that denote immutable sentinels / constants
IMMUTABLE_GLOBALS = {"zero", "one", "PENDING", "Zero", "One", "None", "True", "False"}

# (module, function qualname, target text) -> reason.  One named symbol each.
EXEMPT = {
    ("kpm", "greens_function", "num_moments"): "Python int (rebinding)",
    ("second_quantization", "solve_scalar", "result"): "NumberOrderedForm is an immutable sympy object: `-=` rebinds",
    ("algorithm_parsing", "_preprocess_series", "series.uses"): "compile-time IR of the DSL (private _Series record created two lines above)",
    ("algorithm_parsing", "_find_delete_candidates", "remaining_indices"): "local set literal (compile time)",
    ("algorithm_parsing", "_EvalTransformer._visit_Line", "node.body[0]"): "compile-time rewriting of the DSL's own syntax tree",
    ("algorithm_parsing", "_EvalTransformer._visit_Line", "nodes[0].body"): "compile-time rewriting of the DSL's own syntax tree",
    ("algorithm_parsing", "_UseCounter.visit_Attribute", "self.uses"): "visitor-local accumulator",
    ("algorithm_parsing", "_UseCounter.visit_Constant", "self.uses"): "visitor-local accumulator",
    ("series", "_log_call.wrapped", "type(args[0]).log"): "AlgebraElement test instrumentation (class-level call log), not a series value",
    ("block_diagonalization", "_sympy_to_BlockSeries.derivative_eval", "previous_index[symbol_number]"): "list(index) copy of the index tuple",
}

# closures that write captured state: (module, closure, binding of the captured name in the enclosing function, kind of
# write) -> reason (T7).  The captured variable is identified by how the enclosing function binds it, not by its name.
CLOSURE_STATE = {
    ("block_diagonalization", "solve_sylvester_diagonal.solve_sylvester", "set()", "method .add()"):
        "monotone memo of block pairs that PASSED the shared-eigenvalue check; added only after the check (E7.shared)",
    ("second_quantization", "solve_sylvester_2nd_quant.solve_sylvester", "<parameter>", "item store"):
        "idempotent fill-in of an empty block's eigenvalue list with zeros, on a package-owned tuple of lists",
    ("algorithm_parsing", "series_computation.del_", "<parameter>", "method .pop()"):
        "deletion of recomputable intermediate terms via BlockSeries.pop (values are pure functions of the input)",
    ("algorithm_parsing", "series_computation.del_", "{_v0: linear_operator_wrapped(_v1) for _v0, _v1 in series.items()}", "method .pop()"):
        "deletion of recomputable intermediate terms via BlockSeries.pop",
}


def _element_deletion(fa, kind: str, txt: str):
    """`<table>[name].pop(index, ...)` inside series_computation's deletion callback: removal of a recomputable element from a series
    of one of the series tables (whether deleting is safe is decided by E9.deletion and E3/T2b, not here).  Recognised by its shape
    -- pop on an ELEMENT of a table -- not by how the table was built."""
    if (fa.mod, fa.q) == ("algorithm_parsing", "series_computation.del_") and kind == "method .pop()" and txt.endswith("]") and "[" in txt:
        return "deletion of recomputable intermediate terms via BlockSeries.pop on an element of a series table"
    return None


def captured_binding(func, name: str) -> str:
    """How the nearest enclosing function binds `name`: '<parameter>', the text of its single assignment, or '<other>'."""
    from .resolve import rtext
    p = getattr(func, "_parent", None)
    while p is not None:
        if isinstance(p, ast.FunctionDef):
            a = p.args
            if name in {x.arg for x in [*a.posonlyargs, *a.args, *a.kwonlyargs]}:
                return "<parameter>"
            vals = [n for n in own_nodes(p) if (isinstance(n, ast.Assign) and any(isinstance(t, ast.Name) and t.id == name for t in n.targets))
                    or (isinstance(n, ast.AnnAssign) and n.value is not None and isinstance(n.target, ast.Name) and n.target.id == name)]
            if len(vals) == 1:
                return rtext(vals[0].value, {})
            if vals:
                return "<other>"
        p = getattr(p, "_parent", None)
    return "<other>"


def qualname(func) -> str:
    parts = []
    p = func
    while p is not None:
        if isinstance(p, (ast.FunctionDef, ast.ClassDef)):
            parts.append(p.name)
        elif isinstance(p, ast.Lambda):
            parts.append("<lambda>")
        p = getattr(p, "_parent", None)
    return ".".join(reversed(parts))


def base_name(node: ast.AST):
    """Root Name of a target like a.b[c].d -> ('a', text)."""
    cur = node
    while True:
        if isinstance(cur, (ast.Attribute, ast.Subscript, ast.Starred)):
            cur = cur.value
        elif isinstance(cur, ast.Call) and call_name(cur) in VIEW_FUNCS and cur.args:
            cur = cur.args[0]  # a view / conversion that may share its argument's buffer
        else:
            break
    if isinstance(cur, ast.Name):
        return cur.id
    return None


class FuncAnalysis:
    def __init__(self, mod: str, func: ast.FunctionDef, outer_env: dict | None, analyser: "Analyser"):
        self.mod, self.func, self.an = mod, func, analyser
        self.q = qualname(func)
        a = func.args
        self.params = [x.arg for x in [*a.posonlyargs, *a.args, *a.kwonlyargs]]
        if a.vararg:
            self.params.append(a.vararg.arg)
        if a.kwarg:
            self.params.append(a.kwarg.arg)
        self.env = dict(outer_env or {})
        self.captured = set(self.env)
        self.locals = set()
        for p in self.params:
            self.env[p] = ALIAS
            self.locals.add(p)
        self.elem = {}  # name -> status of the elements of a freshly built container
        self.sinks = []  # (node, target_text, base, status, kind)
        self.param_mutations = set()
        self.nested = []
        self._collect_locals(func)
        self.block(func.body)

    def _collect_locals(self, func):
        for n in own_nodes(func):
            if isinstance(n, (ast.Assign, ast.AugAssign, ast.AnnAssign, ast.For, ast.NamedExpr, ast.With, ast.comprehension)):
                tgts = []
                if isinstance(n, ast.Assign):
                    tgts = n.targets
                elif isinstance(n, (ast.AugAssign, ast.AnnAssign, ast.NamedExpr, ast.For, ast.comprehension)):
                    tgts = [n.target]
                for t in tgts:
                    for x in ast.walk(t):
                        if isinstance(x, ast.Name) and isinstance(x.ctx, ast.Store):
                            self.locals.add(x.id)
            if isinstance(n, (ast.FunctionDef, ast.ClassDef)):
                self.locals.add(n.name)

    # -- expression status -----------------------------------------------------------
    def status(self, e: ast.AST, env) -> str:
        if e is None or isinstance(e, ast.Constant):
            return FRESH
        if isinstance(e, (ast.List, ast.Dict, ast.Set, ast.ListComp, ast.DictComp, ast.SetComp, ast.GeneratorExp, ast.JoinedStr)):
            return FRESH
        if isinstance(e, ast.Tuple):
            return ALIAS if any(self.status(x, env) == ALIAS for x in e.elts) else FRESH
        if isinstance(e, ast.Name):
            if e.id in env:
                return env[e.id]
            if e.id in IMMUTABLE_GLOBALS:
                return FRESH
            return ALIAS  # captured / global of unknown provenance
        if isinstance(e, ast.NamedExpr):
            return self.status(e.value, env)
        if isinstance(e, ast.IfExp):
            return ALIAS if ALIAS in (self.status(e.body, env), self.status(e.orelse, env)) else FRESH
        if isinstance(e, ast.BoolOp):
            return ALIAS if any(self.status(v, env) == ALIAS for v in e.values) else FRESH
        if isinstance(e, ast.BinOp):
            if isinstance(e.op, (ast.Add, ast.Sub)):
                # `zero + x` returns x itself: the result may alias an operand if the other may be the sentinel
                l, r = self.status(e.left, env), self.status(e.right, env)
                if self._may_be_zero(e.left, env) and r == ALIAS:
                    return ALIAS
                if self._may_be_zero(e.right, env) and l == ALIAS and isinstance(e.op, ast.Add):
                    return ALIAS
                return FRESH
            return FRESH
        if isinstance(e, ast.UnaryOp):
            return FRESH
        if isinstance(e, ast.Compare):
            return FRESH
        if isinstance(e, ast.Starred):
            return self.status(e.value, env)
        if isinstance(e, ast.Attribute):
            if e.attr in ("shape", "dtype", "size", "ndim", "n_infinite", "name", "rows", "cols", "nnz"):
                return FRESH
            return self.status(e.value, env)
        if isinstance(e, ast.Subscript):
            if isinstance(e.value, ast.Name) and e.value.id in self.elem and env.get(e.value.id) == FRESH:
                return self.elem[e.value.id]
            return self.status(e.value, env)
        if isinstance(e, ast.Call):
            name = call_name(e) or ""
            if isinstance(e.func, ast.Attribute):
                m = e.func.attr
                if m in ("copy", "toarray", "todense", "astype", "tolist", "__deepcopy__", "multiply", "multiply_elementwise",
                         "applyfunc", "subs", "xreplace", "expand", "simplify", "adjoint", "dot", "sum", "any", "all", "diff"):
                    if m == "astype" and any(k.arg == "copy" for k in e.keywords):
                        return self.status(e.func.value, env)
                    return FRESH
                if m in VIEW_METHODS:
                    if m == "tocoo" and not any(k.arg == "copy" and norm(k.value) == "False" for k in e.keywords):
                        return FRESH
                    return self.status(e.func.value, env)
            if name in VIEW_FUNCS:
                return ALIAS if any(self.status(a, env) == ALIAS for a in e.args) else FRESH
            if name in ("np.array",) and any(k.arg == "copy" and norm(k.value) == "False" for k in e.keywords):
                return self.status(e.args[0], env) if e.args else FRESH
            return FRESH
        if isinstance(e, ast.Lambda):
            return FRESH
        return ALIAS

    def origins(self, name: str, depth=0) -> set:
        """Parameters (or '<other>') a local name may alias, flow-insensitively."""
        if name in self.params:
            return {name}
        if depth > 4 or name not in self.locals:
            return {"<other>"}
        out = set()
        for n in own_nodes(self.func):
            srcs = []
            if isinstance(n, ast.Assign) and any(
                    isinstance(x, ast.Name) and x.id == name and isinstance(x.ctx, ast.Store) for t in n.targets for x in ast.walk(t)):
                srcs.append(n.value)
            if isinstance(n, (ast.For, ast.comprehension)) and any(isinstance(x, ast.Name) and x.id == name for x in ast.walk(n.target)):
                srcs.append(n.iter)
            if isinstance(n, ast.NamedExpr) and n.target.id == name:
                srcs.append(n.value)
            for v in srcs:
                for x in ast.walk(v):
                    if isinstance(x, ast.Name) and isinstance(x.ctx, ast.Load) and x.id != name:
                        par = getattr(x, "_parent", None)
                        if isinstance(par, ast.Attribute) and par.attr in ("shape", "dtype", "size", "ndim", "n_infinite", "name", "nnz"):
                            continue  # metadata of x, not x
                        if x.id in self.params:
                            out.add(x.id)
                        elif x.id in self.locals:
                            if self.env.get(x.id) == ALIAS:
                                out |= self.origins(x.id, depth + 1)
                        elif x.id not in IMMUTABLE_GLOBALS and x.id not in MODULE_ALIASES and self.env.get(x.id, ALIAS) == ALIAS \
                                and not (isinstance(getattr(x, "_parent", None), ast.Call) and x._parent.func is x):
                            out.add("<other>")
        return out

    def _may_be_zero(self, e, env) -> bool:
        if isinstance(e, ast.Name):
            if e.id == "zero":
                return True
            return e.id in self.zero_init
        return False

    # -- statements ----------------------------------------------------------------------
    @property
    def zero_init(self):
        if not hasattr(self, "_zi"):
            self._zi = set()
            for n in own_nodes(self.func):
                if isinstance(n, ast.Assign) and isinstance(n.value, ast.Name) and n.value.id == "zero":
                    for t in n.targets:
                        if isinstance(t, ast.Name):
                            self._zi.add(t.id)
        return self._zi

    def elem_status(self, e, env):
        """Status of the elements held by a container expression."""
        if isinstance(e, (ast.List, ast.Tuple, ast.Set)):
            return ALIAS if any(self.status(x.value if isinstance(x, ast.Starred) else x, env) == ALIAS for x in e.elts) else FRESH
        if isinstance(e, (ast.ListComp, ast.SetComp, ast.GeneratorExp)):
            env2 = dict(env)
            for g in e.generators:
                self.bind(g.target, self.elem_status(g.iter, env2), env2)
            return self.status(e.elt, env2)
        if isinstance(e, ast.Name) and e.id in self.elem and env.get(e.id) == FRESH:
            return self.elem[e.id]
        if isinstance(e, ast.Call) and call_name(e) in ("zip", "enumerate", "reversed", "list", "tuple", "sorted"):
            return ALIAS if any(self.elem_status(a, env) == ALIAS for a in e.args) else FRESH
        return self.status(e, env)

    def bind(self, target, st, env):
        if isinstance(target, ast.Name):
            env[target.id] = st
        elif isinstance(target, (ast.Tuple, ast.List)):
            for t in target.elts:
                self.bind(t, st, env)
        elif isinstance(target, ast.Starred):
            self.bind(target.value, st, env)

    def _loop_alias(self, name):
        """`for name in (a, b, ...)` over a display of names in this function -> [a, b, ...] (the objects `name` stands for)"""
        loops = [n for n in own_nodes(self.func) if isinstance(n, ast.For) and isinstance(n.target, ast.Name) and n.target.id == name]
        others = [n for n in own_nodes(self.func) if isinstance(n, (ast.Assign, ast.AugAssign, ast.AnnAssign))
                  and any(isinstance(t, ast.Name) and t.id == name for t in (n.targets if isinstance(n, ast.Assign) else [n.target]))]
        if len(loops) == 1 and not others and isinstance(loops[0].iter, (ast.Tuple, ast.List)) and loops[0].iter.elts \
                and all(isinstance(e, ast.Name) for e in loops[0].iter.elts):
            return [e.id for e in loops[0].iter.elts]
        return None

    def sink(self, node, target, kind, env, _expanded=False):
        b = base_name(target)
        if b is not None and not _expanded:
            alias = self._loop_alias(b)
            if alias:
                from .resolve import resolved as _rs
                for real in alias:
                    self.sink(node, _rs(target, {b: ast.Name(id=real, ctx=ast.Load())}), kind, env, _expanded=True)
                return
        txt = norm(target)
        if b is None:
            st = self.status(target, env)
        else:
            st = env.get(b, FRESH if b in IMMUTABLE_GLOBALS else ALIAS) if (b in env or b not in self.locals) else FRESH
            if b in self.locals and b not in env:
                st = FRESH
        if b is not None and st == ALIAS and b not in self.params:
            org = self.origins(b)
            if org and org <= set(self.params) - self.captured:
                for extra_b in sorted(org)[1:]:
                    self.sinks.append((node, txt, extra_b, st, kind))
                b = sorted(org)[0]
        self.sinks.append((node, txt, b, st, kind))

    def expr_sinks(self, e, env):
        for n in ast.walk(e):
            if isinstance(n, (ast.Lambda,)):
                continue
            if isinstance(n, ast.Call):
                if isinstance(n.func, ast.Attribute) and n.func.attr in MUTATING_METHODS \
                        and norm(n.func.value) not in MODULE_ALIASES:
                    self.sink(n, n.func.value, f"method .{n.func.attr}()", env)
                nm = call_name(n)
                if nm in MUTATING_FUNCS and n.args:
                    self.sink(n, n.args[MUTATING_FUNCS[nm]], f"{nm}()", env)
                for k in n.keywords:
                    if k.arg == "out":
                        self.sink(n, k.value, "out=", env)
                    if k.arg and k.arg.startswith("overwrite") and norm(k.value) == "True" and n.args:
                        self.sink(n, n.args[0], f"{k.arg}=True", env)
                # call of a package function that mutates a parameter
                self.an.record_call(self, n, env)

    def block(self, stmts, env=None):
        env = self.env if env is None else env
        for s in stmts:
            if isinstance(s, (ast.FunctionDef, ast.AsyncFunctionDef)):
                self.nested.append((s, dict(env)))
                env[s.name] = FRESH
                continue
            if isinstance(s, ast.ClassDef):
                continue
            if isinstance(s, ast.Assign):
                self.expr_sinks(s.value, env)
                st = self.status(s.value, env)
                for t in s.targets:
                    if isinstance(t, (ast.Subscript,)):
                        self.sink(s, t.value, "item store", env)
                    elif isinstance(t, ast.Attribute):
                        self.sink(s, t.value, f"attribute store .{t.attr}", env)
                    elif isinstance(t, (ast.Tuple, ast.List)):
                        for el in t.elts:
                            if isinstance(el, ast.Subscript):
                                self.sink(s, el.value, "item store", env)
                            elif isinstance(el, ast.Attribute):
                                self.sink(s, el.value, f"attribute store .{el.attr}", env)
                        if isinstance(s.value, (ast.Tuple, ast.List)) and len(s.value.elts) == len(t.elts):
                            for el, v in zip(t.elts, s.value.elts):
                                self.bind(el, self.status(v, env), env)
                        else:
                            self.bind(t, st, env)
                    else:
                        self.bind(t, st, env)
                        if isinstance(t, ast.Name):
                            if isinstance(s.value, (ast.List, ast.Tuple, ast.Set, ast.ListComp, ast.SetComp, ast.GeneratorExp)):
                                self.elem[t.id] = self.elem_status(s.value, env)
                            else:
                                self.elem.pop(t.id, None)
                continue
            if isinstance(s, ast.AugAssign):
                self.expr_sinks(s.value, env)
                self.sink(s, s.target, f"augmented assignment {type(s.op).__name__}", env)
                # `x += y` with x possibly the `zero` sentinel rebinds x to y itself (Zero.__add__ returns other)
                if isinstance(s.target, ast.Name) and self._may_be_zero(s.target, env) and isinstance(s.op, (ast.Add, ast.Sub)) \
                        and self.status(s.value, env) == ALIAS:
                    env[s.target.id] = ALIAS
                continue
            if isinstance(s, ast.AnnAssign):
                if s.value is not None:
                    self.expr_sinks(s.value, env)
                    self.bind(s.target, self.status(s.value, env), env)
                continue
            if isinstance(s, ast.Delete):
                for t in s.targets:
                    if isinstance(t, ast.Subscript):
                        self.sink(s, t.value, "del item", env)
                continue
            if isinstance(s, ast.If):
                self.expr_sinks(s.test, env)
                self._walrus(s.test, env)
                e1, e2 = dict(env), dict(env)
                self.block(s.body, e1)
                self.block(s.orelse, e2)
                self._join(env, e1, e2)
                continue
            if isinstance(s, (ast.For, ast.AsyncFor)):
                self.expr_sinks(s.iter, env)
                self.bind(s.target, self.elem_status(s.iter, env) if not isinstance(s.iter, ast.Call) or call_name(s.iter) in VIEW_FUNCS
                          or call_name(s.iter) in ("zip", "enumerate", "reversed", "list", "tuple", "sorted") or
                          (isinstance(s.iter.func, ast.Attribute) and s.iter.func.attr in VIEW_METHODS) else
                          (ALIAS if any(self.status(a, env) == ALIAS for a in s.iter.args) else FRESH), env)
                e1 = dict(env)
                self.block(s.body, e1)
                self.block(s.body, e1)  # second pass: loop-carried statuses
                self._join(env, env, e1)
                self.block(s.orelse, env)
                continue
            if isinstance(s, ast.While):
                self.expr_sinks(s.test, env)
                e1 = dict(env)
                self.block(s.body, e1)
                self.block(s.body, e1)
                self._join(env, env, e1)
                continue
            if isinstance(s, (ast.With, ast.AsyncWith)):
                for it in s.items:
                    self.expr_sinks(it.context_expr, env)
                    if it.optional_vars is not None:
                        self.bind(it.optional_vars, FRESH, env)
                self.block(s.body, env)
                continue
            if isinstance(s, ast.Try):
                self.block(s.body, env)
                for h in s.handlers:
                    eh = dict(env)
                    self.block(h.body, eh)
                    self._join(env, env, eh)
                self.block(s.orelse, env)
                self.block(s.finalbody, env)
                continue
            if isinstance(s, ast.Match):
                self.expr_sinks(s.subject, env)
                outs = []
                for c in s.cases:
                    ec = dict(env)
                    self.block(c.body, ec)
                    outs.append(ec)
                for ec in outs:
                    self._join(env, env, ec)
                continue
            if isinstance(s, (ast.Expr, ast.Return, ast.Raise, ast.Assert)):
                for child in ast.iter_child_nodes(s):
                    if isinstance(child, ast.expr):
                        self.expr_sinks(child, env)
                        self._walrus(child, env)
                continue

    def _walrus(self, e, env):
        for n in ast.walk(e):
            if isinstance(n, ast.NamedExpr):
                env[n.target.id] = self.status(n.value, env)

    @staticmethod
    def _join(env, a, b):
        for k in set(a) | set(b):
            sa, sb = a.get(k), b.get(k)
            if sa is None or sb is None:
                env[k] = sa or sb
            else:
                env[k] = ALIAS if ALIAS in (sa, sb) else FRESH


class Analyser:
    def __init__(self, repo: Repo):
        self.repo = repo
        self.funcs: list[FuncAnalysis] = []
        self.calls = []  # (caller FuncAnalysis, call node, env snapshot)
        self.by_name = {}
        for mod in MODS:
            tree = repo.trees[mod]
            for top in tree.body:
                if isinstance(top, ast.FunctionDef):
                    self._analyse(mod, top, None)
                elif isinstance(top, ast.ClassDef):
                    for m in top.body:
                        if isinstance(m, ast.FunctionDef):
                            self._analyse(mod, m, None)

    def _analyse(self, mod, func, outer_env):
        fa = FuncAnalysis(mod, func, outer_env, self)
        self.funcs.append(fa)
        self.by_name.setdefault(func.name, []).append(fa)
        for nested, env in fa.nested:
            # late binding: names re-assigned later in the enclosing function with an ALIAS value
            env2 = dict(env)
            for k, v in fa.env.items():
                if k in env2 and v == ALIAS:
                    env2[k] = ALIAS
                elif k not in env2:
                    env2[k] = v
            self._analyse(mod, nested, env2)

    def record_call(self, caller: FuncAnalysis, call: ast.Call, env):
        self.calls.append((caller, call, dict(env)))


def rule_no_inplace_mutation(rep: Report, repo: Repo, modules=None):
    """`modules`: report only on functions of these modules (the analysis itself is always package-wide)."""
    an = Analyser(repo)
    n_sinks = 0
    summaries = {}  # func name -> set(param index)
    for fa in an.funcs:
        if modules is not None and fa.mod not in modules:
            continue
        for node, txt, base, st, kind in fa.sinks:
            n_sinks += 1
            where = repo.loc(fa.mod, node)
            inst = f"{fa.mod}::{fa.q} {kind} on `{txt}`"
            if (fa.mod, fa.q, txt) in EXEMPT:
                rep.ok(RULE, inst + " (exempt)", EXEMPT[(fa.mod, fa.q, txt)], where)
                continue
            if base is not None and (fa.mod, fa.q, captured_binding(fa.func, base), kind) in CLOSURE_STATE:
                rep.ok(RULE, inst + " (listed closure state)", CLOSURE_STATE[(fa.mod, fa.q, captured_binding(fa.func, base), kind)], where)
                continue
            if base is not None and _element_deletion(fa, kind, txt):
                rep.ok(RULE, inst + " (listed closure state)", _element_deletion(fa, kind, txt), where)
                continue
            if st == FRESH:
                rep.ok(RULE, inst + " mutates a value created in this function", "target is FRESH on every path", where)
                continue
            # metadata writes on series objects (.eval / .name) are outside C10's statement
            if kind.startswith("attribute store") and kind.split(".")[-1] in ("eval", "name", "_adjoint_operator",
                                                                               "_conjugate_operator", "_transpose_operator",
                                                                               "test", "body", "args", "definition", "start",
                                                                               "terms", "hermitian", "uses"):
                rep.ok(RULE, inst + " (metadata / cache attribute, not element data)", "", where)
                if kind.endswith(".name") and base in fa.params:
                    rep.note(f"observation: {fa.mod}::{fa.q} rebinds `.name` on a possibly caller-owned series ({where})")
                continue
            if base in fa.params and base not in fa.captured:
                if fa.q.startswith("BlockSeries.") or base == "self":
                    rep.ok(RULE, inst + " (method mutating its own object; the memo's owner is checked by E3/T5)", "", where)
                    continue
                idx = fa.params.index(base)
                summaries.setdefault((fa.mod, fa.func.name), set()).add((idx, base))
                rep.ok(RULE, inst + f" mutates parameter `{base}` (summary recorded; call sites checked)", "", where)
                continue
            if fa.q.split(".")[0] in ("BlockSeries",) and base in ("self", "data") and fa.func.name in ("__init__", "__getitem__", "pop"):
                rep.ok(RULE, inst + " (the memo's owner, see E3/T5)", "", where)
                continue
            if base == "self" and fa.func.name == "__init__":
                rep.ok(RULE, inst + " (object under construction)", "", where)
                continue
            if (base in fa.captured or (base is not None and base not in fa.locals)) and kind == "item store" and _is_memo_store(fa.func, base, node):
                rep.ok(RULE, inst + f" fills the memo table `{base}` (written once per key; the key is decided by E4.memo_key)", "", where)
                continue
            if base in fa.captured or (base is not None and base not in fa.locals):
                rep.fail(RULE, f"{fa.mod}::{fa.q} {kind} on `{txt}` writes captured/shared state `{base}` that is not in the closure-state table",
                         "a closure that mutates state shared between evaluations makes results depend on the request history; "
                         "list it with a reason in sv/e4.py:CLOSURE_STATE only if it is idempotent/monotone", where)
                continue
            rep.fail(RULE, f"{fa.mod}::{fa.q} {kind} on `{txt}` may mutate caller-owned or cached data in place",
                     f"`{base}` may alias an input, a cached series element or a returned value on some path "
                     "(use a non-mutating form or copy first)", where)
    rep.floor(RULE, "in-place-mutation sinks inspected", n_sinks, 40 if modules is None else 3)
    rep.count("E4.sinks", n_sinks)
    # call sites of parameter-mutating functions must pass FRESH
    n_calls = 0
    propagated, extra_summaries = set(), {}

    site_count, via = {}, {}

    def check_sites(mod, fname, plist):
        nonlocal n_calls
        site_count.setdefault((mod, fname), 0)
        for caller, call, env in an.calls:
            cn = call_name(call) or ""
            if not (cn == fname or (cn.endswith("." + fname) and cn.rsplit(".", 1)[0] in MODULE_ALIASES)):
                continue
            site_count[(mod, fname)] += 1
            for idx, pname in plist:
                arg = None
                callee = [f for f in an.by_name.get(fname, []) if f.mod == mod]
                params = callee[0].params if callee else []
                if idx < len(call.args):
                    arg = call.args[idx]
                for k in call.keywords:
                    if k.arg == pname:
                        arg = k.value
                if arg is None:
                    continue
                n_calls += 1
                st = _arg_fresh(caller, arg, env, an)
                inst = f"{caller.mod}::{caller.q} passes `{norm(arg)[:50]}` to {fname}({pname}=...) which mutates it"
                ab = base_name(arg)
                if st is not True and ab is not None:
                    org = caller.origins(ab) if ab not in caller.params else {ab}
                    own = org and org <= set(caller.params) - caller.captured - {"self"}
                    if own and (caller.mod, caller.func.name) not in propagated:
                        # the caller hands its own parameter on: it mutates that parameter itself, and ITS call sites are what matters
                        propagated.add((caller.mod, caller.func.name))
                        via.setdefault((caller.mod, caller.func.name), f"{caller.q} passes `{norm(arg)[:40]}` to {fname} ({repo.loc(caller.mod, call)})")
                        extra_summaries.setdefault((caller.mod, caller.func.name), set()).update(
                            (caller.params.index(o_), o_) for o_ in org)
                        rep.ok(RULE, inst, f"the argument is the caller's own parameter `{sorted(org)[0]}`: {caller.q} is treated as mutating it "
                                           "(its call sites are checked in turn)", repo.loc(caller.mod, call))
                        continue
                    if own:
                        rep.ok(RULE, inst, "the caller's own parameter (see the caller's call sites)", repo.loc(caller.mod, call))
                        continue
                    # a closure that hands on a parameter of the function that made it (a factory): that function mutates its parameter
                    encl = getattr(caller.func, "_parent", None)
                    while encl is not None and not (isinstance(encl, ast.FunctionDef) and ab in [a_.arg for a_ in encl.args.args]):
                        encl = getattr(encl, "_parent", None)
                    if encl is not None and ab in caller.captured | (set() if ab in caller.locals else {ab}):
                        idx_e = [a_.arg for a_ in encl.args.args].index(ab)
                        if (caller.mod, encl.name, ab) not in propagated:
                            propagated.add((caller.mod, encl.name, ab))
                            via.setdefault((caller.mod, encl.name), f"{caller.q} passes `{norm(arg)[:40]}` to {fname} ({repo.loc(caller.mod, call)})")
                            extra_summaries.setdefault((caller.mod, encl.name), set()).add((idx_e, ab))
                        rep.ok(RULE, inst, f"`{ab}` is a parameter of the enclosing function {encl.name}: {encl.name} is treated as mutating it "
                                           "(its call sites are checked in turn)", repo.loc(caller.mod, call))
                        continue
                if st is True:
                    rep.ok(RULE, inst, "argument is a package-owned copy", repo.loc(caller.mod, call))
                else:
                    rep.fail(RULE, f"{caller.mod}::{caller.q} passes `{norm(arg)[:50]}` to {fname} which mutates parameter `{pname}` in place",
                             f"the argument is not provably a private copy: {st}", repo.loc(caller.mod, call))

    work = sorted(summaries.items())
    rounds = 0
    all_summaries = {}
    while work and rounds < 6:
        rounds += 1
        extra_summaries = {}
        for (mod_, fname_), plist_ in work:
            all_summaries.setdefault((mod_, fname_), set()).update(plist_)
            check_sites(mod_, fname_, plist_)
        work = sorted(extra_summaries.items())
    if work:
        raise AnalysisError(RULE, "parameter-mutation summaries did not settle in 6 rounds of call-site propagation")
    rep.count("E4.param_mutation_call_sites", n_calls)
    # where the chain of callers ends, the argument is the user's: an exported function, or a module-level function that
    # nothing inside the package calls, must not (itself or through what it calls) write into its argument
    exported = _exported_names(repo)
    for (mod_, fname_), plist_ in sorted(all_summaries.items()):
        fas = [f for f in an.by_name.get(fname_, []) if f.mod == mod_ and "." not in f.q]
        if not fas:
            continue  # closures and methods: see the callback rule below
        if fname_ in exported or (site_count.get((mod_, fname_), 0) == 0 and not fname_.startswith("_")):
            names = ", ".join(sorted(n_ for _i, n_ in plist_))
            why = "exported by the package" if fname_ in exported else "not called anywhere inside the package, hence only from outside"
            chain, cur, seen_ = [], (mod_, fname_), set()
            while cur in via and cur not in seen_:
                seen_.add(cur)
                chain.append(via[cur])
                nxt = via[cur].split(" to ")[-1].split(" (")[0]
                cur = next(((m2, f2) for (m2, f2) in all_summaries if f2 == nxt), None)
            path = ("; ".join(chain) + "; " if chain else "") + "the write: " + ", ".join(
                f"`{txt}` ({repo.loc(fa_.mod, node)})" for fa_ in an.funcs for node, txt, base, _st, _k in fa_.sinks
                if (fa_.mod, fa_.func.name) in all_summaries and base in fa_.params and (fa_.mod, fa_.func.name) in summaries
                and (fa_.mod, fa_.func.name) == (cur if cur else (mod_, fname_)))[:300]
            rep.fail(RULE, f"{mod_}::{fname_} writes (itself or through the functions it hands it to) into its argument `{names}`",
                     f"{path}. {fname_} is {why}: the argument is the caller's own data, which C10 requires to be left unmodified "
                     "(copy before the in-place update)", repo.loc(mod_, fas[0].func))
        else:
            rep.ok(RULE, f"{mod_}::{fname_} mutates its argument and is only called inside the package ({site_count.get((mod_, fname_), 0)} sites, checked above)", "")
    # a function whose callers are outside the package must not write into its arguments at all: the slots of a scipy
    # LinearOperator (called by scipy with the user's operand, or with the operand of the other term of a composite) and the
    # closures the package hands out or installs as callbacks (called by generated code with cached series elements)
    for fa in an.funcs:
        if modules is not None and fa.mod not in modules:
            continue
        mutated = [(node, txt, base) for node, txt, base, st, kind in fa.sinks
                   if base in fa.params and base not in fa.captured and base != "self" and (fa.mod, fa.q, txt) not in EXEMPT]
        if not mutated:
            continue
        cls = getattr(fa.func, "_parent", None)
        is_slot = isinstance(cls, ast.ClassDef) and any(norm(b).split(".")[-1] == "LinearOperator" for b in cls.bases)
        module_level = "." not in fa.q and isinstance(getattr(fa.func, "_parent", None), ast.Module)
        has_site = any((call_name(call) or "") == fa.func.name or ((call_name(call) or "").endswith("." + fa.func.name) and
                       ((call_name(call) or "").rsplit(".", 1)[0] in MODULE_ALIASES or not module_level))
                       for _c, call, _e in an.calls)
        if is_slot and not fa.func.name.startswith("__"):
            node, txt, base = mutated[0]
            rep.fail(RULE, f"{fa.mod}::{fa.q} writes into its operand `{base}` (`{txt}`)",
                     "a LinearOperator slot is called by scipy with arrays the caller (or another term of a composite operator) still uses: "
                     "the operator must not modify what it is applied to", repo.loc(fa.mod, node))
        elif not is_slot and not has_site and isinstance(getattr(fa.func, "_parent", None), (ast.FunctionDef, ast.If, ast.For, ast.With, ast.Try)) \
                and fa.q.count(".") >= 1:
            node, txt, base = mutated[0]
            rep.fail(RULE, f"{fa.mod}::{fa.q} writes into its argument `{base}` (`{txt}`) and is never called inside the package",
                     "a closure handed out as a callback receives values its caller still owns (cached series elements, user arrays)", repo.loc(fa.mod, node))
        elif not is_slot and not has_site and "." not in fa.q and isinstance(getattr(fa.func, "_parent", None), ast.Module):
            # a module-level function nobody calls by name but that is used as a VALUE (put into the scope of the generated code,
            # stored in a table, passed on): its callers are not in the analysed source, they own what they pass
            uses = [n for t_ in repo.trees.values() for n in ast.walk(t_) if isinstance(n, ast.Name) and n.id == fa.func.name
                    and isinstance(n.ctx, ast.Load) and not (isinstance(getattr(n, "_parent", None), ast.Call) and n._parent.func is n)]
            if uses:
                node, txt, base = mutated[0]
                rep.fail(RULE, f"{fa.mod}::{fa.q} writes into its argument `{base}` (`{txt}`) and is only used as a value (`{norm(uses[0]._parent)[:60]}`), never called by name",
                         "a function handed to generated code or stored as a callback receives values its caller still owns (the running "
                         "result of an eval may be a stored series element): it must not update its arguments in place", repo.loc(fa.mod, node))
    # load-bearing copies
    if modules is None:
        _load_bearing(rep, repo)


def _exported_names(repo: Repo) -> set:
    """Names listed in the `__all__` of the package itself: the entry points whose caller C10 speaks about (the developer-facing
    helpers exported by single modules, `series_computation(series=...)` and `apply_mask_to_operator(mask=...)`, extend
    their argument by design and block_diagonalize hands them private containers, which the call-site check establishes)."""
    out = set()
    if "__init__" not in repo.all_trees():
        raise AnalysisError(RULE, "pymablock/__init__.py not found")
    for tree in (repo.all_trees()["__init__"],):
        for n in tree.body:
            if isinstance(n, ast.Assign) and any(isinstance(t, ast.Name) and t.id == "__all__" for t in n.targets) \
                    and isinstance(n.value, (ast.List, ast.Tuple)):
                out.update(e.value for e in n.value.elts if isinstance(e, ast.Constant) and isinstance(e.value, str))
    if "block_diagonalize" not in out:
        raise AnalysisError(RULE, "block_diagonalize is not listed in the package's __all__")
    return out


def _arg_fresh(caller: FuncAnalysis, arg: ast.AST, env, an: Analyser):
    """True if the argument is (an element of) a container built fresh by the package."""
    # variables bound by enclosing comprehensions take the element status of what they iterate over
    comps = []
    p = getattr(arg, "_parent", None)
    while p is not None and p is not caller.func:
        if isinstance(p, (ast.ListComp, ast.SetComp, ast.GeneratorExp, ast.DictComp)):
            comps.append(p)
        p = getattr(p, "_parent", None)
    if comps:
        env = dict(env)
        for c in reversed(comps):
            for g in c.generators:
                caller.bind(g.target, caller.elem_status(g.iter, env), env)
    if caller.status(arg, env) == FRESH:
        return True
    # element of a captured dict/array: look for the reaching assignment in the enclosing function
    base = base_name(arg)
    if base is None:
        return "argument expression not understood"
    func = caller.func
    p = getattr(func, "_parent", None)
    child = func
    while p is not None:
        for field in ("body", "orelse"):
            blk = getattr(p, field, None)
            if isinstance(blk, list) and any(child is s for s in blk):
                idx = [i for i, s in enumerate(blk) if s is child][0]
                for s in reversed(blk[:idx]):
                    if isinstance(s, ast.Assign) and any(isinstance(t, ast.Name) and t.id == base for t in s.targets):
                        v = s.value
                        if isinstance(v, ast.DictComp):
                            val = v.value
                            if isinstance(val, ast.Call) and call_name(val) in ("np.array", "copy", "deepcopy", "np.copy"):
                                return True
                            return f"`{base}` is rebuilt as {{...: {norm(val)[:50]}}} whose values are not copies"
                        return f"`{base}` = {norm(v)[:60]}"
        child, p = p, getattr(p, "_parent", None)
    return f"no package-side construction of `{base}` found before the closure"


def _load_bearing(rep: Report, repo: Repo):
    """Copies whose removal would expose caller data to an existing in-place write."""
    R = RULE
    f = repo.find("block_diagonalization::_dict_to_BlockSeries", R)
    first = [n for n in own_nodes(f) if isinstance(n, ast.Assign) and norm(n.targets[0]) == "operator"]
    ok = bool(first) and norm(first[0].value) in ("copy(operator)", "dict(operator)", "operator.copy()", "{**operator}")
    stores = [n for n in own_nodes(f) if isinstance(n, ast.Assign) and isinstance(n.targets[0], ast.Subscript) and norm(n.targets[0].value) == "operator"]
    before = bool(first) and all(first[0].lineno < s.lineno for s in stores)
    rep.check(ok and before, R, "block_diagonalization::_dict_to_BlockSeries copies the caller's dict before replacing its zeroth-order entry",
              norm(first[0]) if first else "missing", repo.loc("block_diagonalization", f))
    f = repo.find("block_diagonalization::block_diagonalize", R)
    so = [n for n in own_nodes(f) if isinstance(n, ast.Assign) and norm(n.targets[0]) == "solver_options"]

    def fresh(v):
        """a container of the function's own: {}, dict(), dict(X), dict(X or {}), {**X}, X.copy(), copy(X); or a conditional of such"""
        if isinstance(v, ast.IfExp):
            return fresh(v.body) and fresh(v.orelse)
        t = norm(v)
        return t in ("{}", "dict()") or (isinstance(v, ast.Call) and call_name(v) in ("dict", "copy", "deepcopy") and len(v.args) == 1) \
            or (isinstance(v, ast.Call) and isinstance(v.func, ast.Attribute) and v.func.attr == "copy" and not v.args) \
            or (isinstance(v, ast.Dict) and v.keys and all(k is None for k in v.keys))
    writes = [n for n in own_nodes(f) if (isinstance(n, ast.Call) and isinstance(n.func, ast.Attribute) and norm(n.func.value) == "solver_options"
                                          and n.func.attr in ("pop", "update", "setdefault", "clear", "popitem"))
              or (isinstance(n, ast.Subscript) and isinstance(n.ctx, (ast.Store, ast.Del)) and norm(n.value) == "solver_options")]
    if not so:
        ok = not writes  # never rebound: fine only if it is never written either
    else:
        # every rebinding is a fresh container, the rebinding(s) come before the first write, and they cover both cases of the
        # `is None` test when they sit in its arms
        ok = all(fresh(n.value) for n in so) and (not writes or min(n.lineno for n in so) < min(w.lineno for w in writes))
        conditional = [n for n in so if isinstance(getattr(n, "_parent", None), ast.If)]
        if conditional and not (len(so) == 2 and so[0]._parent is so[1]._parent and so[0] in so[0]._parent.body and so[1] in so[0]._parent.orelse):
            raise AnalysisError(R, "block_diagonalize: `solver_options` is rebound under conditions that are not the two arms of one test")
    rep.check(ok, R, "block_diagonalization::block_diagonalize copies solver_options before use", "; ".join(norm(n.value)[:60] for n in so), repo.loc("block_diagonalization", f))
    f = repo.find("block_diagonalization::solve_sylvester_direct", R)
    # every mapping that is popped from must be a private copy of the caller's options
    popped = {norm(c.func.value) for c in own_nodes(f) if isinstance(c, ast.Call) and isinstance(c.func, ast.Attribute)
              and c.func.attr in ("pop", "popitem", "clear", "update", "setdefault") and isinstance(c.func.value, ast.Name)}
    COPIES = ("dict(solver_options)", "solver_options.copy()", "{**solver_options}", "copy(solver_options)", "copy.copy(solver_options)",
              "dict(**solver_options)")
    ok = bool(popped)
    for nm in popped:
        vals = [norm(n.value) for n in own_nodes(f) if isinstance(n, ast.Assign) and any(norm(t) == nm for t in n.targets)]
        if nm == "solver_options" or not vals or any(v not in COPIES for v in vals):
            ok = False
    rep.check(ok, R, "block_diagonalization::solve_sylvester_direct pops deprecated keys from a private copy of the options", "", repo.loc("block_diagonalization", f))
    # the caller's mapping handed to series_computation is a fresh literal
    calls = [n for n in own_nodes(repo.find("block_diagonalization::block_diagonalize", R)) if isinstance(n, ast.Call) and call_name(n) == "series_computation"]
    ok = len(calls) == 1 and isinstance(calls[0].args[0], ast.Dict)
    rep.check(ok, R, "block_diagonalization::block_diagonalize hands series_computation a fresh mapping (it is extended in place and returned)",
              "", repo.loc("block_diagonalization", calls[0] if calls else f))
    # eval_scope: user scope merged into a fresh dict (never the user's dict itself)
    sc = repo.find("algorithm_parsing::series_computation", R)
    from .e9 import exec_scope_table as _est4
    _entries4, _last4, es_node4, has_user4 = _est4(repo, R)  # the dict handed to exec: a display built in this function
    es = [es_node4]
    ok = isinstance(es_node4.value, (ast.Dict, ast.Call)) and has_user4
    rep.check(ok, R, "algorithm_parsing::series_computation builds the exec scope as a fresh dict (`**(scope or {})`)", "", repo.loc("algorithm_parsing", sc))


def rule_closure_state(rep: Report, repo: Repo):
    """T7: inventory of closures that write captured mutable state == the reasoned table."""
    R = "E4.closure_state"
    an = Analyser(repo)
    found = set()
    for fa in an.funcs:
        if not fa.captured:
            continue
        for node, txt, base, st, kind in fa.sinks:
            if base is None or base in fa.params:
                continue
            if base in fa.locals and base not in fa.captured:
                continue
            if kind.startswith("attribute store"):
                continue
            ckey = (fa.mod, fa.q, captured_binding(fa.func, base), kind)
            found.add(ckey)
            listed = ckey in CLOSURE_STATE
            if listed:
                rep.ok(R, f"{fa.mod}::{fa.q} writes captured `{base}` ({kind})", CLOSURE_STATE[ckey], repo.loc(fa.mod, node))
            elif _element_deletion(fa, kind, txt):
                rep.ok(R, f"{fa.mod}::{fa.q} writes captured `{base}` ({kind})", _element_deletion(fa, kind, txt), repo.loc(fa.mod, node))
            elif (fa.mod, fa.q, txt) in EXEMPT:
                rep.ok(R, f"{fa.mod}::{fa.q} writes `{txt}` (exempt)", EXEMPT[(fa.mod, fa.q, txt)], repo.loc(fa.mod, node))
            elif kind == "item store" and _is_memo_store(fa.func, base, node):
                rep.ok(R, f"{fa.mod}::{fa.q} fills the memo table `{base}` under `K not in {base}`",
                       "a table of computed values written once per key: history-independent iff the key pins what the value reads (E4.memo_key)",
                       repo.loc(fa.mod, node))
            else:
                rep.fail(R, f"{fa.mod}::{fa.q} writes captured state `{base}` ({kind}) not in the closure-state table",
                         "state shared between evaluations: results may depend on the request history or be left half-updated by an exception",
                         repo.loc(fa.mod, node))
    # rebinding of an enclosing function's (or the module's) variable from inside a function: state that survives the call
    n_scopes = 0
    for mod, tree in repo.trees.items():
        if mod in ("__init__", "algorithms"):
            continue
        for fn in [x for x in ast.walk(tree) if isinstance(x, ast.FunctionDef)]:
            n_scopes += 1
            for decl in [x for x in own_nodes(fn) if isinstance(x, (ast.Nonlocal, ast.Global))]:
                for name in decl.names:
                    writes = [x for x in own_nodes(fn) if (isinstance(x, ast.Assign) and any(isinstance(t, ast.Name) and t.id == name for t in x.targets))
                              or (isinstance(x, (ast.AugAssign, ast.AnnAssign)) and isinstance(x.target, ast.Name) and x.target.id == name)
                              or (isinstance(x, ast.NamedExpr) and x.target.id == name)]
                    for w in writes:
                        rep.fail(R, f"{mod}::{qualname(fn)} rebinds the {'enclosing' if isinstance(decl, ast.Nonlocal) else 'module'} variable `{name}` "
                                    f"({'nonlocal' if isinstance(decl, ast.Nonlocal) else 'global'})",
                                 "a decision or value kept from one call to the next: what a later call returns depends on which calls came before",
                                 repo.loc(mod, w))
    rep.count("E4.function_scopes_checked_for_nonlocal", n_scopes)
    # attributes added to BlockSeries instances outside __init__ (new per-series state)
    cls = repo.find("series::BlockSeries", R)
    init_attrs = set()
    for m in cls.body:
        if isinstance(m, ast.FunctionDef):
            for n in own_nodes(m):
                if isinstance(n, ast.Attribute) and isinstance(n.ctx, ast.Store) and norm(n.value) == "self":
                    if m.name == "__init__":
                        init_attrs.add(n.attr)
    for m in cls.body:
        if isinstance(m, ast.FunctionDef) and m.name != "__init__":
            for n in ast.walk(m):
                if isinstance(n, ast.Attribute) and isinstance(n.ctx, ast.Store) and norm(n.value) == "self":
                    rep.fail(R, f"series::BlockSeries.{m.name} writes instance state `self.{n.attr}` outside __init__",
                             "per-series mutable state beyond the memo makes element values history dependent", repo.loc("series", n))
    rep.ok(R, "series::BlockSeries instance attributes are assigned in __init__ only", f"{sorted(init_attrs)}", repo.loc("series", cls))
    # module-level mutable state in the evaluation modules
    for mod in ("series", "algorithm_parsing", "block_diagonalization", "linalg", "kpm", "second_quantization"):
        for n in repo.trees[mod].body:
            if isinstance(n, (ast.Assign, ast.AnnAssign)) and isinstance(n.value, (ast.Dict, ast.List, ast.Set)) and not (
                    isinstance(n, ast.Assign) and isinstance(n.targets[0], ast.Name) and n.targets[0].id == "__all__"):
                tname = norm(n.targets[0] if isinstance(n, ast.Assign) else n.target)
                writers = [(g_, st_) for g_ in ast.walk(repo.trees[mod]) if isinstance(g_, ast.FunctionDef) for st_ in own_nodes(g_)
                           if (isinstance(st_, ast.Assign) and isinstance(st_.targets[0], ast.Subscript) and norm(st_.targets[0].value) == tname)
                           or (isinstance(st_, ast.Call) and isinstance(st_.func, ast.Attribute) and norm(st_.func.value) == tname and st_.func.attr in MUTATORS)
                           or (isinstance(st_, ast.Delete) and any(norm(getattr(t_, "value", t_)) == tname for t_ in st_.targets))]
                if isinstance(n.value, ast.Dict) and not n.value.keys and writers and all(
                        isinstance(st_, ast.Assign) and _is_memo_store(g_, tname, st_) for g_, st_ in writers):
                    rep.ok(R, f"{mod} module-level memo table `{tname}`", "written once per key under a membership test: decided by E4.memo_key", repo.loc(mod, n))
                    continue
                rep.fail(R, f"{mod} module-level mutable container `{tname}`", "global state shared by all computations", repo.loc(mod, n))
    for key in CLOSURE_STATE:
        if key not in found:
            rep.note(f"closure-state table entry {key} no longer matches a write (stale entry)")
    rep.count("E4.closure_state_found", sorted(map(str, found)))


# ---------------------------------------------------------------------------
# value preservation: no lossy conversion of computed element values
# ---------------------------------------------------------------------------

CONST_CONSTRUCTORS = {"np.zeros", "np.ones", "np.eye", "np.empty", "np.identity", "np.arange", "np.full", "identity",
                      "sparse.identity", "sparse.eye", "sparse.coo_array", "np.zeros_like", "np.ones_like", "sympy.zeros",
                      "sympy.eye", "np.array", "super().__init__", "LinearOperator.__init__", "BlockSeries"}
LOSSY = {"np.round", "np.around", "np.rint", "np.floor", "np.ceil", "np.trunc", "np.fix", "np.real", "np.imag", "np.clip",
         "np.int64", "np.int32", "np.float32", "np.float16", "np.complex64", "np.nan_to_num", "np.real_if_close"}
# (module, function qualname, kind of conversion) -> reason.  Kinds: "astype(int)", "round", ".real", ".imag"
LOSSY_EXEMPT = {
    ("block_diagonalization", "block_diagonalize", "astype(int)"): "boolean degeneracy masks (equal_eigs) turned into 0/1 masks (exact)",
    ("linalg", "is_diagonal", "round"): "tolerance test of a predicate, not an element value",
    ("linalg", "direct_greens_function.greens_function", ".real"): "real and imaginary parts are solved separately and recombined as re + i*im (E7.greens)",
    ("linalg", "direct_greens_function.greens_function", ".imag"): "see .real",
    ("block_diagonalization", "_group_close_energies", ".real"): "coordinates of complex energies for clustering",
    ("block_diagonalization", "_group_close_energies", ".imag"): "coordinates of complex energies for clustering",
}


def _reference_units(mod: str) -> set:
    """names of the top-level functions / classes of `mod` on the tree the rules were written on (sv/reference_locals.json)"""
    from . import alpha
    return {u.split(".")[0] for u in alpha.reference().get(mod, {})}


def rule_value_preserving(rep: Report, repo: Repo, modules=None):
    """`modules`: restrict the inventory to these modules (a property about one component is not answerable for conversions elsewhere)."""
    R = "E4.lossless"
    n = 0
    for mod in ("series", "algorithm_parsing", "block_diagonalization", "linalg", "second_quantization"):
        if modules is not None and mod not in modules:
            continue
        tree = repo.trees[mod]
        for node in ast.walk(tree):
            what = None
            if isinstance(node, ast.Call):
                nm = call_name(node) or norm(node.func)
                dt = [k for k in node.keywords if k.arg == "dtype"]
                # a collection of truth values stored as bool is exact (e.g. `np.fromiter((e is zero for e in a), dtype=bool)`)
                pred_elems = norm(dt[0].value) == "bool" and node.args and isinstance(node.args[0], (ast.GeneratorExp, ast.ListComp)) \
                    and isinstance(node.args[0].elt, (ast.Compare, ast.BoolOp)) if dt else False
                # promotion to a common type that includes the value's own dtype never narrows it
                widening = bool(dt) and isinstance(dt[0].value, ast.Call) and call_name(dt[0].value) in ("np.result_type", "np.promote_types", "np.common_type") \
                    and bool(node.args) and any(norm(a_) == f"{norm(node.args[0])}.dtype" or norm(a_) == norm(node.args[0]) for a_ in dt[0].value.args)
                if widening:
                    pass
                elif dt and nm not in CONST_CONSTRUCTORS and norm(dt[0].value) != "object" and not pred_elems:
                    what = f"`dtype=` conversion in `{norm(node)[:70]}`"
                elif dt and nm == "np.array" and norm(dt[0].value) not in ("object", "int", "bool"):
                    what = f"`dtype=` conversion in `{norm(node)[:70]}`"
                elif isinstance(node.func, ast.Attribute) and node.func.attr in ("astype", "round", "view") and norm(node.func.value) not in MODULE_ALIASES:
                    what = f"`.{node.func.attr}(...)`"
                elif nm in LOSSY:
                    what = f"`{nm}(...)`"
                elif nm in ("np.diag", "np.diagflat", "sparse.diags", "sparse.diags_array") and node.args and (
                        (isinstance(node.args[0], ast.Call) and isinstance(node.args[0].func, ast.Attribute) and node.args[0].func.attr == "diagonal")
                        or (isinstance(node.args[0], ast.Call) and call_name(node.args[0]) in ("np.diag", "np.diagonal"))):
                    # a matrix rebuilt from its own diagonal: every off-diagonal entry is dropped
                    what = f"`{norm(node)[:60]}` (a matrix replaced by its diagonal part)"
            elif isinstance(node, ast.Attribute) and node.attr in ("real", "imag") and isinstance(node.ctx, ast.Load):
                what = f"`.{node.attr}`"
            if what is None:
                continue
            n += 1
            # comparison result (boolean mask) turned into 0/1: exact
            if isinstance(node, ast.Call) and isinstance(node.func, ast.Attribute) and node.func.attr == "astype" \
                    and isinstance(node.func.value, (ast.Compare, ast.BoolOp)) and [norm(a) for a in node.args] in (["int"], ["bool"]):
                rep.ok(R, f"{mod} boolean mask `{norm(node)[:60]}` converted to 0/1 (exact)", "", repo.loc(mod, node))
                continue
            f = node
            while f is not None and not isinstance(f, (ast.FunctionDef, ast.Lambda)):
                f = getattr(f, "_parent", None)
            q = qualname(f) if f is not None else "<module>"
            txt = norm(node)
            kind = txt
            if isinstance(node, ast.Attribute):
                kind = "." + node.attr
            elif isinstance(node, ast.Call) and isinstance(node.func, ast.Attribute) and node.func.attr == "astype":
                kind = f"astype({', '.join(norm(a) for a in node.args)})"
            elif isinstance(node, ast.Call) and (call_name(node) or "") in ("np.round", "np.around") or \
                    (isinstance(node, ast.Call) and isinstance(node.func, ast.Attribute) and node.func.attr == "round"):
                kind = "round"
            key = (mod, q, kind)
            if isinstance(node, ast.Attribute) and node.attr in ("real", "imag") and f is not None:
                # both parts of the same value are taken in the same function: a split (each part goes its own way and they are
                # recombined; the recombination is E7.greens's obligation), not a projection that drops a part
                other = "imag" if node.attr == "real" else "real"
                if any(isinstance(x, ast.Attribute) and x.attr == other and norm(x.value) == norm(node.value) for x in ast.walk(f)):
                    rep.ok(R, f"{mod}::{q} splits `{norm(node.value)[:40]}` into real and imaginary part", "both parts are used", repo.loc(mod, node))
                    continue
            # a rounded / projected value that only feeds a truth test (`not np.any(np.round(x, d))`) is a tolerance test, not an element value
            up, feeds_predicate = getattr(node, "_parent", None), False
            while up is not None and not isinstance(up, ast.stmt):
                if isinstance(up, ast.Call) and (call_name(up) or "") in ("np.any", "np.all", "any", "all", "np.count_nonzero", "bool", "np.allclose", "np.array_equal"):
                    feeds_predicate = True
                    break
                up = getattr(up, "_parent", None)
            if feeds_predicate and kind == "round":
                rep.ok(R, f"{mod}::{q} {what} `{txt[:60]}` only feeds a truth test", "a tolerance test of a predicate, not an element value", repo.loc(mod, node))
                continue
            if key in LOSSY_EXEMPT:
                rep.ok(R, f"{mod}::{q} {what} `{txt[:60]}` (exempt)", LOSSY_EXEMPT[key], repo.loc(mod, node))
            elif kind in {k_[2] for k_ in LOSSY_EXEMPT} and q.split(".")[0] not in _reference_units(mod):
                # a conversion of a kind that is exact in the places listed above, in a function that did not exist when the list was
                # written (an extracted helper): whether it is one of those places is not something the list can say
                raise AnalysisError(R, f"{mod}::{q} {what} `{txt[:60]}` sits in a function this rule has no context for (conversions of this kind "
                                       "are exact where they are listed: boolean masks to 0/1, tolerance tests, clustering coordinates)")
            else:
                rep.fail(R, f"{mod}::{q} applies {what} to a computed value: `{txt[:80]}`",
                         "element values must be passed on as computed; a cast to the input's dtype, a rounding or a real-part "
                         "projection silently changes results for integer / real inputs", repo.loc(mod, node))
    # a buffer that inherits its dtype from an input (zeros_like / empty_like / ones_like / full_like without dtype=) and is then
    # filled with quotients: for an integer input every quotient is truncated on assignment
    for mod in ("series", "algorithm_parsing", "block_diagonalization", "linalg", "second_quantization", "kpm"):
        if modules is not None and mod not in modules:
            continue
        for fn in [x for x in ast.walk(repo.trees[mod]) if isinstance(x, ast.FunctionDef)]:
            bufs = {}
            for st in own_nodes(fn):
                if isinstance(st, ast.Assign) and len(st.targets) == 1 and isinstance(st.targets[0], ast.Name) and isinstance(st.value, ast.Call) \
                        and call_name(st.value) in ("np.zeros_like", "np.empty_like", "np.ones_like", "np.full_like") \
                        and not any(k.arg == "dtype" for k in st.value.keywords) and st.value.args:
                    bufs[st.targets[0].id] = st
            for st in own_nodes(fn):
                tgt = st.targets[0] if isinstance(st, ast.Assign) and len(st.targets) == 1 else (st.target if isinstance(st, ast.AugAssign) else None)
                if isinstance(tgt, ast.Subscript) and isinstance(tgt.value, ast.Name) and tgt.value.id in bufs \
                        and any(isinstance(x, ast.BinOp) and isinstance(x.op, ast.Div) for x in ast.walk(st.value)):
                    n += 1
                    src = norm(bufs[tgt.value.id].value.args[0])
                    rep.fail(R, f"{mod}::{qualname(fn)} stores a quotient into `{tgt.value.id}`, a buffer that inherits the dtype of `{src}` "
                                f"(`{norm(bufs[tgt.value.id].value)[:50]}`)",
                             f"for an integer `{src}` the buffer is integer and `{norm(st.value)[:50]}` is truncated towards zero on assignment; "
                             "give the buffer a floating dtype (np.result_type(..., float)) or compute with np.where", repo.loc(mod, st))
    rep.count("E4.lossless.sites", n)
    if n == 0 and modules is None:
        raise AnalysisError(R, "no conversion site found at all (the inventory above lists the known exact ones)")
    if n == 0:
        rep.ok(R, f"no conversion of a computed value in {', '.join(modules)}", "nothing to decide: the module contains no cast, rounding or projection", "")


# ---------------------------------------------------------------------------
# loop-carried containers: per-iteration scratch state must be re-initialised per iteration
# ---------------------------------------------------------------------------

MUTATORS = {"append", "extend", "update", "add", "setdefault", "insert", "pop", "remove", "clear", "discard"}


def rule_loop_carried_state(rep: Report, repo: Repo):
    """A container that one loop iteration both fills and consumes as a whole is scratch state of that
    iteration; if its only initialisation is outside the loop, what one iteration wrote leaks into the next."""
    R = "E4.loop_state"
    n_loops = n_pairs = 0
    for mod, tree in repo.trees.items():
        if mod in ("__init__", "algorithms"):
            continue
        for func in [n for n in ast.walk(tree) if isinstance(n, ast.FunctionDef)]:
            inits = {}
            for n in own_nodes(func):
                if isinstance(n, ast.Assign) and isinstance(n.targets[0], ast.Name) and (
                        isinstance(n.value, (ast.Dict, ast.List, ast.Set)) and not getattr(n.value, "keys", getattr(n.value, "elts", None))
                        or (isinstance(n.value, ast.Call) and call_name(n.value) in ("dict", "list", "set", "defaultdict") and not n.value.args)):
                    inits.setdefault(n.targets[0].id, []).append(n)
            if not inits:
                continue
            for loop in [n for n in own_nodes(func) if isinstance(n, (ast.For, ast.While))]:
                n_loops += 1
                body_nodes = [x for s in loop.body for x in [s, *own_nodes(s)]]
                for name, init_nodes in inits.items():
                    mutated = consumed = None
                    for x in body_nodes:
                        if isinstance(x, ast.Assign):
                            for t in x.targets:
                                if isinstance(t, ast.Subscript) and isinstance(t.value, ast.Name) and t.value.id == name:
                                    mutated = x
                        if isinstance(x, ast.AugAssign) and isinstance(x.target, ast.Subscript) and isinstance(x.target.value, ast.Name) \
                                and x.target.value.id == name:
                            mutated = x
                        if isinstance(x, ast.Call) and isinstance(x.func, ast.Attribute) and x.func.attr in MUTATORS \
                                and isinstance(x.func.value, ast.Name) and x.func.value.id == name:
                            mutated = x
                        if isinstance(x, ast.Name) and x.id == name and isinstance(x.ctx, ast.Load):
                            p = getattr(x, "_parent", None)
                            whole = True
                            if isinstance(p, ast.Subscript) and p.value is x:
                                whole = False
                            if isinstance(p, ast.Attribute) and p.value is x:
                                whole = False  # method call on it / attribute
                            if isinstance(p, ast.Compare):
                                whole = False  # membership test
                            if whole:
                                consumed = x
                    if mutated is None or consumed is None:
                        continue
                    n_pairs += 1
                    inside = any(any(i is x for x in body_nodes) for i in init_nodes)
                    q = qualname(func)
                    inst = f"{mod}::{q} container `{name}` is filled and consumed inside the loop `{norm(loop.target) if isinstance(loop, ast.For) else 'while'}`"
                    if inside:
                        rep.ok(R, inst + " and re-initialised per iteration", "", repo.loc(mod, mutated))
                    else:
                        rep.fail(R, f"{mod}::{q} per-iteration container `{name}` is initialised outside the loop that fills and consumes it",
                                 f"`{norm(init_nodes[0])}` is executed once; entries written while processing one item are still present "
                                 f"when `{norm(getattr(consumed, '_parent', consumed))[:60]}` consumes it for the next item", repo.loc(mod, init_nodes[0]))
    rep.count("E4.loop_state", {"loops": n_loops, "filled_and_consumed": n_pairs})
    rep.floor(R, "loops inspected", n_loops, 15)
    if n_pairs == 0:
        raise AnalysisError(R, "no per-iteration container found at all (expected at least NumberOrderedForm._multiply_expr::replacements)")


# ---------------------------------------------------------------------------
# memo tables inside loops: the key must determine what the cached computation reads
# ---------------------------------------------------------------------------


def memo_guards(func: ast.FunctionDef, table: str):
    """`if K not in table: ... table[K] = V` statements in `func` -> [(guard, key AST, store statement)]"""
    out = []
    for x in own_nodes(func):
        if isinstance(x, ast.If) and isinstance(x.test, ast.Compare) and len(x.test.ops) == 1 and isinstance(x.test.ops[0], ast.NotIn) \
                and norm(x.test.comparators[0]) == table:
            for st in ast.walk(x):
                if isinstance(st, ast.Assign) and isinstance(st.targets[0], ast.Subscript) and norm(st.targets[0].value) == table \
                        and norm(st.targets[0].slice) == norm(x.test.left):
                    out.append((x, x.test.left, st))
        # `if K in table: return table[K]` ... `table[K] = V` further down
        if isinstance(x, ast.If) and isinstance(x.test, ast.Compare) and len(x.test.ops) == 1 and isinstance(x.test.ops[0], ast.In) \
                and norm(x.test.comparators[0]) == table and any(isinstance(r, ast.Return) for r in x.body):
            for st in own_nodes(func):
                if isinstance(st, ast.Assign) and isinstance(st.targets[0], ast.Subscript) and norm(st.targets[0].value) == table \
                        and norm(st.targets[0].slice) == norm(x.test.left) and st.lineno > x.lineno:
                    out.append((x, x.test.left, st))
    return out


def _is_memo_store(func, table: str, node) -> bool:
    """`node` (a statement or a store target) is the `table[K] = V` of an `if K not in table:` guard in `func`, and the table is an
    empty dict created by the enclosing function."""
    stores = [st for _g, _k, st in memo_guards(func, table)]
    if not any(st is node or any(x is node for x in ast.walk(st)) for st in stores):
        return False
    def is_table_def(x):
        tgt = x.targets[0] if isinstance(x, ast.Assign) else (x.target if isinstance(x, ast.AnnAssign) else None)
        val = getattr(x, "value", None)
        return isinstance(tgt, ast.Name) and tgt.id == table and val is not None and (
            (isinstance(val, ast.Dict) and not val.keys) or (isinstance(val, ast.Call) and call_name(val) == "dict" and not val.args and not val.keywords))
    p = getattr(func, "_parent", None)
    while p is not None:
        if isinstance(p, ast.FunctionDef) and any(is_table_def(x) for x in own_nodes(p)):
            return True
        if isinstance(p, ast.Module) and any(is_table_def(x) for x in p.body):
            return True
        p = getattr(p, "_parent", None)
    return False


def _access_paths(e: ast.AST, root: str) -> set:
    """Maximal attribute / constant-subscript chains rooted at the name `root` that `e` reads: {`root`, `root[0]`, `root.shape`...}"""
    paths = set()

    def visit(n):
        cur = n
        while isinstance(cur, (ast.Attribute, ast.Subscript)):
            if isinstance(cur, ast.Subscript) and not (isinstance(cur.slice, ast.Constant) or
                                                      (isinstance(cur.slice, ast.UnaryOp) and isinstance(cur.slice.operand, ast.Constant))):
                break
            cur = cur.value
        if isinstance(cur, ast.Name) and cur.id == root and isinstance(n, (ast.Attribute, ast.Subscript, ast.Name)):
            # n is a chain down to root if we reached root without a break
            c2, ok = n, True
            while isinstance(c2, (ast.Attribute, ast.Subscript)):
                if isinstance(c2, ast.Subscript) and not (isinstance(c2.slice, ast.Constant) or
                                                         (isinstance(c2.slice, ast.UnaryOp) and isinstance(c2.slice.operand, ast.Constant))):
                    ok = False
                    break
                c2 = c2.value
            if ok:
                paths.add(norm(n))
                return
        for ch in ast.iter_child_nodes(n):
            visit(ch)
    visit(e)
    return paths


def _param_names(fn) -> list:
    a = fn.args
    return [x.arg for x in [*a.posonlyargs, *a.args, *a.kwonlyargs]] + ([a.vararg.arg] if a.vararg else []) + ([a.kwarg.arg] if a.kwarg else [])


def _bind_all(fn: ast.FunctionDef, call: ast.Call):
    """Like sem.bind_args, for signatures with *args / **kwargs: surplus positional arguments become a tuple, surplus keywords
    a dict display."""
    a = fn.args
    if any(isinstance(x, ast.Starred) for x in call.args) or (any(k.arg is None for k in call.keywords) and not a.kwarg):
        return None
    pos = [x.arg for x in [*a.posonlyargs, *a.args]]
    env = dict(zip(pos, call.args))
    extra = call.args[len(pos):]
    if extra and not a.vararg:
        return None
    kwonly = [x.arg for x in a.kwonlyargs]
    surplus = []
    for k in call.keywords:
        if k.arg is None:
            surplus.append(k)
            continue
        if k.arg in env:
            return None
        if k.arg in pos or k.arg in kwonly:
            env[k.arg] = k.value
        elif a.kwarg:
            surplus.append(k)
        else:
            return None
    defaults = dict(zip(pos[len(pos) - len(a.defaults):], a.defaults))
    for x, d in zip(a.kwonlyargs, a.kw_defaults):
        if d is not None:
            defaults[x.arg] = d
    for nm in pos + kwonly:
        if nm not in env:
            if nm not in defaults:
                return None
            env[nm] = defaults[nm]
    if a.vararg:
        env[a.vararg.arg] = ast.Tuple(elts=list(extra), ctx=ast.Load())
    if a.kwarg:
        env[a.kwarg.arg] = ast.Dict(keys=[ast.Constant(value=k.arg) if k.arg is not None else None for k in surplus], values=[k.value for k in surplus])
    return env


def _memo_verdict(K: ast.AST, V: ast.AST, varying):
    """-> ("ok" | "missing" | "named" | "partial", detail)"""
    NAMES = ("__name__", "__qualname__", "__module__")
    missing, partial, named = [], [], []
    for p_ in varying:
        reads = _access_paths(V, p_)
        if not reads:
            continue
        in_key = _access_paths(K, p_)
        if not in_key:
            missing.append((p_, sorted(reads)))
        elif all(k_.split(".")[-1] in NAMES for k_ in in_key) and not all(r_.split(".")[-1] in NAMES for r_ in reads):
            named.append((p_, sorted(reads), sorted(in_key)))
        elif not all(any(r_ == k_ or r_.startswith(k_ + "[") or r_.startswith(k_ + ".") for k_ in in_key) for r_ in reads):
            partial.append((p_, sorted(reads), sorted(in_key)))
        else:
            class _T(ast.NodeVisitor):
                bad = False

                def visit_Compare(self, node):
                    if any(_access_paths(node, p_)):
                        self.bad = True
            t_ = _T()
            t_.visit(K)
            if t_.bad:
                partial.append((p_, sorted(reads), ["(inside a comparison)"]))
    if named:
        return ("named", named[0])
    if missing:
        return ("missing", missing[0])
    if partial:
        return ("partial", partial[0])
    return ("ok", None)


def _closure_memos(rep: Report, repo: Repo, R: str, modules=None) -> int:
    """A dictionary created in a function F and filled by a closure G of F as `if K not in D: D[K] = V` is a memo table over the
    calls of G.  Whatever V reads from G's parameters has to be pinned by K: a parameter that V reads and K does not mention at
    all makes two different calls share one entry (violation); a parameter that K mentions only through something that does not
    determine what V reads (`p is q`, `len(p)`, another component) cannot be decided here."""
    from .resolve import env_at, resolved
    n = 0
    for mod, tree in repo.trees.items():
        if mod in ("__init__", "algorithms") or (modules is not None and mod not in modules):
            continue
        def empty_dicts(stmts):
            out = []
            for x in stmts:
                tgt = x.targets[0] if isinstance(x, ast.Assign) else (x.target if isinstance(x, ast.AnnAssign) else None)
                val = getattr(x, "value", None)
                if isinstance(tgt, ast.Name) and val is not None and ((isinstance(val, ast.Dict) and not val.keys) or
                                                                      (isinstance(val, ast.Call) and call_name(val) == "dict" and not val.args and not val.keywords)):
                    out.append(tgt.id)
            return out
        # module-level tables filled by module-level functions, and tables of a function filled by its closures
        units = [(empty_dicts(tree.body), [x for x in tree.body if isinstance(x, ast.FunctionDef)])]
        for F in [x for x in ast.walk(tree) if isinstance(x, ast.FunctionDef)]:
            units.append((empty_dicts(list(own_nodes(F))), [x for x in ast.walk(F) if isinstance(x, ast.FunctionDef) and x is not F]))
        for tables, fillers in units:
            if not tables:
                continue
            for G in fillers:
                params = _param_names(G)
                for D in tables:
                    for guard, key, store in memo_guards(G, D):
                        n += 1
                        K = resolved(key, env_at(guard, G))
                        V = resolved(store.value, env_at(store, G))
                        inst = f"{mod}::{qualname(G)} memo table `{D}` keyed by `{norm(K)[:60]}`"
                        # functions between the table's owner and the filler: their parameters vary between fills too, and what
                        # they are is known only at their call sites
                        chain = []
                        p_ = getattr(G, "_parent", None)
                        while p_ is not None and not (isinstance(p_, ast.FunctionDef) and any(
                                isinstance(x, (ast.Assign, ast.AnnAssign)) and norm(x.targets[0] if isinstance(x, ast.Assign) else x.target) == D
                                for x in own_nodes(p_))) and not isinstance(p_, ast.Module):
                            if isinstance(p_, ast.FunctionDef):
                                chain.append(p_)
                            p_ = getattr(p_, "_parent", None)
                        owner = p_
                        inter = [m_ for m_ in chain if any(_access_paths(V, q) or _access_paths(K, q) for q in _param_names(m_))]
                        cases = [(K, V, params, repo.loc(mod, store), "")]
                        if inter:
                            if len(inter) > 1 or owner is None:
                                raise AnalysisError(R, f"{inst}: key / value depend on the parameters of several enclosing functions")
                            M = inter[0]
                            sites = [c for c in ast.walk(owner) if isinstance(c, ast.Call) and isinstance(c.func, ast.Name) and c.func.id == M.name
                                     and not any(c is x for x in ast.walk(M))]
                            if not sites:
                                raise AnalysisError(R, f"{inst}: no call of `{M.name}` found")
                            cases = []
                            for c in sites:
                                bnd = _bind_all(M, c)
                                if bnd is None:
                                    raise AnalysisError(R, f"{inst}: the call `{norm(c)[:60]}` cannot be bound")
                                H = c
                                while H is not None and not isinstance(H, ast.FunctionDef):
                                    H = getattr(H, "_parent", None)
                                env_c = env_at(c, H) if H is not None else {}
                                K2, V2 = resolved(resolved(K, bnd), env_c), resolved(resolved(V, bnd), env_c)
                                hp = _param_names(H) if H is not None else []
                                if H is not None and hp:
                                    # the parameters of the function that makes the call are pinned if the key contains parameters whose
                                    # arguments differ between all call sites of that function (they identify the call site)
                                    hsites = [c2 for c2 in ast.walk(owner) if isinstance(c2, ast.Call) and isinstance(c2.func, ast.Name) and c2.func.id == H.name
                                              and not any(c2 is x for x in ast.walk(H))]
                                    bound = [_bind_all(H, c2) for c2 in hsites]
                                    in_key = [q_ for q_ in hp if q_ in _access_paths(K2, q_)]
                                    if hsites and None not in bound and in_key:
                                        ids = [tuple(norm(b_[q_]) for q_ in in_key) for b_ in bound]
                                        consts = all(isinstance(b_[q_], ast.Constant) for b_ in bound for q_ in in_key)
                                        if consts and len(set(ids)) == len(ids):
                                            hp = []
                                varying = list(params) + hp
                                q = getattr(c, "_parent", None)
                                while q is not None and q is not owner:
                                    if isinstance(q, ast.For):
                                        tnames = [x.id for x in ast.walk(q.target) if isinstance(x, ast.Name)]
                                        # `for k, (...) in enumerate(...)`: the counter identifies the turn, and with it all targets
                                        counter = q.target.elts[0].id if (isinstance(q.iter, ast.Call) and call_name(q.iter) == "enumerate"
                                                                          and isinstance(q.target, ast.Tuple) and isinstance(q.target.elts[0], ast.Name)) else None
                                        if counter is not None and counter in _access_paths(K2, counter):
                                            tnames = []
                                        varying += tnames
                                    if isinstance(q, (ast.ListComp, ast.GeneratorExp, ast.SetComp, ast.DictComp)):
                                        varying += [x.id for g_ in q.generators for x in ast.walk(g_.target) if isinstance(x, ast.Name)]
                                    q = getattr(q, "_parent", None)
                                cases.append((K2, V2, list(dict.fromkeys(varying)), repo.loc(mod, c), f" (as called at line {c.lineno})"))
                        verdicts = [_memo_verdict(K_, V_, vary_) + (where_, note_) for K_, V_, vary_, where_, note_ in cases]
                        bad = [v_ for v_ in verdicts if v_[0] in ("named", "missing")]
                        und = [v_ for v_ in verdicts if v_[0] == "partial"]
                        if bad:
                            kind, detail, where_, note_ = bad[0]
                            if kind == "named":
                                rep.fail(R, f"{inst}: the cached value is computed from `{detail[0]}` itself ({', '.join(detail[1])[:50]}), the key holds only its name "
                                            f"({', '.join(detail[2])[:70]})",
                                         "two different objects with the same module and (qualified) name share one entry: the second silently gets what was "
                                         "computed from the first", where_)
                            else:
                                rep.fail(R, f"{inst}{note_}: the cached value reads `{detail[0]}` ({', '.join(detail[1])[:60]}), which the key does not mention",
                                         "two fills that differ in it share one entry: the second silently gets what was computed for the first", where_)
                        elif und:
                            _k, detail, _w, note_ = und[0]
                            raise AnalysisError(R, f"{inst}{note_}: cannot decide whether the key determines what the cached value reads from `{detail[0]}` "
                                                   f"(value reads {detail[1]}, key has {detail[2]})")
                        else:
                            rep.ok(R, inst, "everything the cached value reads that varies between fills is part of the key", repo.loc(mod, guard))
    return n


def rule_memo_key(rep: Report, repo: Repo, modules=None):
    """`D = {}` before a loop, and inside it `if K not in D: <compute>; D[K] = V` ... `D[K]`: a cache across iterations.
    Decided clause (the form that is understood): when the key K is built by a comprehension over `enumerate(X)` /
    `range(len(X))` that keeps only POSITIONS (the element values are used for filtering at most), the cached
    computation must not read the element values `X[...]` -- two iterations with different values at the same
    positions would share one entry."""
    R = "E4.memo_key"
    n_loops = n_memos = 0
    for mod, tree in repo.trees.items():
        if mod in ("__init__", "algorithms") or (modules is not None and mod not in modules):
            continue
        for func in [n for n in ast.walk(tree) if isinstance(n, ast.FunctionDef)]:
            inits = {}
            for n in own_nodes(func):
                if isinstance(n, ast.Assign) and isinstance(n.targets[0], ast.Name) and (
                        (isinstance(n.value, ast.Dict) and not n.value.keys)
                        or (isinstance(n.value, ast.Call) and call_name(n.value) in ("dict",) and not n.value.args and not n.value.keywords)):
                    inits.setdefault(n.targets[0].id, []).append(n)
            if not inits:
                continue
            for loop in [n for n in own_nodes(func) if isinstance(n, ast.For)]:
                n_loops += 1
                body_nodes = [x for s in loop.body for x in [s, *own_nodes(s)]]
                for name, init_nodes in inits.items():
                    if any(any(i is x for x in body_nodes) for i in init_nodes):
                        continue  # re-created per iteration: not a cache across iterations
                    guards = [x for x in body_nodes if isinstance(x, ast.If) and isinstance(x.test, ast.Compare) and len(x.test.ops) == 1
                              and isinstance(x.test.ops[0], ast.NotIn) and norm(x.test.comparators[0]) == name
                              and any(isinstance(s, ast.Assign) and isinstance(s.targets[0], ast.Subscript) and norm(s.targets[0].value) == name
                                      and norm(s.targets[0].slice) == norm(x.test.left) for s in ast.walk(x))]
                    for gd in guards:
                        n_memos += 1
                        K = gd.test.left
                        q = qualname(func)
                        inst = f"{mod}::{q} cache `{name}` keyed by `{norm(K)}` inside the loop over `{norm(loop.iter)[:40]}`"
                        if not isinstance(K, ast.Name):
                            rep.ok(R, inst, "key is an expression of the current item", repo.loc(mod, gd))
                            continue
                        kdefs = [s for s in body_nodes if isinstance(s, ast.Assign) and any(isinstance(t, ast.Name) and t.id == K.id for t in s.targets)]
                        if len(kdefs) != 1:
                            rep.ok(R, inst, "key is not a single in-loop definition (not analysed further)", repo.loc(mod, gd))
                            continue
                        kv = kdefs[0].value
                        while isinstance(kv, ast.Call) and call_name(kv) in ("tuple", "frozenset", "list", "sorted") and len(kv.args) == 1:
                            kv = kv.args[0]
                        positions_of = None
                        if isinstance(kv, (ast.GeneratorExp, ast.ListComp, ast.SetComp)) and len(kv.generators) == 1:
                            g = kv.generators[0]
                            if isinstance(g.iter, ast.Call) and call_name(g.iter) == "enumerate" and len(g.iter.args) == 1 \
                                    and isinstance(g.target, ast.Tuple) and len(g.target.elts) == 2 and norm(kv.elt) == norm(g.target.elts[0]):
                                positions_of = norm(g.iter.args[0])
                            if isinstance(g.iter, ast.Call) and call_name(g.iter) == "range" and len(g.iter.args) == 1 \
                                    and isinstance(g.iter.args[0], ast.Call) and call_name(g.iter.args[0]) == "len" and norm(kv.elt) == norm(g.target):
                                positions_of = norm(g.iter.args[0].args[0])
                        if positions_of is None:
                            rep.ok(R, inst, "key form not position-only", repo.loc(mod, gd))
                            continue
                        reads = [x for s in gd.body for x in ast.walk(s) if isinstance(x, ast.Subscript) and isinstance(x.ctx, ast.Load)
                                 and norm(x.value) == positions_of]
                        if reads:
                            rep.fail(R, f"{mod}::{q} cache `{name}` is keyed by positions in `{positions_of}` only, but the cached computation reads "
                                        f"`{norm(reads[0])}`",
                                     f"two items with different values of `{positions_of}` at the same positions share one cache entry: the second one "
                                     "silently reuses what was computed for the first", repo.loc(mod, reads[0]))
                        else:
                            rep.ok(R, inst, f"position-only key, and the cached computation does not read the values of `{positions_of}`", repo.loc(mod, gd))
    n_closure = _closure_memos(rep, repo, R, modules)
    n_memos += n_closure
    rep.count("E4.memo_key", {"loops": n_loops, "memo tables": n_memos})
    rep.floor(R, "loops inspected", n_loops, 15 if modules is None else 5)
