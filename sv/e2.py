"""E2 -- order / grading analyses (series.py, DSL, input normalisation layers)."""

from __future__ import annotations

import ast
from fractions import Fraction

from .cfg import CFG
from .core import AnalysisError, Repo, Report, call_name, dotted, nested_defs, norm, own_nodes
from .dsl import read_program
from .paths import enum_paths, eval_bool, truth_table

RULE_P = "E2.product_by_order"
SWAPPED = "(index[1], index[0], *index[2:])"


# ---------------------------------------------------------------------------
# helpers
# ---------------------------------------------------------------------------


def affine(expr: ast.AST, var: str):
    """expr == a*var + b  ->  (a, b) with integers, else None."""
    if isinstance(expr, ast.Name) and expr.id == var:
        return (1, 0)
    if isinstance(expr, ast.Constant) and isinstance(expr.value, int) and not isinstance(expr.value, bool):
        return (0, expr.value)
    if isinstance(expr, ast.UnaryOp) and isinstance(expr.op, ast.USub):
        r = affine(expr.operand, var)
        return None if r is None else (-r[0], -r[1])
    if isinstance(expr, ast.BinOp) and isinstance(expr.op, (ast.Add, ast.Sub)):
        l, r = affine(expr.left, var), affine(expr.right, var)
        if l is None or r is None:
            return None
        s = 1 if isinstance(expr.op, ast.Add) else -1
        return (l[0] + s * r[0], l[1] + s * r[1])
    return None


def range_interval(call: ast.AST, var: str):
    """range(...) over ``var`` -> (lo, hi) inclusive as affine pairs, else None."""
    if not (isinstance(call, ast.Call) and call_name(call) == "range" and not call.keywords):
        return None
    a = call.args
    if len(a) == 1:
        lo, stop = (0, 0), affine(a[0], var)
    elif len(a) == 2 or (len(a) == 3 and affine(a[2], var) == (0, 1)):
        lo, stop = affine(a[0], var), affine(a[1], var)
    else:
        return None
    if lo is None or stop is None:
        return None
    return lo, (stop[0], stop[1] - 1)


def tuple_items(expr: ast.AST):
    """(a, b, *c) -> [('n','a'),('n','b'),('*','c')]; other element forms by text."""
    if not isinstance(expr, ast.Tuple):
        return None
    out = []
    for e in expr.elts:
        if isinstance(e, ast.Starred):
            out.append(("*", norm(e.value)))
        else:
            out.append(("n", norm(e)))
    return out


def single_assign(scope_nodes, name: str):
    found = [n for n in scope_nodes if isinstance(n, ast.Assign) and len(n.targets) == 1
             and isinstance(n.targets[0], ast.Name) and n.targets[0].id == name]
    return found


def enclosing_stmt(node: ast.AST, g: CFG):
    cur = node
    while cur is not None:
        if g.node_of(cur):
            return cur
        cur = getattr(cur, "_parent", None)
    return None


# ---------------------------------------------------------------------------
# E2.2 / E2.3 / E2.4 : product_by_order
# ---------------------------------------------------------------------------


def rule_product_by_order(rep: Report, repo: Repo):
    R = RULE_P
    f = repo.find("series::product_by_order", R)
    params = [a.arg for a in f.args.args]
    if params[:3] != ["index", "first", "second"] or "hermitian" not in params or "operator" not in params:
        raise AnalysisError(R, f"unexpected signature {params}")
    loc = lambda n: repo.loc("series", n)
    body_nodes = list(own_nodes(f))
    # -- unpacking of the index ------------------------------------------------------
    unpack = [n for n in body_nodes if isinstance(n, ast.Assign) and isinstance(n.targets[0], ast.Tuple)
              and isinstance(n.value, ast.Name) and n.value.id == "index"]
    if len(unpack) != 1:
        raise AnalysisError(R, "cannot find `start, end, *orders = index`")
    items = tuple_items(unpack[0].targets[0])
    if not (items and len(items) == 3 and [k for k, _ in items] == ["n", "n", "*"]):
        rep.fail(R, f"series::product_by_order unpack `{norm(unpack[0])}`",
                 "the index must split into two block indices and a uniform tail of orders", loc(unpack[0]))
        return
    start, end, orders = (v for _, v in items)
    rep.ok(R, "series::product_by_order index split", f"{start}, {end}, *{orders} = index", loc(unpack[0]))

    loops = [s for s in f.body if isinstance(s, ast.For)]
    if len(loops) != 1:
        raise AnalysisError(R, f"expected one top-level loop, found {len(loops)}")
    loop = loops[0]
    titems = tuple_items(loop.target)
    if not (titems and [k for k, _ in titems] == ["n", "*"]):
        raise AnalysisError(R, f"loop target `{norm(loop.target)}` is not (middle, *orders_1st)")
    middle, o1 = titems[0][1], titems[1][1]
    it = loop.iter
    if not (isinstance(it, ast.Call) and call_name(it) in ("product", "itertools.product") and len(it.args) == 2
            and isinstance(it.args[1], ast.Starred) and isinstance(it.args[1].value, (ast.GeneratorExp, ast.ListComp))):
        raise AnalysisError(R, f"loop iterator `{norm(it)}` is not product(range(.), *(range(.) for . in orders))")
    # intermediate block range
    mid = it.args[0]
    ok = isinstance(mid, ast.Call) and call_name(mid) == "range" and len(mid.args) == 1 \
        and norm(mid.args[0]) in ("first.shape[1]", "second.shape[0]")
    rep.check(ok, R, "series::product_by_order E2.2 intermediate blocks", f"middle ranges over `{norm(mid)}`", loc(mid))
    # order box
    gen = it.args[1].value
    g0 = gen.generators[0]
    ok = len(gen.generators) == 1 and not g0.ifs and isinstance(g0.target, ast.Name) and norm(g0.iter) == orders
    if not ok:
        rep.fail(R, f"series::product_by_order E2.2 order box iterates `{norm(g0.iter)}`",
                 "one range per order component, uniformly over all components", loc(gen))
    else:
        iv = range_interval(gen.elt, g0.target.id)
        good = iv == ((0, 0), (1, 0))
        rep.check(good, R, "series::product_by_order E2.2 order box [0, n_k] per component",
                  f"`{norm(gen.elt)}` gives interval {iv} (lo, hi as (a, b) of a*n_k + b); required lo=0, hi=n_k",
                  loc(gen.elt))
    # -- assignments in the loop body ---------------------------------------------------
    lb = [n for s in loop.body for n in [s, *own_nodes(s)]]

    def resolve(expr):
        seen = 0
        while isinstance(expr, ast.Name) and seen < 5:
            asg = single_assign(lb, expr.id)
            if len(asg) != 1:
                return expr
            expr = asg[0].value
            seen += 1
        return expr

    # orders_2nd: find a name assigned tuple(<i - j for i, j in zip(orders, o1)>)
    o2 = None
    for n in lb:
        if isinstance(n, ast.Assign) and isinstance(n.targets[0], ast.Name):
            v = n.value
            if isinstance(v, ast.Call) and call_name(v) == "tuple" and len(v.args) == 1:
                v = v.args[0]
            if isinstance(v, (ast.GeneratorExp, ast.ListComp)) and len(v.generators) == 1:
                gg = v.generators[0]
                if isinstance(gg.iter, ast.Call) and call_name(gg.iter) == "zip" and isinstance(gg.target, ast.Tuple) \
                        and len(gg.target.elts) == 2 and len(gg.iter.args) == 2 and not gg.ifs:
                    a, b = (norm(x) for x in gg.iter.args)
                    i, j = (norm(x) for x in gg.target.elts)
                    comp = None
                    if isinstance(v.elt, ast.BinOp) and isinstance(v.elt.op, ast.Sub):
                        comp = (norm(v.elt.left), norm(v.elt.right))
                    tot = {a: i, b: j}
                    good = {a, b} == {orders, o1} and comp == (tot.get(orders), tot.get(o1))
                    if {a, b} == {orders, o1}:
                        o2 = n.targets[0].id
                        rep.check(good, R, "series::product_by_order E2.2 complementary orders",
                                  f"`{norm(n)}` must be {orders} - {o1} component-wise", loc(n))
    if o2 is None:
        raise AnalysisError(R, "cannot find the complementary-order assignment (orders - orders_1st)")

    # index tuples of the two loads
    loads = {"first": [], "second": []}
    for n in lb:
        if isinstance(n, ast.Subscript) and isinstance(n.ctx, ast.Load) and isinstance(n.value, ast.Name) \
                and n.value.id in loads:
            loads[n.value.id].append(n)
    rep.floor(R, "loads of first[...]", len(loads["first"]), 1)
    rep.floor(R, "loads of second[...]", len(loads["second"]), 1)
    want = {"first": [("n", start), ("n", middle), ("*", o1)], "second": [("n", middle), ("n", end), ("*", o2)]}
    for which, lst in loads.items():
        for ld in lst:
            got = tuple_items(resolve(ld.slice))
            rep.check(got == want[which], R,
                      f"series::product_by_order E2.2 `{norm(ld)}` index wiring",
                      f"index is {got}, required {want[which]}", loc(ld))
    # membership tests must use the same index tuples
    g = CFG(f)
    mem_tests = []
    for nd in g.nodes:
        if nd.kind != "test":
            continue
        def classify(a):
            if isinstance(a, ast.Compare) and len(a.ops) == 1 and isinstance(a.ops[0], (ast.In, ast.NotIn)):
                tgt = norm(a.comparators[0])
                if tgt in ("first", "second"):
                    got = tuple_items(resolve(a.left))
                    if got != want[tgt]:
                        return None
                    return (f"present_{tgt}", isinstance(a.ops[0], ast.In))
            return None
        try:
            names, table = truth_table(nd.ast, classify)
        except AnalysisError:
            continue
        if set(names) == {"present_first", "present_second"}:
            for kind, val in (("t", True), ("f", False)):
                rows = [v for v, r in table.items() if r is val]
                if rows and all(all(v) for v in rows):
                    mem_tests.append((nd, kind))
    if not mem_tests:
        rep.fail(R, "series::product_by_order E2.4 no presence test of both factors",
                 "a factor element may only be requested when the complementary element of the other factor is present",
                 loc(loop))
    for which, lst in loads.items():
        for ld in lst:
            st = enclosing_stmt(ld, g)
            ok = any(all(g.dominated_by_edge(cn.id, t.id, kind) for cn in g.node_of(st)) for t, kind in mem_tests)
            rep.check(ok, R, f"series::product_by_order E2.4 `{norm(ld)}` requested only if both factors are present",
                      "load dominated by the presence test of both index tuples", loc(ld))
    # zero-skip: each load is compared with `zero` and skipped; the later load is dominated by the earlier one's test
    _zero_skip(rep, repo, f, g, loads, loop)
    # -- fail closed on the function skeleton: the only way out is `return result` after the loop, and
    #    `result` is only written by `result = zero` and by the accumulation inside the loop
    rets = [n for n in own_nodes(f) if isinstance(n, ast.Return)]
    after = f.body[f.body.index(loop) + 1:]
    ok = len(rets) == 1 and rets[0] in after and norm(rets[0].value) == "result" and \
        not any(isinstance(n, (ast.Break, ast.Return)) for s in loop.body if not isinstance(s, ast.FunctionDef) for n in [s, *own_nodes(s)])
    if not ok:
        raise AnalysisError(R, "product_by_order has an exit other than `return result` after the complete loop "
                               f"({[norm(r)[:40] for r in rets]}); the splitting enumeration cannot be certified")
    writes = [n for n in own_nodes(f) if isinstance(n, (ast.Assign, ast.AugAssign))
              and any(isinstance(x, ast.Name) and x.id == "result" and isinstance(x.ctx, ast.Store) for t in
                      (n.targets if isinstance(n, ast.Assign) else [n.target]) for x in ast.walk(t))]
    init = [w for w in writes if w in f.body]
    rep.check(len(init) == 1 and norm(init[0]) == "result = zero" and f.body.index(init[0]) < f.body.index(loop), R,
              "series::product_by_order the sum starts from the `zero` sentinel", norm(init[0]) if init else "", loc(f))
    # -- E2.3 multiplicity table -------------------------------------------------------------
    _multiplicity(rep, repo, f, loop, start, end, o1, o2)
    # -- operator application order --------------------------------------------------------------
    _operator_order(rep, repo, f, loop, lb)


def _zero_skip(rep, repo, f, g: CFG, loads, loop):
    R = RULE_P
    for which, lst in loads.items():
        for ld in lst:
            # the load must sit in `(<name> := X[idx]) is zero` or be assigned then tested
            p = ld._parent
            test_ok = False
            if isinstance(p, ast.NamedExpr):
                c = p._parent
                if isinstance(c, ast.Compare) and len(c.ops) == 1 and isinstance(c.ops[0], ast.Is) \
                        and norm(c.comparators[0]) == "zero":
                    # the true edge must be a continue
                    for nd in g.node_of(c):
                        tgt = [b for b, k in g.succ[nd.id] if k == "t"]
                        test_ok = bool(tgt) and all(isinstance(g.nodes[b].ast, ast.Continue) for b in tgt)
            rep.check(test_ok, R, f"series::product_by_order sentinel `{norm(ld)}` zero factor skips the term",
                      "absent term: `is zero` -> continue", repo.loc("series", ld))


def _multiplicity(rep, repo, f, loop, start, end, o1, o2):
    """Evaluate skip / accumulate conditions on {<,=,>} x hermitian x diagonal."""
    R = RULE_P
    pre = [s for s in f.body if s is not loop and isinstance(s, ast.Assign)
           and isinstance(s.targets[0], ast.Name) and s.targets[0].id == "hermitian"]
    expected = {}
    n_checked = 0
    for herm in (False, True):
        for diag in (False, True):
            for ordering in ("<", "=", ">"):
                def base_atom(n, herm_val):
                    if isinstance(n, ast.Call) and call_name(n) == "bool" and len(n.args) == 1:
                        return eval_bool(n.args[0], lambda m: base_atom(m, herm_val))
                    if isinstance(n, ast.Name) and n.id == "hermitian":
                        return herm_val
                    if isinstance(n, ast.Compare) and len(n.ops) == 1:
                        l, r = norm(n.left), norm(n.comparators[0])
                        op = n.ops[0]
                        if {l, r} == {start, end} and isinstance(op, (ast.Eq, ast.NotEq)):
                            return diag if isinstance(op, ast.Eq) else not diag
                        if {l, r} == {o1, o2}:
                            rel = ordering if l == o1 else {"<": ">", ">": "<", "=": "="}[ordering]
                            return {ast.Gt: rel == ">", ast.Lt: rel == "<", ast.Eq: rel == "=",
                                    ast.NotEq: rel != "=", ast.GtE: rel in ">=", ast.LtE: rel in "<="}.get(type(op))
                    return None
                hval = herm
                for s in pre:
                    v = eval_bool(s.value, lambda n: base_atom(n, hval))
                    if v is None:
                        raise AnalysisError(R, f"cannot evaluate `{norm(s)}`")
                    hval = v
                heff = herm and diag
                want = (1, 1) if (heff and ordering == "<") else (0, 0) if (heff and ordering == ">") else (1, 0)
                paths = enum_paths(loop.body, lambda n: base_atom(n, hval))
                for p in paths:
                    plain = dag = 0
                    for ev in p.events:
                        if isinstance(ev, ast.Assign) and isinstance(ev.targets[0], ast.Name) and ev.targets[0].id == "result":
                            terms = _summands(ev.value)
                            if terms is None or "result" not in terms:
                                raise AnalysisError(R, f"unrecognised accumulation `{norm(ev)}`")
                            plain += terms.count("term")
                            dag += terms.count("Dagger(term)")
                            if len(terms) != 1 + terms.count("term") + terms.count("Dagger(term)"):
                                raise AnalysisError(R, f"unrecognised accumulation `{norm(ev)}`")
                        if isinstance(ev, ast.AugAssign) and norm(ev.target) == "result":
                            rep.fail(R, f"series::product_by_order accumulation `{norm(ev)}` is in place",
                                     "in-place accumulation mutates the first term (cached data)", repo.loc("series", ev))
                    free_skip = p.end == "continue" and any(free for _t, _v, free in p.choices[-1:])
                    n_checked += 1
                    if free_skip:
                        ok = (plain, dag) == (0, 0)
                        got = "skip of an absent/zero term after accumulating" if not ok else ""
                    elif p.end in ("continue", "fallthrough"):
                        ok = (plain, dag) == want
                        got = f"contributes (term, adjoint) = {(plain, dag)}, required {want}"
                    else:
                        raise AnalysisError(R, f"loop body path ends with {p.end}")
                    if not ok:
                        rep.fail(R, f"series::product_by_order E2.3 multiplicity hermitian={herm} start==end:{diag} orders_1st{ordering}orders_2nd: {got}",
                                 "Hermitian half-sum: pairs (o1<o2) count term + adjoint, o1=o2 once, o1>o2 skipped; "
                                 "non-Hermitian or off-diagonal blocks: every splitting exactly once",
                                 repo.loc("series", p.end_node or loop))
                expected[(herm, diag, ordering)] = want
    if not any(i.rule == R and i.status == "fail" and "E2.3" in i.key for i in rep.instances):
        rep.ok(R, "series::product_by_order E2.3 multiplicity table",
               f"12 environments x all syntactic loop-body paths ({n_checked}) give the required (term, adjoint) counts",
               repo.loc("series", loop))


def _summands(expr):
    out = []
    def go(e):
        if isinstance(e, ast.BinOp) and isinstance(e.op, ast.Add):
            go(e.left); go(e.right)
        else:
            out.append(norm(e))
    go(expr)
    return out


def _operator_order(rep, repo, f, loop, lb):
    R = RULE_P
    # names bound from the two loads
    bound = {}
    for n in lb:
        if isinstance(n, ast.NamedExpr) and isinstance(n.value, ast.Subscript) and isinstance(n.value.value, ast.Name):
            bound.setdefault(n.value.value.id, set()).add(n.target.id)
        if isinstance(n, ast.Assign) and isinstance(n.value, ast.Subscript) and isinstance(n.value.value, ast.Name) \
                and isinstance(n.targets[0], ast.Name):
            bound.setdefault(n.value.value.id, set()).add(n.targets[0].id)
    if len(bound.get("first", ())) != 1 or len(bound.get("second", ())) != 1:
        raise AnalysisError(R, f"cannot identify the names holding the factor values: {bound}")
    fv, sv = next(iter(bound["first"])), next(iter(bound["second"]))
    calls = [n for n in lb if isinstance(n, ast.Call) and call_name(n) == "operator"]
    rep.floor(R, "operator(...) applications", len(calls), 1)
    for c in calls:
        args = [norm(a) for a in c.args]
        ok = False
        detail = f"operator applied to {args}"
        if args == [fv, sv]:
            ok = True
        elif len(c.args) == 2 and all(isinstance(a, ast.Subscript) for a in c.args):
            base = {norm(a.value) for a in c.args}
            idx = [norm(a.slice) for a in c.args]
            if len(base) == 1 and idx == ["0", "1"]:
                lst = single_assign(lb, base.pop())
                if len(lst) == 1 and isinstance(lst[0].value, ast.ListComp):
                    lc = lst[0].value
                    src = lc.generators[0].iter
                    filt = lc.generators[0].ifs
                    ok = (isinstance(src, ast.Tuple) and [norm(e) for e in src.elts] == [fv, sv]
                          and norm(lc.elt) == norm(lc.generators[0].target)
                          and len(filt) == 1 and norm(filt[0]) == f"{norm(lc.generators[0].target)} is not one")
                    detail = f"values = `{norm(lc)}`; operator(values[0], values[1])"
        rep.check(ok, R, f"series::product_by_order `{norm(c)}` multiplies first-factor value by second-factor value",
                  detail + " (the identity sentinel `one` is filtered, order first then second)", repo.loc("series", c))


# ---------------------------------------------------------------------------
# E2.5 adjoint-fill index form
# ---------------------------------------------------------------------------


def rule_adjoint_fill(rep: Report, repo: Repo):
    R = "E2.adjoint_fill"
    sites = []
    cdp = repo.find("series::cauchy_dot_product", R)
    for d in nested_defs(cdp):
        if d.name == "eval":
            sites.append(("series", f"series::cauchy_dot_product::eval@{_ordinal(cdp, d)}", d, "product"))
    otb = repo.find("block_diagonalization::operator_to_BlockSeries", R)
    for d in nested_defs(otb):
        if d.name == "op_eval":
            sites.append(("block_diagonalization", "block_diagonalization::operator_to_BlockSeries::op_eval", d, "op"))
    rep.floor(R, "hand-written Hermitian fills", len(sites), 3)
    for mod, q, d, series_name in sites:
        fills = []
        for n in own_nodes(d):
            if isinstance(n, ast.If):
                def classify(a):
                    if isinstance(a, ast.Name) and a.id == "hermitian":
                        return ("hermitian", True)
                    if isinstance(a, ast.Compare) and len(a.ops) == 1:
                        l, r = _index_component(a.left, d), _index_component(a.comparators[0], d)
                        if {l, r} == {0, 1} and l is not None and r is not None:
                            op = a.ops[0]
                            if isinstance(op, ast.Gt):
                                return ("lower", True) if l == 0 else ("upper", True)
                            if isinstance(op, ast.Lt):
                                return ("upper", True) if l == 0 else ("lower", True)
                            if isinstance(op, ast.GtE):
                                return ("upper", False) if l == 0 else ("lower", False)
                            if isinstance(op, ast.LtE):
                                return ("lower", False) if l == 0 else ("upper", False)
                    return None
                try:
                    names, table = truth_table(n.test, classify)
                except AnalysisError:
                    continue
                if "lower" in names or "upper" in names:
                    fills.append((n, names, table))
        if not fills:
            rep.fail(R, f"{q}: no index-order test found", "Hermitian fill missing", repo.loc(mod, d))
            continue
        for n, names, table in fills:
            # the branch is taken only for strictly-lower blocks (and hermitian where that flag exists)
            true_rows = [dict(zip(names, v)) for v, r in table.items() if r is True]
            ok_cond = bool(true_rows) and all(
                row.get("lower", False) and not row.get("upper", False) for row in true_rows
            ) and ("upper" not in names)
            if "hermitian" in names:
                ok_cond = ok_cond and all(row["hermitian"] for row in true_rows)
            rep.check(ok_cond, R, f"{q} fill condition `{norm(n.test)}`",
                      "the adjoint fill applies to strictly lower blocks only (index[0] > index[1])", repo.loc(mod, n))
            ret = n.body[0] if n.body else None
            ok = isinstance(ret, ast.Return) and isinstance(ret.value, ast.Call) and call_name(ret.value) == "Dagger" \
                and len(ret.value.args) == 1 and isinstance(ret.value.args[0], ast.Subscript)
            if ok:
                sub = ret.value.args[0]
                ok = _swapped_index(sub.slice, d)
            rep.check(bool(ok), R, f"{q} fill value `{norm(ret) if ret else ''}`",
                      "lower block = Dagger(upper block at (index[1], index[0], same orders))", repo.loc(mod, n))
    adjoint_fill_compiler(rep, repo)


def adjoint_fill_compiler(rep: Report, repo: Repo):
    R = "E2.adjoint_fill"
    # generated `lower` branch of the compiler: the index form and the test text
    ap = repo.trees["algorithm_parsing"]
    et = repo.find("algorithm_parsing::_EvalType", R)
    tests = {}
    for n in et.body:
        if isinstance(n, ast.Assign) and isinstance(n.targets[0], ast.Name) and isinstance(n.value, ast.Tuple) \
                and len(n.value.elts) == 1 and isinstance(n.value.elts[0], ast.Constant):
            tests[n.targets[0].id] = n.value.elts[0].value
    want = {"diagonal": ("==",), "offdiagonal": ("!=",), "lower": (">",)}
    for name, ops in want.items():
        t = tests.get(name)
        ok = False
        if isinstance(t, str):
            try:
                e = ast.parse(t, mode="eval").body
                ok = isinstance(e, ast.Compare) and norm(e.left) == "index[0]" and norm(e.comparators[0]) == "index[1]" \
                    and {ast.Eq: "==", ast.NotEq: "!=", ast.Gt: ">"}.get(type(e.ops[0])) in ops
            except SyntaxError:
                ok = False
        rep.check(ok, R, f"algorithm_parsing::_EvalType.{name} test `{t}`",
                  f"index class `{name}` must be index[0] {ops[0]} index[1]", repo.loc("algorithm_parsing", et))
    idxf = repo.find("algorithm_parsing::_LiteralTransformer::_index", R)
    strs = [c.args[0].value for c in ast.walk(idxf) if isinstance(c, ast.Call) and call_name(c) == "ast.parse"
            and c.args and isinstance(c.args[0], ast.Constant) and isinstance(c.args[0].value, str)]
    ok = len(strs) == 1 and norm(ast.parse(strs[0], mode="eval").body) == SWAPPED
    rep.check(ok, R, "algorithm_parsing::_LiteralTransformer._index adjoint index form",
              f"generated adjoint index is `{strs}`; required {SWAPPED}", repo.loc("algorithm_parsing", idxf))


def _ordinal(parent, d):
    same = [x for x in nested_defs(parent) if x.name == d.name]
    return same.index(d)


def _index_component(e: ast.AST, func) -> int | None:
    """index[k] or a name unpacked from index[:2] -> k."""
    if isinstance(e, ast.Subscript) and isinstance(e.value, ast.Name) and e.value.id == "index" \
            and isinstance(e.slice, ast.Constant):
        return e.slice.value
    if isinstance(e, ast.Name):
        for n in own_nodes(func):
            if isinstance(n, ast.Assign) and isinstance(n.targets[0], ast.Tuple) and norm(n.value) == "index[:2]":
                names = [norm(x) for x in n.targets[0].elts]
                if e.id in names:
                    return names.index(e.id)
    return None


def _swapped_index(sl: ast.AST, func) -> bool:
    if not isinstance(sl, ast.Tuple) or len(sl.elts) != 3:
        return False
    a, b, c = sl.elts
    if _index_component(a, func) != 1 or _index_component(b, func) != 0:
        return False
    if not isinstance(c, ast.Starred):
        return False
    v = c.value
    if isinstance(v, ast.Call) and call_name(v) == "tuple" and len(v.args) == 1:
        v = v.args[0]
    return norm(v) == "index[2:]"


# ---------------------------------------------------------------------------
# cauchy_dot_product wiring (C18)
# ---------------------------------------------------------------------------


def rule_cauchy_wiring(rep: Report, repo: Repo):
    R = "E2.cauchy"
    f = repo.find("series::cauchy_dot_product", R)
    loc = lambda n: repo.loc("series", n)
    # >2 factors: left-association with the same operator, hermitian only on the outermost
    rec = [n for n in own_nodes(f) if isinstance(n, ast.Call) and call_name(n) == "cauchy_dot_product"]
    rep.floor(R, "recursive association calls", len(rec), 2)
    outer = [c for c in rec if any(isinstance(a, ast.Call) and call_name(a) == "cauchy_dot_product" for a in c.args)]
    inner = [c for c in rec if c not in outer]
    ok = len(outer) == 1 and len(inner) == 1
    if ok:
        o, i = outer[0], inner[0]
        ok = (len(i.args) == 1 and isinstance(i.args[0], ast.Starred) and norm(i.args[0].value) == "series[:2]"
              and len(o.args) == 2 and o.args[0] is i and isinstance(o.args[1], ast.Starred)
              and norm(o.args[1].value) == "series[2:]")
        kw_ok = all({k.arg: norm(k.value) for k in c.keywords}.get("operator") == "operator" for c in (o, i))
        herm_ok = all("hermitian" not in {k.arg for k in c.keywords} for c in (o, i))
        rep.check(ok, R, "series::cauchy_dot_product >2 factors: (A.B).rest covers all factors in order",
                  f"inner `{norm(i)}`, outer args `{[norm(a) for a in o.args[1:]]}`", loc(o))
        rep.check(kw_ok, R, "series::cauchy_dot_product >2 factors: same operator passed down", "", loc(o))
        rep.check(herm_ok, R, "series::cauchy_dot_product >2 factors: partial products are not declared hermitian",
                  "only the full product carries the Hermitian shortcut (via the fill wrapper)", loc(o))
    else:
        rep.fail(R, "series::cauchy_dot_product association structure", f"{len(outer)} outer / {len(inner)} inner calls", loc(f))
    # the >2 branch is taken exactly for len(series) > 2
    tests = [n for n in f.body if isinstance(n, ast.If) and "len(series)" in norm(n.test)]
    ok = len(tests) == 1 and norm(tests[0].test) in ("len(series) > 2", "len(series) >= 3", "2 < len(series)")
    rep.check(ok, R, "series::cauchy_dot_product association threshold", norm(tests[0].test) if tests else "missing", loc(f))
    # shape / dimension checks precede the construction
    conds = {norm(n.test): n for n in f.body if isinstance(n, ast.If) and n.body and isinstance(n.body[0], ast.Raise)}
    need = {
        "n_infinite": lambda t: "first.n_infinite" in t and "second.n_infinite" in t and "!=" in t,
        "inner blocks": lambda t: "first.shape[1]" in t and "second.shape[0]" in t and "!=" in t,
    }
    for what, pred in need.items():
        rep.check(any(pred(t) for t in conds), R, f"series::cauchy_dot_product rejects incompatible {what}", "", loc(f))
    # product shape
    ctor = [n for n in own_nodes(f) if isinstance(n, ast.Call) and call_name(n) == "BlockSeries"]
    ok = False
    for c in ctor:
        kw = {k.arg: norm(k.value) for k in c.keywords}
        if kw.get("shape") == "(first.shape[0], second.shape[1])" and kw.get("n_infinite") in ("first.n_infinite", "second.n_infinite"):
            ok = True
    rep.check(ok, R, "series::cauchy_dot_product result shape (first.shape[0], second.shape[1])", "", loc(f))
    # the 2-factor eval forwards index, factors, operator and flag unchanged
    evs = [d for d in nested_defs(f) if d.name == "eval"]
    fwd = [n for d in evs for n in own_nodes(d) if isinstance(n, ast.Call) and call_name(n) == "product_by_order"]
    ok = len(fwd) == 1
    if ok:
        c = fwd[0]
        a = [norm(x) for x in c.args]
        kw = {k.arg: norm(k.value) for k in c.keywords}
        ok = a[:3] == ["index", "first", "second"] and kw.get("operator") == "operator" and kw.get("hermitian") == "hermitian"
    rep.check(ok, R, "series::cauchy_dot_product eval forwards (index, first, second, operator, hermitian)",
              norm(fwd[0]) if fwd else "missing", loc(f))
    # first, second = series
    un = [n for n in f.body if isinstance(n, ast.Assign) and norm(n.value) == "series" and isinstance(n.targets[0], ast.Tuple)]
    ok = len(un) == 1 and [norm(e) for e in un[0].targets[0].elts] == ["first", "second"]
    rep.check(ok, R, "series::cauchy_dot_product factor order `first, second = series`", "", loc(f))
    # default operator is matmul in both functions
    for q in ("series::cauchy_dot_product", "series::product_by_order"):
        fn = repo.find(q, R)
        d = [n for n in fn.body if isinstance(n, ast.If) and norm(n.test) == "operator is None"]
        ok = len(d) == 1 and norm(d[0].body[0]) == "operator = matmul"
        rep.check(ok, R, f"{q} default operator is matmul", "", repo.loc("series", fn))


# ---------------------------------------------------------------------------
# E2.1  zero-at-order-0 inference and well-foundedness of the DSL programs
# ---------------------------------------------------------------------------


def rule_wellfounded(rep: Report, repo: Repo, programs=("main", "nonhermitian")):
    R = "E2.wellfounded"
    from .dsl import expr_refs

    for pname in programs:
        prog = read_program(repo.find(f"algorithms::{pname}", R))
        # may-be-nonzero-at-order-0: inputs and series with start 1 / "<input>_0"; start 0 -> zero
        nonzero0 = {}
        for n in prog.inputs():
            nonzero0[n] = True
        for s in prog.series.values():
            nonzero0[s.name] = s.start not in (0,)  # None (computed) treated as may-be-nonzero first
        # refine series without start: zero at order 0 if all its references are zero at order 0
        changed = True
        def prod_nonzero0(p):
            return all(nonzero0[t] for t in prog.products[p].terms)
        while changed:
            changed = False
            for s in prog.series.values():
                if s.start is None and nonzero0[s.name]:
                    refs = set().union(*(expr_refs(b.expr) for b in s.branches)) if s.branches else set()
                    if all((not prod_nonzero0(r)) if r in prog.products else (not nonzero0[r]) for r in refs):
                        nonzero0[s.name] = False
                        changed = True
        # same-order dependency graph
        edges = {}
        for s in prog.series.values():
            deps = set()
            for b in s.branches:
                for r in expr_refs(b.expr):
                    if r in prog.products:
                        terms = prog.products[r].terms
                        for k, t in enumerate(terms):
                            others = terms[:k] + terms[k + 1:]
                            # factor t is needed at the full order only if all other factors can be order 0
                            if all(nonzero0[o] for o in others):
                                deps.add(t)
                    else:
                        deps.add(r)
            edges[s.name] = deps
        # cycle detection
        state = {}
        cyc = []
        def dfs(n, stack):
            if state.get(n) == 1:
                cyc.append(stack[stack.index(n):] + [n])
                return
            if state.get(n) == 2:
                return
            state[n] = 1
            for m in sorted(edges.get(n, ())):
                dfs(m, stack + [n])
            state[n] = 2
        for n in sorted(edges):
            dfs(n, [])
        if cyc:
            for c in cyc:
                rep.fail(R, f"algorithms.py::{pname} same-order cycle {' -> '.join(c)}",
                         "a series element would depend on itself at the same order (RuntimeError at run time)",
                         repo.loc("algorithms", prog.series[c[0]].node))
        else:
            rep.ok(R, f"algorithms.py::{pname} same-order dependency graph is acyclic",
                   f"{len(edges)} series, {sum(len(v) for v in edges.values())} same-order edges; "
                   f"zero at order 0: {sorted(k for k, v in nonzero0.items() if not v)}",
                   repo.loc("algorithms", prog.node))
        # every output reaches the input only through defined series
        rep.ok(R, f"algorithms.py::{pname} inputs", f"{sorted(prog.inputs())}")
        # homogeneity typing (C13): every summand is a rational multiple of exactly one reference
        from .e1 import Evaluator
        n_terms = 0
        for s in prog.series.values():
            for b in s.branches:
                n_terms += _count_linear(b.expr, f"{pname}::{s.name}")
        rep.ok("E2.homogeneous", f"algorithms.py::{pname} every branch is linear in series/product references",
               f"{n_terms} summands; so element n of every series is homogeneous of degree n in the perturbation")


def _count_linear(e, where) -> int:
    k = e[0]
    if k == "ref":
        return 1
    if k == "zero":
        return 0
    if k == "num":
        raise AnalysisError("E2.homogeneous", f"{where}: constant summand breaks homogeneity")
    if k == "add":
        return sum(_count_linear(x, where) for x in e[1])
    if k == "neg":
        return _count_linear(e[1], where)
    if k == "scale":
        return _count_linear(e[2], where)
    if k == "call":
        if e[1] not in ("solve_sylvester", "diag", "offdiag"):
            raise AnalysisError("E2.homogeneous", f"{where}: scope function {e[1]} is not known to be linear")
        return sum(_count_linear(x, where) for x in e[2])
    if k == "ifexp":
        return _count_linear(e[2], where) + _count_linear(e[3], where)
    raise AnalysisError("E2.homogeneous", f"{where}: unknown expression kind {k}")
