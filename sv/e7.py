"""E7 -- Sylvester / Green's-function solver siblings (C16; clauses of C01, C06, C20).

Contract (C16):  T = solve_sylvester(Y, index)  satisfies  H0_i.T - T.H0_j = Y with
i = index[0], j = index[1];  T = Y (.) 1/(E_i[row] - E_j[col]),  0 where the energies coincide.
"""

from __future__ import annotations

import ast

from .cfg import CFG
from .core import AnalysisError, Repo, Report, call_name, dotted, nested_defs, norm, own_nodes

RULE = "E7"
MOD = "block_diagonalization"


# ---------------------------------------------------------------------------
# role analysis:  which eigenvalue set, varying along which axis
# ---------------------------------------------------------------------------


class Roles:
    def __init__(self, func: ast.FunctionDef, branch_stmts: list[ast.stmt], eigs_name: str):
        self.func = func
        self.eigs_name = eigs_name
        self.assign = {}
        for scope in (func.body, branch_stmts):
            for s in scope:
                for n in [s] if not isinstance(s, (ast.If, ast.With)) else (list(ast.walk(s)) if s in branch_stmts else []):
                    self._collect(n)
        for s in branch_stmts:
            for n in ast.walk(s):
                self._collect(n)

    def _collect(self, n):
        if isinstance(n, ast.Assign) and len(n.targets) == 1:
            t = n.targets[0]
            if isinstance(t, ast.Name):
                self.assign[t.id] = n.value
            elif isinstance(t, ast.Tuple) and isinstance(n.value, ast.Tuple) and len(t.elts) == len(n.value.elts):
                for a, b in zip(t.elts, n.value.elts):
                    if isinstance(a, ast.Name):
                        self.assign[a.id] = b

    def role(self, e: ast.AST, depth=0):
        """-> (origin, axis): origin in {'A','B',None}; axis in {'rows','cols','1d',None}."""
        if depth > 8:
            return (None, None)
        if isinstance(e, ast.Name):
            if e.id in self.assign:
                return self.role(self.assign[e.id], depth + 1)
            return (None, None)
        if isinstance(e, ast.Subscript):
            base = norm(e.value)
            if base == self.eigs_name:
                sl = norm(e.slice)
                if sl == "index[0]":
                    return ("A", "1d")
                if sl == "index[1]":
                    return ("B", "1d")
                return ("?", None)
            o, _ax = self.role(e.value, depth + 1)
            if o in ("A", "B"):
                sl = e.slice
                txt = norm(sl)
                coo = self._coo_names()
                for c in coo:
                    if txt == f"{c}.row":
                        return (o, "rows")
                    if txt == f"{c}.col":
                        return (o, "cols")
                return (o, "?")
            return (None, None)
        if isinstance(e, ast.Call):
            if isinstance(e.func, ast.Attribute) and e.func.attr == "reshape":
                o, _ = self.role(e.func.value, depth + 1)
                args = [norm(a) for a in e.args]
                if len(e.args) == 1 and isinstance(e.args[0], ast.Tuple):
                    args = [norm(a) for a in e.args[0].elts]
                if o in ("A", "B"):
                    if args == ["-1", "1"]:
                        return (o, "rows")
                    if args == ["1", "-1"]:
                        return (o, "cols")
                    return (o, "?")
            if call_name(e) in ("np.array", "np.asarray", "np.atleast_1d") and e.args:
                return self.role(e.args[0], depth + 1)
        if isinstance(e, ast.IfExp):
            a, b = self.role(e.body, depth + 1), self.role(e.orelse, depth + 1)
            if a[0] == b[0] and a[0] in ("A", "B"):
                axes = {a[1], b[1]} - {"1d"}
                return (a[0], axes.pop() if len(axes) == 1 else ("1d" if not axes else "?"))
        return (None, None)

    def _coo_names(self):
        out = []
        for k, v in self.assign.items():
            if isinstance(v, ast.Call) and isinstance(v.func, ast.Attribute) and v.func.attr == "tocoo":
                out.append(k)
        return out

    def resolve(self, e: ast.AST, depth=0):
        while isinstance(e, ast.Name) and e.id in self.assign and depth < 6:
            e = self.assign[e.id]
            depth += 1
        return e


def _branches(func: ast.FunctionDef):
    """Top-level `if` statements of the nested solver: (test, body)."""
    return [(s.test, s.body, s) for s in func.body if isinstance(s, ast.If)]


def rule_diagonal_solver(rep: Report, repo: Repo, complex_energies: bool = True):
    outer = repo.find(f"{MOD}::solve_sylvester_diagonal", RULE)
    inner = [d for d in nested_defs(outer) if d.name == "solve_sylvester"]
    if len(inner) != 1:
        raise AnalysisError(RULE, "nested solver of solve_sylvester_diagonal not found")
    f = inner[0]
    loc = lambda n: repo.loc(MOD, n)
    params = [a.arg for a in f.args.args]
    if params != ["Y", "index"]:
        raise AnalysisError(RULE, f"unexpected solver signature {params}")
    eigs_name = outer.args.args[0].arg
    # eigs_A, eigs_B = eigs[index[0]], eigs[index[1]]
    n_value_branches = 0
    for test, body, node in _branches(f):
        ttxt = norm(test)
        roles = Roles(f, body, eigs_name)
        # energy differences in this branch
        diffs = []
        for s in body:
            for n in ast.walk(s):
                if isinstance(n, ast.BinOp) and isinstance(n.op, ast.Sub):
                    lo, ro = roles.role(n.left), roles.role(n.right)
                    if lo[0] in ("A", "B") and ro[0] in ("A", "B"):
                        diffs.append((n, lo, ro))
        if not diffs:
            # a branch that returns without computing an energy difference itself must be a
            # recognised passthrough or a delegation to the solver whose denotation is the contract
            rets = [n for st in body for n in ast.walk(st) if isinstance(n, ast.Return)]
            if not rets or ttxt == "Y is zero":
                continue
            for r in rets:
                den = _delegation(r.value, f.name)
                inst = f"{MOD}::solve_sylvester_diagonal branch `if {ttxt[:50]}` returns `{norm(r.value)[:80]}`"
                if den is None:
                    raise AnalysisError(RULE, f"solver branch `if {ttxt[:60]}` returns a value by a route that is not understood")
                if den == "ok":
                    rep.ok(RULE, inst + " = Y (.) 1/(E_i[row] - E_j[col])", "delegation with the contract's kernel", loc(r))
                elif den == "Y (.) conj(K(i,j))" and not complex_energies:
                    rep.ok(RULE, inst + " = Y (.) conj(K(i,j))", "equal to the contract's kernel for the real energies of a Hermitian H_0 "
                           "(reported as a violation by the properties that cover complex energies: C05, C06, C16)", loc(r))
                else:
                    rep.fail(RULE, f"{MOD}::solve_sylvester_diagonal branch `if {ttxt[:50]}` returns `{norm(r.value)[:80]}` which denotes {den}",
                             "required Y (.) K(i,j) with K(i,j)[r,c] = 1/(E_i[r] - E_j[c]); note K(j,i) = -K(i,j)^T, so "
                             "-Dagger(solve(Dagger(Y), swapped)) = Y (.) conj(K(i,j)) is only right for real energies", loc(r))
            continue
        n_value_branches += 1
        kind = _branch_kind(ttxt)
        for n, lo, ro in diffs:
            ok = lo == ("A", "rows") and ro[0] == "B" and ro[1] in ("cols", "1d")
            inst = f"{MOD}::solve_sylvester_diagonal[{kind}] energy difference `{norm(n)}`"
            if ok:
                rep.ok(RULE, inst + " = E_i[row] - E_j[col]", f"roles {lo} - {ro}", loc(n))
            else:
                rep.fail(RULE, inst + f" has roles {lo} - {ro}",
                         "required E_{index[0]}[row] - E_{index[1]}[col] (contract H0_i.T - T.H0_j = Y)", loc(n))
        # reciprocals and their guards
        recips = []
        for s in body:
            for n in ast.walk(s):
                if _is_reciprocal(n, roles, [d[0] for d in diffs]):
                    recips.append(n)
        if not recips:
            rep.fail(RULE, f"{MOD}::solve_sylvester_diagonal[{kind}] no reciprocal of the energy difference found",
                     "the solution must be Y (.) 1/(E_i - E_j)", loc(node))
        reachable_diag = "vecs_implicit" not in ttxt
        for r in recips:
            g = _guard_of(r, roles, [d[0] for d in diffs])
            inst = f"{MOD}::solve_sylvester_diagonal[{kind}] reciprocal `{norm(r)}`"
            if not reachable_diag:
                rep.ok(RULE, inst + " (implicit block: never a diagonal block pair)", "no zero-guard required", loc(r))
            elif g is True:
                rep.ok(RULE, inst + " is guarded against coinciding energies", "degenerate pairs give 0, not inf/NaN", loc(r))
            else:
                rep.fail(RULE, f"{MOD}::solve_sylvester_diagonal[{kind}] reciprocal `{norm(r)}` unguarded against |E_i - E_j| <= atol",
                         "this branch is reachable with index[0] == index[1] (kept degenerate pairs of a fully-diagonalised "
                         "or masked block): 1/0 gives inf/NaN instead of 0" + (f"; {g}" if isinstance(g, str) else ""), loc(r))
        # sign / result form: no negation anywhere in the branch, Y multiplied by the denominators
        negs = [n for s in body for n in ast.walk(s) if isinstance(n, ast.UnaryOp) and isinstance(n.op, ast.USub)
                and not (isinstance(n.operand, ast.Constant))]
        rets = [n for s in body for n in ast.walk(s) if isinstance(n, ast.Return)]
        ok = not negs and len(rets) == 1 and _result_uses(rets[0].value, roles, recips, kind)
        rep.check(ok, RULE, f"{MOD}::solve_sylvester_diagonal[{kind}] result is +Y (.) denominators",
                  f"`{norm(rets[0].value) if rets else ''}`", loc(rets[0] if rets else node))
        # the quotient is returned as computed: no cast / rounding / real-part between the product and the return
        if rets:
            lossy = _lossy_ops(rets[0].value, roles)
            rep.check(not lossy, RULE, f"{MOD}::solve_sylvester_diagonal[{kind}] the quotient is returned without a lossy conversion",
                      ("found " + "; ".join(lossy) + ": Y / (E_i - E_j) is not representable in the dtype of an integer (or real) right-hand side")
                      if lossy else "no dtype=, astype, rounding or real/imag projection on the result path", loc(rets[0]))
    rep.floor(RULE, "value-type branches of the diagonal solver", n_value_branches, 5)
    # zero passthrough first
    first = f.body[0] if not (isinstance(f.body[0], ast.Expr) and isinstance(f.body[0].value, ast.Constant)) else f.body[1]
    ok = isinstance(first, ast.If) and norm(first.test) == "Y is zero" and norm(first.body[0]) == "return zero"
    rep.check(ok, RULE, f"{MOD}::solve_sylvester_diagonal absent right-hand side gives absent solution", "", loc(first))
    # unsupported types raise
    last = f.body[-1]
    rep.check(isinstance(last, ast.Raise) and "TypeError" in norm(last), RULE,
              f"{MOD}::solve_sylvester_diagonal unsupported right-hand-side type raises TypeError (total)", norm(last)[:60], loc(last))
    # eigs_A / eigs_B wiring
    roles = Roles(f, [], eigs_name)
    a, b = roles.assign.get("eigs_A"), roles.assign.get("eigs_B")
    ok = a is not None and b is not None and norm(a) == f"{eigs_name}[index[0]]" and norm(b) == f"{eigs_name}[index[1]]"
    rep.check(ok, RULE, f"{MOD}::solve_sylvester_diagonal eigs_A, eigs_B = eigs[index[0]], eigs[index[1]]",
              f"{norm(a) if a is not None else None}, {norm(b) if b is not None else None}", loc(f))


def _delegation(e: ast.AST, fname: str):
    """Denotation of an expression built from a recursive solver call by Dagger / .T / .conj() / negation.
    Returns 'ok', a description of the wrong kernel, or None if not understood."""
    st = None

    def go(x):
        nonlocal st
        if isinstance(x, ast.UnaryOp) and isinstance(x.op, ast.USub):
            r = go(x.operand)
            if r:
                st["sign"] *= -1
            return r
        if isinstance(x, ast.Call) and call_name(x) == "Dagger" and len(x.args) == 1:
            r = go(x.args[0])
            if r:
                for k in ("y_conj", "y_T", "k_conj", "k_T"):
                    st[k] = not st[k]
            return r
        if isinstance(x, ast.Attribute) and x.attr == "T":
            r = go(x.value)
            if r:
                st["y_T"], st["k_T"] = not st["y_T"], not st["k_T"]
            return r
        if isinstance(x, ast.Call) and isinstance(x.func, ast.Attribute) and x.func.attr in ("conj", "conjugate") and not x.args:
            r = go(x.func.value)
            if r:
                st["y_conj"], st["k_conj"] = not st["y_conj"], not st["k_conj"]
            return r
        if isinstance(x, ast.Call) and call_name(x) == fname and len(x.args) == 2:
            arg, idx = x.args
            y = {"y_conj": False, "y_T": False}
            a = arg
            while True:
                if isinstance(a, ast.Call) and call_name(a) == "Dagger" and len(a.args) == 1:
                    y["y_conj"], y["y_T"] = not y["y_conj"], not y["y_T"]
                    a = a.args[0]
                elif isinstance(a, ast.Attribute) and a.attr == "T":
                    y["y_T"] = not y["y_T"]
                    a = a.value
                elif isinstance(a, ast.Call) and isinstance(a.func, ast.Attribute) and a.func.attr in ("conj", "conjugate"):
                    y["y_conj"] = not y["y_conj"]
                    a = a.func.value
                else:
                    break
            if norm(a) != "Y":
                return False
            it = norm(idx)
            if it in ("index", "(index[0], index[1], *index[2:])"):
                pair = (0, 1)
            elif it in ("(index[1], index[0], *index[2:])", "(index[1], index[0]) + index[2:]", "(index[1], index[0]) + tuple(index[2:])"):
                pair = (1, 0)
            else:
                return False
            st = dict(sign=1, k_conj=False, k_T=False, pair=pair, **y)
            return True
        return False

    if not go(e) or st is None:
        return None
    if st["pair"] == (1, 0):  # K(j,i) = -K(i,j)^T
        st["sign"] *= -1
        st["k_T"] = not st["k_T"]
        st["pair"] = (0, 1)
    if st["y_conj"] or st["y_T"]:
        return f"a result built from {'conj' if st['y_conj'] else ''}{'^T' if st['y_T'] else ''}(Y) instead of Y"
    if st["sign"] == 1 and not st["k_conj"] and not st["k_T"]:
        return "ok"
    return f"{'-' if st['sign'] < 0 else ''}Y (.) {'conj' if st['k_conj'] else ''}(K(i,j)){'^T' if st['k_T'] else ''}"


def _branch_kind(t: str) -> str:
    if "vecs_implicit" in t and "index[1]" in t:
        return "right-implicit"
    if "vecs_implicit" in t and "index[0]" in t:
        return "left-implicit"
    if "np.ndarray" in t:
        return "dense"
    if "issparse" in t:
        return "sparse"
    if "sympy" in t:
        return "sympy"
    return t[:30]


def _is_diff(e, roles: Roles, diffs) -> bool:
    e = roles.resolve(e)
    return any(e is d for d in diffs)


def _is_reciprocal(n, roles, diffs) -> bool:
    if isinstance(n, ast.BinOp) and isinstance(n.op, ast.Div) and isinstance(n.left, ast.Constant) and n.left.value == 1:
        return _is_diff(n.right, roles, diffs)
    if isinstance(n, ast.BinOp) and isinstance(n.op, ast.Pow) and norm(n.right) in ("-1", "-1.0"):
        return _is_diff(n.left, roles, diffs)
    if isinstance(n, ast.Call) and call_name(n) == "np.reciprocal" and n.args:
        return _is_diff(n.args[0], roles, diffs)
    return False


def _guard_of(recip, roles, diffs):
    """True if the reciprocal is protected; else a short reason string/False."""
    p = getattr(recip, "_parent", None)
    # np.where(cond, recip, 0) / np.where(cond, 0, recip)
    cur, child = p, recip
    while cur is not None and not isinstance(cur, ast.stmt):
        if isinstance(cur, ast.Call) and call_name(cur) in ("np.where", "numpy.where") and len(cur.args) == 3:
            cond, a, b = cur.args
            pol = _nondegenerate_when_true(cond, roles, diffs)
            if pol is None:
                return f"condition `{norm(cond)}` of np.where is not a comparison of |E_i - E_j| with a tolerance"
            pos = 1 if child is a or any(x is recip for x in ast.walk(a)) else 2
            other = b if pos == 1 else a
            zero_other = isinstance(other, ast.Constant) and other.value == 0
            if (pos == 1) == pol and zero_other:
                return True
            return f"np.where arms are the wrong way round or the fallback is not 0: `{norm(cur)}`"
        # sympy: 1/(...) wrapped ... .subs(zoo, 0)
        if isinstance(cur, ast.Call) and isinstance(cur.func, ast.Attribute) and cur.func.attr in ("subs", "replace", "xreplace"):
            args = [norm(x) for x in cur.args]
            if len(args) == 2 and args[0] in ("sympy.zoo", "zoo") and args[1] in ("sympy.S.Zero", "0", "S.Zero", "sympy.Integer(0)"):
                if any(x is recip for x in ast.walk(cur.func.value)):
                    return True
        child, cur = cur, getattr(cur, "_parent", None)
    return False


def _nondegenerate_when_true(cond, roles, diffs):
    """np.abs(diff) > atol -> True ; np.abs(diff) <= atol -> False ; else None."""
    if isinstance(cond, ast.UnaryOp) and isinstance(cond.op, (ast.Invert, ast.Not)):
        r = _nondegenerate_when_true(cond.operand, roles, diffs)
        return None if r is None else not r
    if isinstance(cond, ast.Compare) and len(cond.ops) == 1:
        l, r, op = cond.left, cond.comparators[0], cond.ops[0]
        def is_abs_diff(x):
            return isinstance(x, ast.Call) and call_name(x) in ("np.abs", "abs", "np.absolute") and x.args and _is_diff(x.args[0], roles, diffs)
        def is_tol(x):
            return norm(x) in ("atol", "eigenvalue_atol") or (isinstance(x, ast.Constant) and isinstance(x.value, (int, float)) and x.value >= 0)
        if is_abs_diff(l) and is_tol(r):
            return {ast.Gt: True, ast.GtE: True, ast.Lt: False, ast.LtE: False}.get(type(op))
        if is_abs_diff(r) and is_tol(l):
            return {ast.Lt: True, ast.LtE: True, ast.Gt: False, ast.GtE: False}.get(type(op))
        if isinstance(op, ast.NotEq) and ((_is_diff(l, roles, diffs) and norm(r) == "0") or (_is_diff(r, roles, diffs) and norm(l) == "0")):
            return True
    return None


LOSSY_CALLS = {"np.round", "np.around", "np.rint", "np.floor", "np.ceil", "np.trunc", "np.fix", "int", "round", "np.real", "np.imag",
               "np.int64", "np.int32", "np.float32", "np.float16", "np.clip"}


def _lossy_ops(ret, roles: "Roles") -> list[str]:
    """Casts / rounding applied on the way from the computed quotient to the returned value."""
    out, stack, seen = [], [ret], set()
    while stack:
        n = stack.pop()
        if id(n) in seen:
            continue
        seen.add(id(n))
        if isinstance(n, ast.Name) and n.id in roles.assign and n.id not in ("Y", "eigs_A", "eigs_B"):
            stack.append(roles.assign[n.id])
        if isinstance(n, ast.Call):
            nm = call_name(n) or ""
            if any(k.arg == "dtype" for k in n.keywords):
                out.append(f"`dtype=` in `{norm(n)[:60]}`")
            if isinstance(n.func, ast.Attribute) and n.func.attr in ("astype", "round", "view"):
                out.append(f"`.{n.func.attr}(...)` in `{norm(n)[:60]}`")
            if nm in LOSSY_CALLS:
                out.append(f"`{nm}(...)`")
            # do not look inside index / eigenvalue preparation (np.array(eigs, dtype=object) is not on the result path)
            if nm in ("np.array", "np.asarray") and n.args and roles.role(n.args[0])[0] in ("A", "B"):
                out.pop() if out and "dtype=" in out[-1] else None
                continue
        if isinstance(n, ast.Attribute) and n.attr in ("real", "imag"):
            out.append(f"`.{n.attr}`")
        stack.extend(ast.iter_child_nodes(n))
    return sorted(set(out))


def _result_uses(ret, roles: Roles, recips, kind) -> bool:
    """The returned value is built from Y and the reciprocal denominators by element-wise product."""
    seen_recip, seen_y, seen_mult = False, False, False
    stack, visited = [ret], set()
    while stack:
        n = stack.pop()
        if id(n) in visited:
            continue
        visited.add(id(n))
        if any(n is r for r in recips):
            seen_recip = True
        if isinstance(n, ast.Name):
            if n.id == "Y":
                seen_y = True
            r = roles.assign.get(n.id)
            if r is not None:
                stack.append(r)
        if isinstance(n, ast.BinOp) and isinstance(n.op, ast.Mult):
            seen_mult = True
        if isinstance(n, ast.Call) and isinstance(n.func, ast.Attribute) and n.func.attr in ("multiply_elementwise", "multiply"):
            seen_mult = True
        stack.extend(ast.iter_child_nodes(n))
    return seen_recip and seen_y and seen_mult


# ---------------------------------------------------------------------------
# shared-eigenvalue check (C20) precedes every division
# ---------------------------------------------------------------------------


def rule_shared_eigenvalue_check(rep: Report, repo: Repo):
    R = "E7.shared"
    outer = repo.find(f"{MOD}::solve_sylvester_diagonal", R)
    f = [d for d in nested_defs(outer) if d.name == "solve_sylvester"][0]
    loc = lambda n: repo.loc(MOD, n)
    g = CFG(f)
    raises = [n for n in g.nodes if isinstance(n.ast, ast.Raise) and "ValueError" in norm(n.ast) and "share" in norm(n.ast)]
    if len(raises) != 1:
        rep.fail(R, f"{MOD}::solve_sylvester_diagonal shared-eigenvalue rejection missing",
                 f"found {len(raises)} `raise ValueError(... share eigenvalues ...)`", loc(f))
        return
    rz = raises[0]
    # the test that guards the raise
    guards = [(p, k) for p, k in g.pred[rz.id]]
    ok = len(guards) == 1 and guards[0][1] == "t"
    tnode = g.nodes[guards[0][0]] if guards else None
    cmp_ok = False
    if ok and tnode is not None:
        t = tnode.ast
        # np.any(compare(eigs_A.reshape(-1, 1), eigs_B.reshape(1, -1)))
        if isinstance(t, ast.Call) and call_name(t) in ("np.any", "any") and t.args and isinstance(t.args[0], ast.Call):
            c = t.args[0]
            encl = [s for s in f.body if isinstance(s, ast.If) and any(x is rz.ast for x in ast.walk(s))]
            roles = Roles(f, encl[0].body if encl else [], outer.args.args[0].arg)
            if len(c.args) == 2:
                ra, rb = roles.role(c.args[0]), roles.role(c.args[1])
                cmp_ok = {ra[0], rb[0]} == {"A", "B"} and {ra[1], rb[1]} == {"rows", "cols"}
                fn = norm(c.func)
                sel = roles.assign.get(fn)
                fns = {fn} if sel is None else {norm(x) for x in ast.walk(sel) if isinstance(x, ast.Attribute)}
                cmp_ok = cmp_ok and fns <= {"np.equal", "np.isclose", "sympy.MatrixBase"} and bool(fns & {"np.equal", "np.isclose"})
    rep.check(ok and cmp_ok, R, f"{MOD}::solve_sylvester_diagonal compares every eigenvalue of block i with every eigenvalue of block j",
              norm(tnode.ast) if tnode is not None else "missing", loc(rz.ast))
    # outer guard: offdiagonal pair not yet checked
    outer_if = [s for s in f.body if isinstance(s, ast.If) and any(x is rz.ast for x in ast.walk(s))]
    cond_ok = False
    if outer_if:
        from .paths import truth_table
        def classify(a):
            t = norm(a)
            if t == "index[0] != index[1]":
                return ("offdiag", True)
            if t == "index[0] == index[1]":
                return ("offdiag", False)
            if t == "index[:2] not in index_checked":
                return ("unchecked", True)
            if t == "index[:2] in index_checked":
                return ("unchecked", False)
            return None
        try:
            names, table = truth_table(outer_if[0].test, classify)
            rows = {tuple(zip(names, v)): r for v, r in table.items()}
            cond_ok = all(r == (dict(k).get("offdiag", True) and dict(k).get("unchecked", True)) for k, r in rows.items()) \
                and "offdiag" in names
        except AnalysisError:
            cond_ok = False
    rep.check(cond_ok, R, f"{MOD}::solve_sylvester_diagonal check runs for every not-yet-checked off-diagonal block pair",
              norm(outer_if[0].test) if outer_if else "missing", loc(outer_if[0] if outer_if else f))
    # memo add only after passing (no path from function entry to `add` that skips the test's false edge)
    adds = [n for n in g.nodes if n.ast is not None and isinstance(n.ast, ast.Expr) and isinstance(n.ast.value, ast.Call)
            and norm(n.ast.value.func) == "index_checked.add"]
    ok = bool(adds) and tnode is not None and all(g.dominated_by_edge(a.id, tnode.id, "f") for a in adds)
    rep.check(ok, R, f"{MOD}::solve_sylvester_diagonal a block pair is memoised as checked only after passing the check",
              "an exception must not leave the pair marked as checked", loc(adds[0].ast if adds else f))
    # the check dominates every division on off-diagonal pairs: every reciprocal node is after the check statement
    check_stmt = outer_if[0] if outer_if else None
    if check_stmt is not None:
        pos = f.body.index(check_stmt)
        later = [s for s in f.body[:pos] if any(isinstance(n, ast.BinOp) and isinstance(n.op, ast.Div) for n in ast.walk(s))]
        rep.check(not later, R, f"{MOD}::solve_sylvester_diagonal no division precedes the shared-eigenvalue check", "", loc(check_stmt))


# ---------------------------------------------------------------------------
# direct solver and Green's function
# ---------------------------------------------------------------------------


def rule_direct_solver(rep: Report, repo: Repo):
    R = "E7.direct"
    outer = repo.find(f"{MOD}::solve_sylvester_direct", R)
    loc = lambda n: repo.loc(MOD, n)
    f = [d for d in nested_defs(outer) if d.name == "solve_sylvester"]
    if len(f) != 1:
        raise AnalysisError(R, "nested solver of solve_sylvester_direct not found")
    f = f[0]
    # the two grouped_greens_functions constructions
    asg = {}
    for s in own_nodes(outer):
        if isinstance(s, ast.Assign) and isinstance(s.targets[0], ast.Name):
            asg[s.targets[0].id] = s.value
    # grouped_greens_functions: kernel args routed, conj under flag, energy = group representative
    from .e7b import _greens_grouping_helper
    gg = _greens_grouping_helper(repo, outer)
    if len(gg) == 1:
        from .paths import enum_paths
        from .resolve import rtext, run_block
        # innermost loop over degenerate groups
        from .resolve import env_at as _ea7, resolved as _res7
        ZIPPED = ["eigenvalues", "right_kernel_subspaces", "left_kernel_subspaces"]
        OPN, FLAG = "operator", "conjugate_kernel"
        host = gg[0]
        loops = [n for n in ast.walk(host) if isinstance(n, ast.For) and "_group_close_energies" in norm(_res7(n.iter, _ea7(n, host)))]
        if not loops:
            # the per-subspace work may live in a helper called once per (energies, right kernels, left kernels) of a subspace
            from .sem import bind_args as _bind7
            helpers = [d for d in nested_defs(outer) if d is not gg[0] and any(
                isinstance(n, ast.For) and "_group_close_energies" in norm(_res7(n.iter, _ea7(n, d))) for n in ast.walk(d))]
            calls = [c for c in ast.walk(gg[0]) if isinstance(c, ast.Call) and helpers and call_name(c) == helpers[0].name]
            if len(helpers) != 1 or len(calls) != 1:
                raise AnalysisError(R, "grouped_greens_functions: loop over energy groups not found")
            host = helpers[0]
            comp = getattr(calls[0], "_parent", None)
            if not (isinstance(comp, (ast.ListComp, ast.GeneratorExp)) and comp.elt is calls[0] and len(comp.generators) == 1
                    and not comp.generators[0].ifs and isinstance(comp.generators[0].target, ast.Tuple) and len(comp.generators[0].target.elts) == 3
                    and isinstance(comp.generators[0].iter, ast.Call) and call_name(comp.generators[0].iter) == "zip"
                    and [norm(a) for a in comp.generators[0].iter.args] == ZIPPED):
                raise AnalysisError(R, "grouped_greens_functions: the per-subspace helper is not applied over zip(energies, right kernels, left kernels)")
            rts = [n for n in own_nodes(gg[0]) if isinstance(n, ast.Return)]
            if len(rts) != 1 or rts[0].value is not comp and not (isinstance(rts[0].value, ast.Call) and call_name(rts[0].value) == "list" and rts[0].value.args[0] is comp):
                raise AnalysisError(R, "grouped_greens_functions: does not return the list of per-subspace results")
            b7 = _bind7(host, calls[0])
            if b7 is None:
                raise AnalysisError(R, "grouped_greens_functions: the call of the per-subspace helper cannot be bound")
            tnames = [norm(e) for e in comp.generators[0].target.elts]
            inv = {norm(v): k for k, v in b7.items()}
            if not all(t in inv for t in tnames) or "operator" not in inv or "conjugate_kernel" not in inv:
                raise AnalysisError(R, "grouped_greens_functions: the per-subspace helper does not receive the subspace data, the operator and the flag")
            EN, RK, LK = (inv[t] for t in tnames)
            OPN, FLAG = inv["operator"], inv["conjugate_kernel"]
            loops = [n for n in ast.walk(host) if isinstance(n, ast.For) and "_group_close_energies" in norm(_res7(n.iter, _ea7(n, host)))]
            # the helper returns one entry per state: a list filled at the positions of each group
            ol = None
        if len(loops) != 1:
            raise AnalysisError(R, "grouped_greens_functions: loop over energy groups not found")
        gl = loops[0]
        gl_iter = _res7(gl.iter, _ea7(gl, host))
        if host is gg[0]:
            # the enclosing loop gives the names of (energies, right kernel basis, left kernel basis) of one subspace
            ol = getattr(gl, "_parent", None)
            if not (isinstance(ol, ast.For) and isinstance(ol.target, ast.Tuple) and len(ol.target.elts) == 3 and isinstance(ol.iter, ast.Call)
                    and call_name(ol.iter) == "zip" and [norm(a) for a in ol.iter.args] == ZIPPED):
                raise AnalysisError(R, "grouped_greens_functions: loop over (energies, right kernels, left kernels) of the subspaces not understood")
            EN, RK, LK = (norm(e) for e in ol.target.elts)
        # the group variable: the loop target itself, or the zip component that iterates the groups
        if isinstance(gl.target, ast.Name):
            GRP, grp_iter = gl.target.id, gl_iter
        elif isinstance(gl.target, ast.Tuple) and isinstance(gl_iter, ast.Call) and call_name(gl_iter) == "zip" \
                and len(gl_iter.args) == len(gl.target.elts):
            cand = [(t, a) for t, a in zip(gl.target.elts, gl_iter.args) if "_group_close_energies" in norm(a) and isinstance(t, ast.Name)]
            if len(cand) != 1:
                raise AnalysisError(R, "grouped_greens_functions: which loop variable is the energy group is not clear")
            GRP, grp_iter = cand[0][0].id, cand[0][1]
        else:
            raise AnalysisError(R, "grouped_greens_functions: loop over energy groups not understood")
        ok_iter = norm(grp_iter) == f"_group_close_energies({EN}, eigenvalue_atol)"
        rep.check(ok_iter, R, f"{MOD}::solve_sylvester_direct::grouped_greens_functions groups the block's energies with eigenvalue_atol", norm(grp_iter), loc(gl))
        for flag in (True, False):
            def atom(n, flag=flag):
                t = norm(n)
                if t == FLAG:
                    return flag
                if t == f"not {FLAG}":
                    return not flag
                return None
            paths = [p for p in enum_paths(gl.body, atom) if p.end == "fallthrough"]
            for p in paths:
                stmts = [e for e in p.events if isinstance(e, ast.stmt)]
                env = run_block(stmts)
                calls = [c for st in stmts for c in ast.walk(st) if isinstance(c, ast.Call) and call_name(c) == "direct_greens_function"]
                if len(calls) != 1:
                    raise AnalysisError(R, "grouped_greens_functions: expected one direct_greens_function call per path")
                c = calls[0]
                args = [rtext(a, env) for a in c.args]
                kw = {k.arg: rtext(k.value, env) for k in c.keywords if k.arg}
                cj = ".conj()" if flag else ""
                want_k = f"{RK}[:, {GRP}]{cj}"
                want_l = f"{LK}[:, {GRP}]{cj}"
                tag = "transposed problem (conjugated kernels)" if flag else "direct problem"
                ok = args[:2] == [OPN, f"{EN}[{GRP}[0]]"]
                inst = f"{MOD}::solve_sylvester_direct::grouped_greens_functions [{tag}] Green's function of `operator` at the group's own energy"
                if ok:
                    rep.ok(R, inst, f"energy argument resolves to {args[1]}", loc(c))
                else:
                    rep.fail(R, f"{MOD}::solve_sylvester_direct::grouped_greens_functions [{tag}] calls direct_greens_function({', '.join(args[:2])}, ...)",
                             "the transposed problem (E - H_0^T) x^T = y^T has conjugated kernel vectors but the SAME energy E "
                             f"(transpose, not adjoint); required arguments: operator, {EN}[{GRP}[0]]", loc(c))
                okk = kw.get("kernel_vectors") == want_k and kw.get("left_kernel_vectors") == want_l
                rep.check(okk, R, f"{MOD}::solve_sylvester_direct::grouped_greens_functions [{tag}] kernel vectors are the group's columns"
                          + (", conjugated" if flag else ""), f"kernel={kw.get('kernel_vectors')}, left={kw.get('left_kernel_vectors')}", loc(c))
    else:
        raise AnalysisError(R, "grouped_greens_functions not found")
    from .e7b import rule_direct_wiring
    rule_direct_wiring(rep, repo)


def _rule_pivot_choice(rep: Report, repo: Repo, R: str):
    """Replacing the equations of rows p_1..p_k by x[p] = 0 fixes the gauge only if the k x k submatrix of the kernel vectors on
    those rows is invertible.  The shipped choice -- the first k column pivots of a pivoted QR factorisation of K^T -- guarantees
    that; a choice made row by row (the rows of largest norm, ...) does not: such rows can be parallel."""
    from .e9 import _import_origin
    from .resolve import resolved as _res
    from .sem import Scope as _Scope, canon as _canon, outcomes as _outcomes
    f = repo.find("linalg::_kernel_pivot_rows", R)
    where = repo.loc("linalg", f)
    if len(f.args.args) != 1:
        raise AnalysisError(R, "_kernel_pivot_rows: expected one parameter (the kernel vectors)")
    KV = f.args.args[0].arg
    K = f"{KV}.shape[1]"
    verdicts = []
    from .e2c import _const_eval
    from .paths import eval_bool
    n_alias = {K}
    for st in f.body:  # `n = kernel_vectors.shape[1]`
        if isinstance(st, ast.Assign) and isinstance(st.targets[0], ast.Name) and norm(st.value) == K:
            n_alias.add(st.targets[0].id)
    for kval in (0, 1, 2, 3):
        empty = kval == 0

        def atom(n, kval=kval):
            t = _canon(n)
            if norm(t) in n_alias:
                return kval != 0
            if norm(t) == f"{KV}.size == 0":
                return kval == 0
            return _const_eval(t, {k_: kval for k_ in n_alias})
        for o in _outcomes(f.body, _Scope(repo.trees["linalg"], f), env={}, atom=atom, expand=False):
            if o.kind != "return" or o.value is None:
                raise AnalysisError(R, "_kernel_pivot_rows: path without a returned value")
            undecided = [norm(t)[:50] for t, _p in o.conds if eval_bool(t, atom) is None]
            if undecided:
                raise AnalysisError(R, f"_kernel_pivot_rows: condition `{undecided[0]}` not understood")
            v = o.value
            if empty:
                ok = norm(v) in ("np.array([], dtype=int)", "np.empty(0, dtype=int)", "np.zeros(0, dtype=int)", "np.arange(0)")
                if not ok:
                    # the general expression is fine for an empty kernel too if it is the understood QR form
                    pass
                else:
                    verdicts.append(("empty", True, norm(v)))
                    continue
            if isinstance(v, ast.Call) and call_name(v) == "np.sort" and len(v.args) == 1:
                v = v.args[0]
            if kval == 1:
                # one kernel vector: any row on which it does not vanish will do; the row of largest MAGNITUDE is safe, the row of
                # the largest component is not (a vector with no sizable positive component)
                inner = v
                if isinstance(inner, ast.Call) and call_name(inner) in ("np.array", "np.asarray") and inner.args and isinstance(inner.args[0], (ast.List, ast.Tuple)) \
                        and len(inner.args[0].elts) == 1:
                    inner = inner.args[0].elts[0]
                if isinstance(inner, ast.Call) and call_name(inner) in ("np.argmax", "np.argmin") and len(inner.args) == 1:
                    a0 = inner.args[0]
                    has_abs = isinstance(a0, ast.Call) and call_name(a0) in ("np.abs", "abs", "np.absolute") and len(a0.args) == 1
                    vec = a0.args[0] if has_abs else a0
                    if norm(vec) not in (f"{KV}[:, 0]", f"{KV}.ravel()", f"{KV}.flatten()", f"{KV}[:, 0].ravel()", f"{KV}.reshape(-1)"):
                        raise AnalysisError(R, f"_kernel_pivot_rows: single-vector pivot `{norm(o.value)[:80]}` not understood")
                    ok1 = has_abs and call_name(inner) == "np.argmax"
                    verdicts.append(("single", ok1, f"k = 1: `{norm(inner)[:70]}`" + ("" if ok1 else
                                     ": the row of the largest (smallest) component, not of the largest magnitude; that component can vanish")))
                    continue
            if not (isinstance(v, ast.Subscript) and isinstance(v.slice, ast.Slice) and v.slice.lower is None and v.slice.step is None
                    and v.slice.upper is not None and norm(v.slice.upper) in n_alias):
                if isinstance(v, ast.Subscript) and isinstance(v.slice, ast.Slice) and v.slice.upper is None and v.slice.lower is not None \
                        and norm(v.slice.lower) in {f"-{a_}" for a_ in n_alias}:
                    pass  # the last k of a ranking
                else:
                    raise AnalysisError(R, f"_kernel_pivot_rows: selection `{norm(o.value)[:90]}` is not `<ranking>[:k]` with k = number of kernel vectors")
            src = v.value
            if isinstance(src, ast.Subscript) and norm(src.slice) == "2" and isinstance(src.value, ast.Call) and call_name(src.value) in ("qr", "scipy.linalg.qr", "linalg.qr"):
                q = src.value
                kw = {k_.arg: norm(k_.value) for k_ in q.keywords}
                arg = norm(_canon(q.args[0])) if q.args else ""
                origin = _import_origin(repo.trees["linalg"], "qr") if call_name(q) == "qr" else ("scipy.linalg", "qr")
                ok = kw.get("pivoting") == "True" and arg in (f"{KV}.T", f"{KV}.conj().T") and origin == ("scipy.linalg", "qr") \
                    and isinstance(v.slice, ast.Slice) and v.slice.lower is None
                verdicts.append(("qr", ok, f"qr({arg}, {kw})[2][:{K}]" + ("" if origin == ("scipy.linalg", "qr") else f" with qr from {origin}")))
            elif isinstance(src, ast.Call) and call_name(src) in ("np.argsort", "np.argpartition") and src.args \
                    and any((isinstance(n_, ast.keyword) and n_.arg == "axis" and norm(n_.value) == "1") for n_ in ast.walk(src.args[0])) \
                    and any(isinstance(n_, ast.Name) and n_.id == KV for n_ in ast.walk(src.args[0])):
                verdicts.append(("score", False, f"rows ranked one by one by `{norm(src.args[0])[:60]}`: the chosen rows of the kernel can be linearly dependent"))
            else:
                raise AnalysisError(R, f"_kernel_pivot_rows: ranking `{norm(src)[:90]}` is neither a pivoted QR of K^T nor a per-row score")
    bad = [d for _k, ok, d in verdicts if not ok]
    rep.check(bool(verdicts) and not bad, R, "linalg::_kernel_pivot_rows the pivot rows carry an invertible k x k submatrix of the kernel (first k column pivots of a pivoted QR of K^T; for k = 1 the row of largest magnitude)",
              "; ".join(bad) if bad else "; ".join(d for _k, _ok, d in verdicts), where)


def rule_greens_function(rep: Report, repo: Repo):
    R = "E7.greens"
    outer = repo.find("linalg::direct_greens_function", R)
    loc = lambda n: repo.loc("linalg", n)
    f = [d for d in nested_defs(outer) if d.name == "greens_function"]
    if len(f) != 1:
        raise AnalysisError(R, "greens_function closure not found")
    f = f[0]
    if any(isinstance(c, ast.Call) and isinstance(c.func, ast.Name) and c.func.id not in ("solve",) and
           any(d.name == c.func.id for d in nested_defs(outer)) for c in ast.walk(f)):
        # the closure calls a sibling helper (e.g. one that solves the two parts): look at it with such helpers seen through
        outer_x = repo.find_expanded("linalg::direct_greens_function", R)
        fx = [d for d in nested_defs(outer_x) if d.name == "greens_function"]
        if len(fx) == 1:
            f = fx[0]
    param = f.args.args[0].arg
    # The closure is evaluated symbolically in the four cases (right-hand side complex?, factorisation complex?); what it
    # returns is compared, as an expression tree, with  P @ solve(Z)  resp.  P @ (solve(Z.real) + 1j * solve(Z.imag)),
    # Z = the projected right-hand side with the pivot rows set to zero.
    from .straight import run as _run, setitem as _setitem
    PV = f"kernel_projector @ {param}"

    def rhs_form(e):
        """How a solve() argument is made from the right-hand side `param`: 'ok' = P @ v with the pivot rows zeroed afterwards,
        'no-zero', 'zero-first', 'no-projection'; None if it is something else.  Copies are transparent."""
        def peel(x):
            zeroed = False
            while True:
                if isinstance(x, ast.Call) and isinstance(x.func, ast.Attribute) and x.func.attr == "copy" and not x.args:
                    x = x.func.value
                elif isinstance(x, ast.Call) and call_name(x) in ("np.array", "np.asarray", "np.copy") and len(x.args) == 1:
                    x = x.args[0]
                elif isinstance(x, ast.Call) and call_name(x) == "_setitem" and norm(x.args[1]) == "pivot_rows" and norm(x.args[2]) in ("0", "0.0"):
                    zeroed, x = True, x.args[0]
                else:
                    return x, zeroed
        x, zero_after = peel(e)
        if isinstance(x, ast.BinOp) and isinstance(x.op, ast.MatMult) and norm(x.left) == "kernel_projector":
            y, zero_before = peel(x.right)
            if isinstance(y, ast.Name) and y.id == param:
                return "ok" if zero_after else ("zero-first" if zero_before else "no-zero")
            return None
        if isinstance(x, ast.Name) and x.id == param:
            return "no-projection"
        return None

    def strip_part(e):
        return e.value if isinstance(e, ast.Attribute) and e.attr in ("real", "imag") else e

    results = {}
    for rhs_complex in (False, True):
        for fact_complex in (False, True):
            def atom(n, rhs_complex=rhs_complex, fact_complex=fact_complex):
                if norm(n) == "is_complex":
                    return fact_complex
                if isinstance(n, ast.Call) and call_name(n) == "np.iscomplexobj" and len(n.args) == 1:
                    if rhs_form(strip_part(n.args[0])) is not None:
                        return rhs_complex
                    if norm(n.args[0]) == "mat.data":
                        return fact_complex
                return None
            results[(rhs_complex, fact_complex)] = _run(f, atom, R)
    n_solve = 0
    flaws = {"projection": set(), "pivot": set(), "range": set(), "split": set()}
    for (rhs_complex, fact_complex), t in results.items():
        case = f"rhs {'complex' if rhs_complex else 'real'}, factorisation {'complex' if fact_complex else 'real'}"
        calls = [c for c in ast.walk(t) if isinstance(c, ast.Call) and call_name(c) == "solve"]
        n_solve += len(calls)
        if not calls:
            raise AnalysisError(R, f"greens_function [{case}]: the result `{norm(t)[:80]}` does not call the factorised solve")
        for c in calls:
            if len(c.args) != 1 or c.keywords:
                raise AnalysisError(R, f"greens_function: call `{norm(c)[:60]}` not understood")
            form = rhs_form(strip_part(c.args[0]))
            if form is None:
                raise AnalysisError(R, "greens_function: the argument of `solve` could not be traced to the projected right-hand side: "
                                       f"`{norm(c.args[0])[:90]}`")
            if form == "no-projection":
                flaws["projection"].add(f"[{case}] solve({norm(c.args[0])[:60]})")
            elif form in ("no-zero", "zero-first"):
                flaws["pivot"].add(f"[{case}] solve({norm(c.args[0])[:70]}): " + ("pivot rows not zeroed" if form == "no-zero" else
                                                                               "pivot rows zeroed before the projection, which fills them again"))
        if not (isinstance(t, ast.BinOp) and isinstance(t.op, ast.MatMult) and norm(t.left) == "kernel_projector"):
            flaws["range"].add(f"[{case}] returns `{norm(t)[:80]}`")
            continue
        sol = t.right
        args = [norm(c.args[0]) for c in calls]
        bases = {norm(strip_part(c.args[0])) for c in calls}
        if len(bases) != 1:
            raise AnalysisError(R, f"greens_function [{case}]: solves of different right-hand sides {sorted(bases)}")
        B = bases.pop()
        Bn = ast.parse(B, mode="eval").body
        single = f"solve({B})"
        re_, im_ = (norm(ast.Call(func=ast.Name(id="solve", ctx=ast.Load()), args=[ast.Attribute(value=Bn, attr=a_, ctx=ast.Load())], keywords=[]))
                    for a_ in ("real", "imag"))
        split_forms = (f"{re_} + 1j * {im_}", f"{re_} + {im_} * 1j", f"1j * {im_} + {re_}", f"{im_} * 1j + {re_}")
        want_split = rhs_complex and not fact_complex
        got = norm(sol)
        if got == single:
            kind = "single"
        elif got in split_forms:
            kind = "split"
        elif all(a_ in (B, re_[6:-1], im_[6:-1]) for a_ in args):
            kind = "other"  # the right solves, combined in another way
        else:
            raise AnalysisError(R, f"greens_function [{case}]: solution `{got[:90]}` not understood")
        if kind != ("split" if want_split else "single"):
            flaws["split"].add(f"[{case}] solution is `{got[:90]}`; expected " +
                               ("solve(re) + 1j * solve(im)" if want_split else "one solve of the right-hand side"))
    rep.floor(R, "calls of the factorised solve", n_solve, 4)
    rep.check(not flaws["projection"], R, "linalg::direct_greens_function::greens_function projects the right-hand side before the solve",
              "; ".join(sorted(flaws["projection"])) or f"(E - H) x = P v: every solve() argument derives from `{PV}`, in all four cases", loc(f))
    rep.check(not flaws["pivot"], R, "linalg::direct_greens_function::greens_function zeroes the pivot rows after projecting and before the solve",
              "; ".join(sorted(flaws["pivot"])) or "the constrained equations x[pivot] = 0 need a zero right-hand side", loc(f))
    rep.check(not flaws["range"], R, "linalg::direct_greens_function::greens_function returns the solution projected onto range(P)",
              "; ".join(sorted(flaws["range"])), loc(f))
    rep.check(not flaws["split"], R,
              "linalg::direct_greens_function::greens_function complex right-hand side with a real factorisation: solve real and imaginary parts, recombine as re + i*im",
              "; ".join(sorted(flaws["split"])) or "split exactly for (rhs complex, factorisation real)", loc(f))
    # `is_complex` is what the factorisation is: complex iff the constrained matrix has complex entries
    ic = [n for n in own_nodes(outer) if isinstance(n, ast.Assign) and norm(n.targets[0]) == "is_complex"]
    if ic:
        rep.check(len(ic) == 1 and norm(ic[0].value) in ("np.iscomplexobj(mat.data)", "np.iscomplexobj(mat)"), R,
                  "linalg::direct_greens_function `is_complex` tells whether the factorised matrix is complex", norm(ic[0].value), loc(ic[0]))
    # matrix orientation E - H, projector arguments
    mats = [n for n in own_nodes(outer) if isinstance(n, ast.Assign) and norm(n.targets[0]) == "mat"]
    ok = bool(mats) and isinstance(mats[0].value, ast.BinOp) and isinstance(mats[0].value.op, ast.Sub) and norm(mats[0].value.right) == "h" \
        and norm(mats[0].value.left).startswith("E * ")
    rep.check(ok, R, "linalg::direct_greens_function builds E*1 - H", norm(mats[0].value)[:60] if mats else "", loc(outer))
    ok = len(mats) == 2 and norm(mats[1].value) == "_constrain_matrix(mat, pivot_rows)"
    rep.check(ok, R, "linalg::direct_greens_function constrains the pivot equations of E - H", "", loc(outer))
    kp = [n for n in own_nodes(outer) if isinstance(n, ast.Assign) and norm(n.targets[0]) == "kernel_projector"]
    ok = len(kp) == 1 and norm(kp[0].value) in ("ComplementProjector(kernel_vectors, left_kernel_vectors)",
                                                "ComplementProjector(vecs=kernel_vectors, left_vecs=left_kernel_vectors)",
                                                "ComplementProjector(kernel_vectors, left_vecs=left_kernel_vectors)",
                                                "ComplementProjector(left_vecs=left_kernel_vectors, vecs=kernel_vectors)")
    rep.check(ok, R, "linalg::direct_greens_function kernel projector P = 1 - K K_left^H", "", loc(outer))
    pv = [n for n in own_nodes(outer) if isinstance(n, ast.Assign) and norm(n.targets[0]) == "pivot_rows"]
    ok = len(pv) == 1 and norm(pv[0].value) == "_kernel_pivot_rows(kernel_vectors)"
    rep.check(ok, R, "linalg::direct_greens_function pivots are chosen from the right kernel vectors", "", loc(outer))
    _rule_pivot_choice(rep, repo, R)
    cm = repo.find("linalg::_constrain_matrix", R)
    from .resolve import env_at as _env_at, rtext as _rtext
    from .sem import canon as _canon2
    masks = [n for n in own_nodes(cm) if isinstance(n, ast.Assign) and isinstance(n.targets[0], ast.Subscript)
             and norm(n.targets[0].slice) == "pivot_rows" and norm(n.value) in ("True", "False") and isinstance(n.targets[0].value, ast.Name)]
    if len(masks) != 1:
        raise AnalysisError(R, "_constrain_matrix: marking of the pivot rows (`mask[pivot_rows] = True / False`) not found")
    M = masks[0].targets[0].value.id
    marks_pivots = norm(masks[0].value) == "True"
    minit = [n for n in own_nodes(cm) if isinstance(n, ast.Assign) and any(norm(t) == M for t in n.targets)]
    C = "sparse.csr_array(mat)"
    fill = "zeros" if marks_pivots else "ones"  # the mask starts as the opposite of what the pivot rows are set to
    ok_mask = len(minit) == 1 and _rtext(minit[0].value, _env_at(minit[0], cm)) in (f"np.{fill}({C}.shape[0], dtype=bool)", f"np.{fill}(mat.shape[0], dtype=bool)")
    rets_cm = [n for n in own_nodes(cm) if isinstance(n, ast.Return)]
    nonempty = [r_ for r_ in rets_cm if r_ is cm.body[-1]]
    early = [r_ for r_ in rets_cm if r_ is not cm.body[-1]]
    if len(nonempty) != 1:
        raise AnalysisError(R, "_constrain_matrix: final return not found")
    COO = f"{C}.tocoo(copy=False)"
    KEEP = f"~{M}[{COO}.row]" if marks_pivots else f"{M}[{COO}.row]"  # rows that are NOT pivots
    want_ret = (f"sparse.csr_array((np.concatenate(({COO}.data[{KEEP}], np.ones(len(pivot_rows), dtype={C}.dtype))), "
                f"(np.concatenate(({COO}.row[{KEEP}], pivot_rows)), np.concatenate(({COO}.col[{KEEP}], pivot_rows)))), shape={C}.shape)")
    from .resolve import resolved as _resolved_cm
    got_node = _resolved_cm(nonempty[0].value, _env_at(nonempty[0], cm))
    got_ret = norm(got_node)
    got_cmp = got_ret.replace(".tocoo()", ".tocoo(copy=False)")
    if got_cmp != want_ret:
        # a different text is a violation only inside the assembly skeleton  csr((cat(kept data, ones), (cat(kept rows, pivots),
        # cat(kept cols, pivots))), shape): another way of building the matrix is not understood, not wrong
        def cat(e):
            if isinstance(e, ast.Call) and call_name(e) in ("np.concatenate", "np.hstack", "np.append", "np.r_") and e.args:
                parts = e.args[0].elts if len(e.args) == 1 and isinstance(e.args[0], (ast.Tuple, ast.List)) else e.args
                return list(parts) if len(parts) == 2 else None
            return None
        sk = None
        if isinstance(got_node, ast.Call) and call_name(got_node) in ("sparse.csr_array", "sparse.csr_matrix", "csr_array") and got_node.args \
                and isinstance(got_node.args[0], ast.Tuple) and len(got_node.args[0].elts) == 2 and isinstance(got_node.args[0].elts[1], ast.Tuple) \
                and len(got_node.args[0].elts[1].elts) == 2:
            sk = [cat(got_node.args[0].elts[0]), cat(got_node.args[0].elts[1].elts[0]), cat(got_node.args[0].elts[1].elts[1])]
        if sk is None or None in sk:
            raise AnalysisError(R, f"_constrain_matrix: assembly `{got_ret[:120]}` is not of the form csr((cat(data, ones), (cat(rows, pivots), cat(cols, pivots))))")
    rep.check(ok_mask and got_cmp == want_ret, R, "linalg::_constrain_matrix drops the pivot rows and adds unit diagonal entries on them",
              got_ret[:200], repo.loc("linalg", cm))
    ok_early = all(_rtext(r_.value, _env_at(r_, cm)) == C and isinstance(getattr(r_, "_parent", None), ast.If)
                   and norm(_canon2(r_._parent.test)) in ("pivot_rows.size == 0", "not pivot_rows.size", "0 == pivot_rows.size", "len(pivot_rows) == 0")
                   for r_ in early)
    rep.check(ok_early and C in got_ret, R, "linalg::_constrain_matrix works on its own csr copy",
              "without pivots the csr copy itself is returned", repo.loc("linalg", cm))


# ---------------------------------------------------------------------------
# second-quantised scalar Sylvester solver (operator identity clause of C16)
# ---------------------------------------------------------------------------


def rule_solve_scalar(rep: Report, repo: Repo):
    from .e7b import rule_solve_scalar as _r
    _r(rep, repo)


# ---------------------------------------------------------------------------
# KPM solver: structure only (accuracy / convergence is numerical and not decided)
# ---------------------------------------------------------------------------


def rule_kpm_structure(rep: Report, repo: Repo):
    R = "E7.kpm"
    from .resolve import rtext, run_block
    from .e2 import affine

    from .e7b import rule_kpm_numerics
    rule_kpm_numerics(rep, repo)
    from .e7b import rule_kpm_wiring
    rule_kpm_wiring(rep, repo)
