"""E6 -- linear-operator denotation of ``linalg.ComplementProjector`` (C17, C06, C14).

The instance denotes P = 1 - R.L^H  (R = ``_vecs``, L = ``_left_vecs``;
``_hermitian`` => L = R).  Each method is interpreted abstractly over that
denotation; operator-valued results are pairs (A, B) meaning 1 - A.B^H.
"""

from __future__ import annotations

import ast
import sys
from pathlib import Path

from . import linden as ld
from .core import AnalysisError, Repo, Report, call_name, dotted, nested_defs, norm, own_nodes

RULE = "E6"
CLS = "linalg::ComplementProjector"
CACHE_OP = {"_adjoint_operator": "H", "_conjugate_operator": "*", "_transpose_operator": "T"}
METHOD_OP = {"_adjoint": "H", "conjugate": "*", "_transpose": "T"}
OPNAME = {"H": "adjoint", "*": "conjugate", "T": "transpose"}


REAL_DECO = {"*": "", "H": "T", "": "", "T": "T"}


def realify(p, real_atoms):
    """Normal form when some atoms are real arrays: conj(X) = X, X^H = X^T."""
    if not real_atoms:
        return p
    out = {}
    for w, c in p.items():
        w2 = tuple((n, REAL_DECO[d] if n in real_atoms else d) for n, d in w)
        out[w2] = out.get(w2, 0) + c
    return {w: c for w, c in out.items() if c}


def P_of(pair):
    A, B = pair
    return ld.sub(ld.ONE, ld.mul(A, ld.adjoint(B)))


def apply_op(op: str, p):
    return {"H": ld.adjoint, "*": ld.conj, "T": ld.transpose, "": lambda x: x}[op](p)


def subst_poly(p, mapping):
    """Replace atoms by polynomials (respecting decorations)."""
    out = {}
    for w, c in p.items():
        term = {(): c}
        for n, d in w:
            rep = mapping.get(n)
            if rep is None:
                rep = ld.atom(n)
            term = ld.mul(term, apply_op(d, rep) if d else rep)
        out = ld.add(out, term)
    return out


def constructor_attributes(init: ast.FunctionDef) -> dict:
    """self.<attr> = value of the constructor, locals resolved; an attribute assigned in both arms of one `if` becomes the
    conditional expression `A if T else B` (then canonical: `True if T else E` is `T or E`)."""
    from .resolve import env_at as _ea, resolved as _rs
    from .sem import canon as _cn
    out = {}
    def visit(stmts):
        for st in stmts:
            if isinstance(st, ast.Assign):
                for t in st.targets:
                    d = dotted(t)
                    if d and d.startswith("self."):
                        out[d[5:]] = _rs(st.value, _ea(st, init))
            elif isinstance(st, ast.If):
                def arm(body):
                    vals = {}
                    for x in body:
                        if isinstance(x, ast.Assign) and len(x.targets) == 1 and (dotted(x.targets[0]) or "").startswith("self."):
                            vals[dotted(x.targets[0])[5:]] = _rs(x.value, _ea(x, init))
                        else:
                            return None
                    return vals
                a1, a2 = arm(st.body), arm(st.orelse)
                if a1 is not None and a2 is not None and a1.keys() == a2.keys() and a1:
                    test = _rs(st.test, _ea(st, init))
                    for k in a1:
                        out[k] = _cn(ast.IfExp(test=test, body=a1[k], orelse=a2[k]))
                else:
                    visit(st.body)
                    visit(st.orelse)
    visit(init.body)
    return out


class ProjectorModel:
    _current = None

    def __init__(self, repo: Repo):
        self.repo = repo
        self.cls = repo.find(CLS, RULE)
        known = {"__init__", "_apply", "_apply_left", "_adjoint", "conjugate", "_transpose", "_matvec", "_matmat", "_rmatvec", "_rmatmat"}
        if any(isinstance(n, ast.FunctionDef) and n.name not in known for n in self.cls.body):
            # helper methods extracted from the relatives' constructors: analyse the class with them seen through
            self.cls = repo.find_expanded(CLS, RULE)
        self.methods = {n.name: n for n in self.cls.body if isinstance(n, ast.FunctionDef)}
        self.aliases = {}
        for n in self.cls.body:
            if isinstance(n, ast.Assign) and isinstance(n.value, ast.Name):
                for t in n.targets:
                    if isinstance(t, ast.Name):
                        self.aliases[t.id] = n.value.id
        if "__init__" not in self.methods:
            raise AnalysisError(RULE, "ComplementProjector.__init__ not found")
        self.init = self.methods["__init__"]
        self.init_params = [a.arg for a in self.init.args.args if a.arg != "self"]
        if len(self.init_params) != 2:
            raise AnalysisError(RULE, f"unexpected constructor parameters {self.init_params}")
        self.init_cache = {}
        self.init_assign = {}
        self.init_assign = constructor_attributes(self.init)  # constructor locals resolved, if/else assignments merged
        # the texts that denote the Hermitian flag inside the constructor: the attribute, or the expression stored in it
        self.herm_texts = {"self._hermitian"} | ({norm(self.init_assign["_hermitian"])} if "_hermitian" in self.init_assign else set())
        for k in CACHE_OP:
            if k not in self.init_assign:
                raise AnalysisError(RULE, f"cache attribute {k} not initialised in __init__")
        self._memo = {}

    def resolve(self, name: str):
        seen = set()
        while name in self.aliases and name not in seen:
            seen.add(name)
            name = self.aliases[name]
        return self.methods.get(name)

    # ---------------------------------------------------------------------
    def initial_cache(self, attr: str, hermitian: bool):
        v = self.init_assign[attr]
        if isinstance(v, ast.Constant) and v.value is None:
            return None
        if isinstance(v, ast.Name) and v.id == "self":
            return "self"
        if isinstance(v, ast.IfExp) and norm(v.test) in self.herm_texts:
            arm = v.body if hermitian else v.orelse
            if isinstance(arm, ast.Constant) and arm.value is None:
                return None
            if isinstance(arm, ast.Name) and arm.id == "self":
                return "self"
        raise AnalysisError(RULE, f"initial value of {attr} not understood: `{norm(v)}`")

    def run_method(self, name: str, hermitian: bool, rep: Report | None = None, depth=0, real=frozenset(), preset: bool = False):
        """Abstractly run an operator-returning method on the base object (R, L).
        ``real``: which of the atoms R, L are real arrays.  Returns the resulting pair."""
        self.real = real = frozenset(real)
        key = (name, hermitian, real, preset)
        if key in self._memo:
            return self._memo[key]
        if depth > 4:
            raise AnalysisError(RULE, f"recursion while analysing {name}")
        f = self.resolve(name)
        if f is None:
            raise AnalysisError(RULE, f"method {name} not found on ComplementProjector")
        R, L = ld.atom("R"), (ld.atom("R") if hermitian else ld.atom("L"))
        state = {
            "self": (R, L),
            "arrays": {"self._vecs": R, "self._left_vecs": L},
            "caches": {k: self.initial_cache(k, hermitian) for k in CACHE_OP},
            "locals": {},
            "hermitian": hermitian,
            "objs": {},
        }
        if preset:
            # the other relatives of the object have been built before (and are right): what the method does with them is checked
            own = [k for k, o_ in CACHE_OP.items() if METHOD_OP.get(name) == o_]
            for k in CACHE_OP:
                if k not in own and state["caches"][k] is None:
                    state["caches"][k] = self._ideal(CACHE_OP[k], (R, L))
        outer, self._current = getattr(self, "_current", None), f
        try:
            result = self._run_block(f.body, state, rep, f, depth)
        finally:
            self._current = outer
        if result is None:
            raise AnalysisError(RULE, f"{name}: no return value found")
        self._memo[key] = result
        return result

    def _cache_value(self, st, attr):
        v = st["caches"][attr]
        if v == "self":
            return st["self"]
        return v

    def _own_dtype_is_real(self, st):
        """Whether ``self.dtype`` is a real dtype in the current mode, read from the dtype handed to LinearOperator.__init__."""
        init = self.resolve("__init__")
        for n in ast.walk(init) if init is not None else ():
            if isinstance(n, ast.Call) and norm(n.func) in ("super().__init__", "LinearOperator.__init__"):
                for k in n.keywords:
                    if k.arg == "dtype":
                        e = k.value
                        parts = e.args if isinstance(e, ast.Call) and call_name(e) in ("np.result_type", "np.promote_types", "np.common_type") else [e]
                        atoms = []
                        for a in parts:
                            t = norm(a)
                            if t in ("self._vecs.dtype", "vecs.dtype", "self._vecs", "vecs"):
                                atoms.append("R")
                            elif t in ("self._left_vecs.dtype", "self._left_vecs"):
                                atoms.append("R" if st["hermitian"] else "L")
                            else:
                                raise AnalysisError(RULE, f"dtype of the projector `{norm(e)}` not understood")
                        return all(a in self.real for a in atoms)
        raise AnalysisError(RULE, "dtype handed to LinearOperator.__init__ not found")

    def _condition(self, test, st, f):
        """Truth value of a branch condition of a projector method in the current mode (hermitian flag, cache state, dtypes)."""
        if isinstance(test, ast.BoolOp):
            vals = [self._condition(v, st, f) for v in test.values]
            return all(vals) if isinstance(test.op, ast.And) else any(vals)
        if isinstance(test, ast.UnaryOp) and isinstance(test.op, ast.Not):
            return not self._condition(test.operand, st, f)
        t = norm(test)
        for attr in CACHE_OP:
            if t == f"self.{attr} is None":
                return self._cache_value(st, attr) is None
            if t == f"self.{attr} is not None":
                return self._cache_value(st, attr) is not None
        if t == "self._hermitian":
            return st["hermitian"]
        # dtype predicates on the stored vectors
        for txt, atomname in (("self._vecs", "R"), ("self._left_vecs", "R" if st["hermitian"] else "L")):
            is_real = atomname in self.real
            if t in (f"np.iscomplexobj({txt})", f"np.iscomplexobj({txt}.dtype)", f"np.issubdtype({txt}.dtype, np.complexfloating)"):
                return not is_real
            if t in (f"np.isrealobj({txt})", f"np.isrealobj({txt}.dtype)"):
                return is_real
        if t in ("np.issubdtype(self.dtype, np.complexfloating)", "np.iscomplexobj(self.dtype)", "self.dtype.kind == 'c'"):
            return not self._own_dtype_is_real(st)
        if t in ("np.isrealobj(self.dtype)", "self.dtype.kind != 'c'"):
            return self._own_dtype_is_real(st)
        raise AnalysisError(RULE, f"{getattr(f, 'name', CLS)}: condition `{t}` not understood")

    def _run_block(self, stmts, st, rep, f, depth):
        for s in stmts:
            if isinstance(s, ast.Expr) and isinstance(s.value, ast.Constant):
                continue
            if isinstance(s, ast.If):
                val = self._condition(s.test, st, f)
                r = self._run_block(s.body if val else s.orelse, st, rep, f, depth)
                if r is not None:
                    return r
                continue
            if isinstance(s, ast.Return):
                return self._op_value(s.value, st, depth)
            if isinstance(s, ast.Assign) and len(s.targets) == 1:
                t = s.targets[0]
                d = dotted(t)
                if isinstance(t, ast.Name):
                    # locals are evaluated when assigned (a later rebinding may refer to the old value)
                    try:
                        st["locals"][t.id] = ("op", self._op_value(s.value, st, depth))
                    except AnalysisError:
                        try:
                            st["locals"][t.id] = ("arr", self._array(s.value, st))
                        except AnalysisError:
                            st["locals"][t.id] = ("ast", s.value)
                    continue
                if d and d.startswith("self.") and d[5:] in CACHE_OP and d.count(".") == 1:
                    st["caches"][d[5:]] = self._op_value(s.value, st, depth)
                    self._check_link(rep, f, s, st["self"], d[5:], st["caches"][d[5:]], st, "self")
                    continue
                # cross link: <operator expr>._K_operator = <operator expr>
                if isinstance(t, ast.Attribute) and t.attr in CACHE_OP:
                    owner = self._op_value(t.value, st, depth)
                    val = self._op_value(s.value, st, depth)
                    self._check_link(rep, f, s, owner, t.attr, val, st, norm(t.value))
                    continue
            raise AnalysisError(RULE, f"{f.name}: statement not understood: `{norm(s)[:70]}`")
        return None

    def _check_link(self, rep, f, stmt, owner, attr, value, st, owner_text):
        if rep is None or value is None:
            return
        op = CACHE_OP[attr]
        want = apply_op(op, P_of(owner))
        got = P_of(value)
        mode = ("L=R" if st["hermitian"] else "L!=R") + self._real_tag()
        got, want = realify(got, self.real), realify(want, self.real)
        inst = f"{CLS}.{f.name} [{mode}] `{norm(stmt)}` caches the {OPNAME[op]} of {owner_text}"
        if got == want:
            rep.ok(RULE, inst, f"denotes {ld.show(got)}", self.repo.loc("linalg", stmt))
        else:
            rep.fail(RULE, f"{CLS}.{f.name} [{mode}] `{norm(stmt)}` stores {ld.show(got)} as the {OPNAME[op]} of {owner_text}",
                     f"required {ld.show(want)}", self.repo.loc("linalg", stmt))

    def _real_tag(self):
        r = getattr(self, "real", frozenset())
        return "" if not r else ", real " + "+".join(sorted(r))

    def _array(self, e, st):
        def resolve(n):
            v = st["locals"].get(n.id)
            return v[1] if v is not None and v[0] == "ast" else None
        env = dict(st["arrays"])
        # IfExp on the hermitian flag inside array expressions
        if isinstance(e, ast.IfExp):
            return self._array(e.body if self._condition(e.test, st, self._current) else e.orelse, st)
        if isinstance(e, ast.Name) and e.id in st["locals"]:
            kind, v = st["locals"][e.id]
            if kind == "arr":
                return v
            if kind == "ast":
                return self._array(v, st)
            raise AnalysisError(RULE, f"operator-valued local `{e.id}` used as an array")
        for k_, (kind, v) in st["locals"].items():
            if kind == "arr":
                env[k_] = v
        return ld.Den(env, RULE, resolve).ev(e)

    def _op_value(self, e, st, depth):
        """Operator-valued expression -> pair (A, B) | None."""
        if isinstance(e, ast.Constant) and e.value is None:
            return None
        if isinstance(e, ast.Name):
            if e.id == "self":
                return st["self"]
            if e.id in st["locals"]:
                kind, v = st["locals"][e.id]
                if kind == "op":
                    return v
                if kind == "ast":
                    return self._op_value(v, st, depth)
                raise AnalysisError(RULE, f"array-valued local `{e.id}` used as an operator")
        if isinstance(e, ast.IfExp):
            return self._op_value(e.body if self._condition(e.test, st, self._current) else e.orelse, st, depth)
        d = dotted(e)
        if d and d.startswith("self.") and d[5:] in CACHE_OP:
            return self._cache_value(st, d[5:])
        if isinstance(e, ast.Attribute) and e.attr in CACHE_OP:
            owner = self._op_value(e.value, st, depth)
            # cache of another (fresh) object: only known if we just linked it -- use ideal semantics
            return self._ideal(CACHE_OP[e.attr], owner)
        if isinstance(e, ast.Attribute) and e.attr in ("H", "T"):
            return self._call_on(self._op_value(e.value, st, depth), {"H": "_adjoint", "T": "_transpose"}[e.attr], st, depth)
        if isinstance(e, ast.Call):
            fn = e.func
            if norm(fn) in ("self.__class__", "type(self)", "ComplementProjector"):
                args = {}
                for name, a in zip(self.init_params, e.args):
                    args[name] = a
                for k in e.keywords:
                    args[k.arg] = k.value
                if self.init_params[0] not in args:
                    raise AnalysisError(RULE, f"constructor call without vecs: `{norm(e)}`")
                A = self._array(args[self.init_params[0]], st)
                lv = args.get(self.init_params[1])
                B = A if (lv is None or (isinstance(lv, ast.Constant) and lv.value is None)) else self._array(lv, st)
                return (A, B)
            if isinstance(fn, ast.Attribute) and not e.args and not e.keywords:
                m = {"adjoint": "_adjoint", "transpose": "_transpose"}.get(fn.attr, fn.attr)
                if m in METHOD_OP:
                    return self._call_on(self._op_value(fn.value, st, depth), m, st, depth)
        raise AnalysisError(RULE, f"operator expression not understood: `{norm(e)}`")

    def _ideal(self, op, pair):
        A, B = pair
        return {"H": (B, A), "*": (ld.conj(A), ld.conj(B)), "T": (ld.conj(B), ld.conj(A))}[op]

    def _call_on(self, pair, method, st, depth):
        """Result of calling ``method`` on an object denoting ``pair`` (the method's own
        analysed behaviour, instantiated at that object)."""
        if pair is None:
            raise AnalysisError(RULE, "method call on None")
        A, B = pair
        herm = A == B
        saved = self.real
        res = self.run_method(method, herm, None, depth + 1, real=saved)
        self.real = saved
        if res is None:
            return None
        mp = {"R": A, "L": B}
        return (subst_poly(res[0], mp), subst_poly(res[1], mp))


def _inline_projector_helpers(t: ast.AST, cls: ast.ClassDef, rule: str, depth: int = 0) -> ast.AST:
    """`self._helper(a, b)` / `Class._helper(a, b)` inside a slot's expression is replaced by what the helper (a method or static method of
    the projector class with a straight-line body) returns for these arguments; `X is None` tests on a parameter are decided by
    whether the argument is the constant None (a defaulted parameter that the call omits is None-tested with its default)."""
    from .straight import run as _run_s
    from .resolve import clone as _cl

    class T(ast.NodeTransformer):
        def visit_Call(self, node):
            self.generic_visit(node)
            fn = node.func
            if not (isinstance(fn, ast.Attribute) and isinstance(fn.value, ast.Name) and fn.value.id in ("self", cls.name, "cls")):
                return node
            hs = [h for h in cls.body if isinstance(h, ast.FunctionDef) and h.name == fn.attr]
            if len(hs) != 1 or depth > 3 or any(isinstance(a_, ast.Starred) for a_ in node.args):
                return node
            h = hs[0]
            static = any(norm(d_) in ("staticmethod",) for d_ in h.decorator_list)
            params = [a_.arg for a_ in h.args.args]
            if not static and params and params[0] in ("self", "cls"):
                params = params[1:]
            if h.args.vararg or h.args.kwarg or len(node.args) > len(params):
                return node
            given = dict(zip(params, node.args))
            for k_ in node.keywords:
                if k_.arg is None or k_.arg in given or k_.arg not in params:
                    return node
                given[k_.arg] = k_.value
            defaults = dict(zip([a_.arg for a_ in h.args.args][len(h.args.args) - len(h.args.defaults):], h.args.defaults))
            for p_ in params:
                if p_ not in given:
                    if p_ not in defaults:
                        return node
                    given[p_] = _cl(defaults[p_])

            def atom(n_):
                if isinstance(n_, ast.Compare) and len(n_.ops) == 1 and isinstance(n_.ops[0], (ast.Is, ast.IsNot)) \
                        and isinstance(n_.comparators[0], ast.Constant) and n_.comparators[0].value is None:
                    # after substitution the left side IS the argument expression
                    is_none = isinstance(n_.left, ast.Constant) and n_.left.value is None
                    return is_none if isinstance(n_.ops[0], ast.Is) else not is_none
                return None
            try:
                out = _run_s(h, atom, rule, env0=given)
            except AnalysisError:
                return node
            return _inline_projector_helpers(out, cls, rule, depth + 1)
    return T().visit(_cl(t))


def rule_projector(rep: Report, repo: Repo):
    m = ProjectorModel(repo)
    loc = lambda n: repo.loc("linalg", n)
    init = m.init
    vecs_p, left_p = m.init_params
    # -- constructor wiring ----------------------------------------------------------
    from .resolve import env_at as _env_at, resolved as _resolved
    a = constructor_attributes(init)
    rep.check(norm(a.get("_vecs", ast.Constant(None))) == vecs_p, RULE,
              f"{CLS}.__init__ stores R = `{vecs_p}`", "", loc(init))
    herm = a.get("_hermitian")
    ok = False
    if herm is not None:
        from .sem import Scope, inline
        herm = inline(herm, Scope(repo.trees["linalg"], init))  # a module-level predicate helper is expanded
        from .paths import eval_bool as _eb
        # four situations: L omitted; L the same object as R; L another array with the same entries; L a different array
        table = {}
        for sit in ("omitted", "same object", "equal entries", "close entries", "different"):
            def atom(n, sit=sit):
                if isinstance(n, ast.Compare) and len(n.ops) == 1 and isinstance(n.ops[0], (ast.Is, ast.IsNot)):
                    l_, r_ = norm(n.left), norm(n.comparators[0])
                    if {l_, r_} == {left_p, "None"}:
                        v = sit == "omitted"
                    elif {l_, r_} == {left_p, vecs_p}:
                        v = sit == "same object"
                    else:
                        return None
                    return v if isinstance(n.ops[0], ast.Is) else not v
                if isinstance(n, ast.Call) and call_name(n) in ("np.array_equal", "np.array_equiv") and len(n.args) == 2 \
                        and {norm(n.args[0]), norm(n.args[1])} == {left_p, vecs_p}:
                    return sit in ("same object", "equal entries")
                if isinstance(n, ast.Call) and call_name(n) in ("np.allclose", "np.isclose") and len(n.args) >= 2 \
                        and {norm(n.args[0]), norm(n.args[1])} == {left_p, vecs_p}:
                    return sit in ("same object", "equal entries", "close entries")
                if isinstance(n, ast.Compare) and len(n.ops) == 1 and isinstance(n.ops[0], (ast.Eq, ast.NotEq)) \
                        and {norm(n.left), norm(n.comparators[0])} in ({f"{left_p}.shape", f"{vecs_p}.shape"}, {f"{left_p}.dtype", f"{vecs_p}.dtype"}):
                    # a left basis has the shape (and, in the situations considered, the dtype) of the right one
                    return None if sit == "omitted" else isinstance(n.ops[0], ast.Eq)
                return None
            table[sit] = _eb(herm, atom)
        if None in table.values():
            raise AnalysisError(RULE, f"{CLS}.__init__: `_hermitian = {norm(herm)[:80]}` is not decided by (L omitted / same object / equal / close / different)")
        ok = table == {"omitted": True, "same object": True, "equal entries": True, "close entries": False, "different": False}
    rep.check(ok, RULE, f"{CLS}.__init__ `_hermitian` holds only when L equals R (or is omitted)",
              norm(herm) if herm is not None else "missing", loc(init))
    lv = a.get("_left_vecs")
    hflag = ("self._hermitian", norm(a["_hermitian"])) if "_hermitian" in a else ("self._hermitian",)
    ok = lv is not None and any(norm(lv) in (f"{vecs_p} if {h_} else {left_p}", f"{left_p} if not {h_} else {vecs_p}",
                                             f"{left_p} if not ({h_}) else {vecs_p}") for h_ in hflag)
    rep.check(ok, RULE, f"{CLS}.__init__ stores L = `{left_p}` (R when Hermitian)", norm(lv) if lv is not None else "missing", loc(init))
    # shape / dtype: assigned directly or handed to LinearOperator.__init__(dtype, shape)
    sup = {}
    for n in own_nodes(init):
        if isinstance(n, ast.Call) and isinstance(n.func, ast.Attribute) and n.func.attr == "__init__" \
                and norm(n.func.value) in ("super()", "LinearOperator", f"super({m.cls.name}, self)"):
            pos = n.args[1:] if norm(n.func.value) == "LinearOperator" else n.args
            env_c = _env_at(n, init)
            for name, v in zip(("dtype", "shape"), pos):
                sup[name] = _resolved(v, env_c)
            for k in n.keywords:
                sup[k.arg] = _resolved(k.value, env_c)
    shp = a.get("shape", sup.get("shape"))
    rep.check(shp is not None and norm(shp) == f"({vecs_p}.shape[0], {vecs_p}.shape[0])", RULE,
              f"{CLS}.__init__ shape is (n, n) with n = number of rows of R", norm(shp) if shp is not None else "missing", loc(init))
    dt = a.get("dtype", sup.get("dtype"))
    rep.check(dt is not None and norm(dt) in ("np.result_type(self._vecs.dtype, self._left_vecs.dtype)",
                                              "np.result_type(self._left_vecs.dtype, self._vecs.dtype)",
                                              f"np.result_type({vecs_p}.dtype, self._left_vecs.dtype)"), RULE,
              f"{CLS}.__init__ dtype is the common type of R and L", norm(dt) if dt is not None else "missing", loc(init))
    # -- matvec / rmatvec bindings and denotations --------------------------------------
    R, L, v = ld.atom("R"), ld.atom("L"), ld.atom("v")
    P = ld.sub(ld.ONE, ld.mul(R, ld.adjoint(L)))
    wants = {"_matvec": ("P.v", ld.mul(P, v)), "_matmat": ("P.v", ld.mul(P, v)),
             "_rmatvec": ("P^H.v", ld.mul(ld.adjoint(P), v)), "_rmatmat": ("P^H.v", ld.mul(ld.adjoint(P), v))}
    for slot, (txt, want) in wants.items():
        f = m.resolve(slot)
        if f is None:
            # inherited default: scipy falls back to generic (slow but correct) implementations
            # only for _matmat/_rmatmat/_rmatvec via _adjoint; _matvec must exist
            if slot == "_matvec":
                rep.fail(RULE, f"{CLS}.{slot} not defined", "", loc(m.cls))
            else:
                rep.note(f"{slot} not overridden (SciPy default in terms of the other slots)")
            continue
        params = [x.arg for x in f.args.args if x.arg != "self"]
        if len(params) != 1:
            raise AnalysisError(RULE, f"{f.name}: expected one parameter")
        env = {params[0]: v, "self._vecs": R, "self._left_vecs": L}
        # every path of the slot (the operand may be dense or sparse) is evaluated to one expression and denoted
        from .straight import run as _run
        results = {}
        for is_sparse in (False, True):
            def atom(n, is_sparse=is_sparse):
                if isinstance(n, ast.Call) and call_name(n) in ("sparse.issparse", "issparse") and len(n.args) == 1 and norm(n.args[0]) == params[0]:
                    return is_sparse
                if isinstance(n, ast.Call) and call_name(n) == "isinstance" and norm(n.args[0]) == params[0] and norm(n.args[1]) == "np.ndarray":
                    return not is_sparse
                return None
            t = _run(f, atom, RULE)
            t = _inline_projector_helpers(t, m.cls, RULE)
            results[norm(t)] = t
        for ttxt, t in results.items():
            # `<relative of self>._apply(x)`: the action of another projector object (the transpose / adjoint / conjugate of this one)
            rel = None
            if isinstance(t, ast.Call) and isinstance(t.func, ast.Attribute) and len(t.args) == 1 and not t.keywords:
                owner = t.func.value
                d_ = dotted(owner)
                op_ = None
                if d_ and d_.startswith("self.") and d_[5:] in CACHE_OP:
                    op_ = CACHE_OP[d_[5:]]
                elif isinstance(owner, ast.Call) and isinstance(owner.func, ast.Attribute) and norm(owner.func.value) == "self" and owner.func.attr in METHOD_OP and not owner.args:
                    op_ = METHOD_OP[owner.func.attr]
                elif isinstance(owner, ast.Attribute) and norm(owner.value) == "self" and owner.attr in ("T", "H"):
                    op_ = owner.attr
                bound_to = [sl_ for sl_ in ("_matvec", "_rmatvec") if (m.resolve(sl_) is not None and m.resolve(sl_).name == t.func.attr)]
                if op_ is not None and len(bound_to) == 1:
                    rel = (op_, bound_to[0])
            if rel is not None:
                A_, B_ = m._ideal(rel[0], (R, L))
                x_ = ld.Den(env, RULE).ev(t.args[0])
                got = ld.sub(x_, ld.mul(A_, ld.mul(ld.adjoint(B_), x_))) if rel[1] == "_matvec" else ld.sub(x_, ld.mul(B_, ld.mul(ld.adjoint(A_), x_)))
            else:
                got = ld.Den(env, RULE).ev(t)
            if got == want:
                rep.ok(RULE, f"{CLS}.{slot} -> {f.name} denotes {txt}", f"`{ttxt[:90]}` = {ld.show(got)}", loc(f))
            else:
                rep.fail(RULE, f"{CLS}.{slot} -> {f.name} `{ttxt[:90]}` denotes {ld.show(got)}",
                         f"SciPy contract: {slot} must compute {txt} = {ld.show(want)} with P = 1 - R.L^H", loc(f))
    # -- adjoint / conjugate / transpose objects ------------------------------------------
    # dtype-dependent branches: which of R, L are real arrays (conj(X) = X for a real X)
    uses_dtype = any(any(w in norm(n.test) for w in ("iscomplexobj", "isrealobj", "dtype")) for meth in METHOD_OP
                     for n in ast.walk(m.resolve(meth) or ast.Pass()) if isinstance(n, (ast.If, ast.IfExp)))
    real_modes = [frozenset()] if not uses_dtype else None
    for meth, op in METHOD_OP.items():
        for hermitian in (True, False):
            modes = real_modes or ([frozenset(), frozenset({"R"})] if hermitian else
                                   [frozenset(), frozenset({"R"}), frozenset({"L"}), frozenset({"R", "L"})])
            for real in modes:
                m._memo.clear()
                # second run from a state in which the object's other relatives are already cached (history dependence of the links)
                m.run_method(meth, hermitian, rep, real=real, preset=True)
                m._memo.clear()
                pair = m.run_method(meth, hermitian, rep, real=real)
                m.real = real
                base = (ld.atom("R"), ld.atom("R") if hermitian else ld.atom("L"))
                want = realify(apply_op(op, P_of(base)), real)
                got = realify(P_of(pair), real)
                mode = ("L=R" if hermitian else "L!=R") + m._real_tag()
                f = m.resolve(meth)
                if got == want:
                    rep.ok(RULE, f"{CLS}.{meth} [{mode}] returns the {OPNAME[op]} of P", f"denotes {ld.show(got)}", loc(f))
                else:
                    rep.fail(RULE, f"{CLS}.{meth} [{mode}] returns an operator denoting {ld.show(got)}",
                             f"required {OPNAME[op]}(P) = {ld.show(want)}", loc(f))
    rep.check(m.cls.bases and norm(m.cls.bases[0]) == "LinearOperator", RULE, f"{CLS} derives from scipy LinearOperator", "", loc(m.cls))
    # composition is scipy's business: the class defines the slots and the three relatives; an override of the public composition API
    # that answers a product by an operand (P . P = P) assumes biorthonormal vectors, which the class does not require
    API = {"dot", "rdot", "matvec", "matmat", "rmatvec", "rmatmat", "__matmul__", "__rmatmul__", "__mul__", "__rmul__", "__call__", "__add__",
           "__sub__", "__neg__", "__pow__", "__truediv__", "adjoint", "transpose"}
    for meth in [x for x in m.cls.body if isinstance(x, ast.FunctionDef) and x.name in API]:
        rets = [r for r in ast.walk(meth) if isinstance(r, ast.Return) and r.value is not None]
        operand_returns = [r for r in rets if isinstance(r.value, ast.Name) and r.value.id in ["self"] + [a.arg for a in meth.args.args]]
        if operand_returns:
            rep.fail(RULE, f"{CLS}.{meth.name} overrides scipy's composition and answers a product with one of its operands (`{norm(operand_returns[0])}`)",
                     "1 - R L^H is idempotent only if L^H R = 1; for general vector sets P . P differs from P, and so do the adjoint and "
                     "right-multiplication of the composite (the dense matrix 1 - R L^H is the reference)", loc(operand_returns[0]))
        else:
            raise AnalysisError(RULE, f"{CLS}.{meth.name} overrides a composition method of scipy's LinearOperator: not understood")


# ---------------------------------------------------------------------------
# base-state rule: the installed SciPy's LinearOperator
# ---------------------------------------------------------------------------

RELIED_ON = ["dot", "rdot", "matvec", "matmat", "rmatvec", "rmatmat", "__matmul__", "__rmatmul__",
             "__mul__", "__rmul__", "adjoint", "transpose", "__call__", "_adjoint", "_transpose",
             "__add__", "__neg__", "__sub__"]


def _scipy_interface() -> Path:
    for p in sys.path:
        cand = Path(p) / "scipy" / "sparse" / "linalg" / "_interface.py"
        if cand.exists():
            return cand
    raise AnalysisError(RULE, "installed scipy/sparse/linalg/_interface.py not found on sys.path")


def rule_base_state(rep: Report, repo: Repo):
    path = _scipy_interface()
    tree = ast.parse(path.read_text())
    cls = [n for n in tree.body if isinstance(n, ast.ClassDef) and n.name == "LinearOperator"]
    if len(cls) != 1:
        raise AnalysisError(RULE, "class LinearOperator not found in the installed SciPy")
    cls = cls[0]
    methods = {n.name: n for n in cls.body if isinstance(n, ast.FunctionDef)}
    classlevel = set(methods)
    for n in cls.body:
        if isinstance(n, ast.Assign):
            classlevel |= {t.id for t in n.targets if isinstance(t, ast.Name)}
        if isinstance(n, ast.AnnAssign) and n.value is not None and isinstance(n.target, ast.Name):
            classlevel.add(n.target.id)
    # closure of self.<method>() calls from the relied-on entry points
    work, seen = [m for m in RELIED_ON if m in methods], set()
    reads = {}
    while work:
        name = work.pop()
        if name in seen:
            continue
        seen.add(name)
        for n in ast.walk(methods[name]):
            if isinstance(n, ast.Attribute) and isinstance(n.value, ast.Name) and n.value.id == "self":
                if n.attr in methods:
                    if n.attr not in seen:
                        work.append(n.attr)
                elif isinstance(n.ctx, ast.Load) and n.attr not in classlevel and not n.attr.startswith("__"):
                    reads.setdefault(n.attr, set()).add(name)
    base_init_writes = set()
    if "__init__" in methods:
        for n in ast.walk(methods["__init__"]):
            if isinstance(n, ast.Attribute) and isinstance(n.ctx, ast.Store) and isinstance(n.value, ast.Name) and n.value.id == "self":
                base_init_writes.add(n.attr)
    m = ProjectorModel(repo)
    own_writes = set(m.init_assign)
    calls_super = any(
        isinstance(n, ast.Call) and (
            (isinstance(n.func, ast.Attribute) and n.func.attr == "__init__"
             and (norm(n.func.value) in ("super()", "LinearOperator", f"super({m.cls.name}, self)"))))
        for n in own_nodes(m.init))
    provided = own_writes | (base_init_writes if calls_super else set())
    rep.count("E6.base_state", {"scipy_interface": str(path), "methods_in_closure": len(seen),
                                "instance_attributes_read": {k: sorted(v)[:5] for k, v in sorted(reads.items())},
                                "subclass_init_calls_super": calls_super})
    for attr, users in sorted(reads.items()):
        inst = f"{CLS}.__init__ provides base-class state `{attr}`"
        if attr in provided:
            rep.ok(RULE, inst, f"read by LinearOperator.{sorted(users)[0]} (+{len(users) - 1} more)", repo.loc("linalg", m.init))
        else:
            rep.fail(RULE, f"{CLS}.__init__ never initialises `{attr}` read by the installed SciPy's LinearOperator.{sorted(users)[0]}",
                     f"installed SciPy ({path}) reads self.{attr} in {sorted(users)[:6]}; the subclass __init__ neither "
                     "assigns it nor calls super().__init__", repo.loc("linalg", m.init))
    if not reads:
        rep.ok(RULE, f"{CLS}.__init__ base-class state", "the installed SciPy needs no instance state beyond class attributes")


# ---------------------------------------------------------------------------
# constructor call sites: (right, left) argument order; projection denotation in op_eval
# ---------------------------------------------------------------------------


def rule_projector_call_sites(rep: Report, repo: Repo, with_op_eval: bool = True):
    R = "E6.sites"
    n = 0
    for mod in ("block_diagonalization", "linalg"):
        for node in ast.walk(repo.trees[mod]):
            if isinstance(node, ast.Call) and call_name(node) == "ComplementProjector":
                n += 1
                args = [norm(a) for a in node.args] + [f"{k.arg}={norm(k.value)}" for k in node.keywords]
                # bind to (vecs, left_vecs); what the names say about the family they hold ("left" / "right" in the spelling) is
                # the only information a call site gives: a contradiction is reported, silence is not
                bound = dict(zip(("vecs", "left_vecs"), [norm(a) for a in node.args]))
                bound.update({k.arg: norm(k.value) for k in node.keywords if k.arg})
                if set(bound) - {"vecs", "left_vecs"} or "vecs" not in bound:
                    raise AnalysisError(R, f"`ComplementProjector({', '.join(args)})`: arguments not understood")
                hint = lambda t: "left" if "left" in t else ("right" if "right" in t else None)
                hv, hl = hint(bound["vecs"]), hint(bound.get("left_vecs", "None"))
                ok = hv != "left" and hl != "right"
                fn = _enclosing(node)
                rep.check(ok, R, f"{mod}::{fn} `ComplementProjector({', '.join(args)})` passes (right vectors, left vectors)",
                          f"vecs <- {bound['vecs'][:50]} ({hv or 'no hint'}), left_vecs <- {bound.get('left_vecs', 'omitted')[:50]} ({hl or 'no hint'})", repo.loc(mod, node))
    rep.floor(R, "ComplementProjector construction sites", n, 4)
    if with_op_eval:
        _operator_to_blockseries(rep, repo, R)


def rule_projector_construction_sites(rep: Report, repo: Repo):
    """Only the argument roles at the construction sites (what C17 says about the class's users)."""
    rule_projector_call_sites(rep, repo, with_op_eval=False)


def _strip_seq(e):
    """tuple(X) / list(X) / [*X] -> X"""
    while isinstance(e, ast.Call) and call_name(e) in ("tuple", "list") and len(e.args) == 1:
        e = e.args[0]
    return e


def _is_adjoint_each(e, seq_name: str) -> bool:
    """(Dagger(x) for x in <seq_name>) in generator / list form, optionally wrapped in tuple()."""
    e = _strip_seq(e)
    if not isinstance(e, (ast.GeneratorExp, ast.ListComp)) or len(e.generators) != 1:
        return False
    g = e.generators[0]
    return (not g.ifs and isinstance(g.target, ast.Name) and norm(g.iter) == seq_name and isinstance(e.elt, ast.Call)
            and call_name(e.elt) == "Dagger" and len(e.elt.args) == 1 and norm(e.elt.args[0]) == g.target.id)


def _operator_to_blockseries(rep: Report, repo: Repo, R: str):
    """block (i, j) of the separated operator is L_i^H . A . R_j, with the complement projector as the last member of
    both families in implicit mode; decided on resolved expressions (local names are free)."""
    from .e2c import _const_eval
    from .resolve import env_at, resolved, run_block
    from .sem import Scope, canon, outcomes

    f = repo.find("block_diagonalization::operator_to_BlockSeries", R)
    loc = lambda x: repo.loc("block_diagonalization", x)
    ev = [d for d in nested_defs(f) if d.name == "op_eval"]
    if len(ev) != 1:
        raise AnalysisError(R, "op_eval not found")
    ev = ev[0]
    scope = Scope(repo.trees["block_diagonalization"], ev)
    outer_env = env_at(ev, f)
    # -- op_eval paths on a grid of concrete block indices ----------------------------------------------------------
    fam = set()
    n_proj = 0
    bad = set()
    for implicit in (False, True):
        for N in (2, 3):
            for a in range(N):
                for b in range(N):
                    sub = {"index[0]": a, "index[1]": b, "implicit": implicit, "hermitian": False}
                    for k, v in outer_env.items():
                        # the number of blocks, whatever the local is called: a local that is the length of a projector family
                        if isinstance(v, ast.Call) and call_name(v) == "len" and len(v.args) == 1:
                            sub[norm(v)] = N
                            sub[k] = N
                    # locals of the enclosing function (hoisted sub-expressions such as `last_block = n_blocks - 1`) are read through
                    atom = lambda n, sub=sub: _const_eval(resolved(n, outer_env), sub)
                    for o in outcomes(ev.body, scope, env={}, atom=atom, expand=False):
                        if o.kind != "return":
                            continue
                        v = o.value
                        if norm(v) == "zero":
                            # the absent-element shortcut: only when the operator's own element at these orders is `zero`
                            from .sem import canon as _canon6
                            absent = any(norm(_canon6(t)) == "operator[index[2:]] is zero" and p for t, p in o.conds)
                            if not absent:
                                bad.add(("operator_to_BlockSeries::op_eval returns `zero` only for an absent element of the operator",
                                         f"block ({a}, {b}), implicit={implicit}: `zero` is returned under "
                                         + "; ".join(f"{'' if p else 'not '}{norm(t)[:50]}" for t, p in o.conds if _const_eval(t, sub) is None)
                                         + " -- the block L_i^H A R_j of a present element is dropped", o.node))
                            continue
                        if isinstance(v, ast.Call) and call_name(v) == "_convert_if_zero" and v.args:
                            v = v.args[0]
                        if not (isinstance(v, ast.BinOp) and isinstance(v.op, ast.MatMult)):
                            continue
                        # flatten the @ chain
                        chain = []
                        def flat(e):
                            if isinstance(e, ast.BinOp) and isinstance(e.op, ast.MatMult):
                                flat(e.left); flat(e.right)
                            else:
                                chain.append(e)
                        flat(v)
                        if len(chain) != 3:
                            raise AnalysisError(R, f"op_eval returns a product of {len(chain)} factors: `{norm(v)[:80]}`")
                        L, X, Rr = chain
                        n_proj += 1
                        okL = isinstance(L, ast.Subscript) and isinstance(L.value, ast.Name) and norm(L.slice) == "index[0]"
                        okR = isinstance(Rr, ast.Subscript) and isinstance(Rr.value, ast.Name) and norm(Rr.slice) == "index[1]"
                        wrapped = isinstance(X, ast.Call) and call_name(X) == "aslinearoperator" and len(X.args) == 1
                        core = X.args[0] if wrapped else X
                        okX = norm(core) == "operator[index[2:]]"
                        if not (okL and okR and okX):
                            bad.add(("operator_to_BlockSeries::op_eval returns L_{index[0]}^H . A . R_{index[1]}",
                                     f"returns `{norm(v)[:100]}`; required <left family>[index[0]] @ operator[index[2:]] @ <right family>[index[1]]", o.node))
                            continue
                        fam.add((L.value.id, Rr.value.id))
                        want_wrap = implicit and a == b == N - 1
                        if wrapped != want_wrap:
                            bad.add(("operator_to_BlockSeries::op_eval wraps only the implicit (last, last) block as LinearOperator",
                                     f"block ({a}, {b}) of {N}, implicit={implicit}: wrapped={wrapped}", o.node))
    if not n_proj:
        raise AnalysisError(R, "op_eval: no path returning a projected block found")
    for key, detail, node in sorted(bad, key=lambda x: x[0]):
        rep.fail(R, key, detail, loc(node))
    if not any("returns L_" in k for k, _d, _n in bad):
        rep.ok(R, "operator_to_BlockSeries::op_eval returns L_{index[0]}^H . A . R_{index[1]}", f"{n_proj} projected returns on the index grid", loc(ev))
    if not any("returns `zero` only" in k for k, _d, _n in bad):
        rep.ok(R, "operator_to_BlockSeries::op_eval returns `zero` only for an absent element of the operator", "", loc(ev))
    if not any("wraps only" in k for k, _d, _n in bad):
        rep.ok(R, "operator_to_BlockSeries::op_eval wraps only the implicit (last, last) block as LinearOperator",
               "evaluated for implicit in {False, True}, 2 and 3 blocks, every (i, j)", loc(ev))
    if len(fam) != 1:
        if bad:
            return
        raise AnalysisError(R, f"op_eval uses several projector families {sorted(fam)}")
    LP, RP = next(iter(fam))
    nbs = [v_ for v_ in outer_env.values() if isinstance(v_, ast.Call) and call_name(v_) == "len" and len(v_.args) == 1]
    if not nbs:
        raise AnalysisError(R, "operator_to_BlockSeries: the number of blocks is not a straight-line local of the form len(<projectors>)")
    allowed_nb = {f"len({RP})", f"len({LP})"} | {norm(resolved(ast.parse(f"len({X_})", mode="eval").body, outer_env)) for X_ in (RP, LP)}
    rep.check(all(norm(nb) in allowed_nb for nb in nbs), R, "operator_to_BlockSeries number of blocks = number of projectors",
              str([norm(nb)[:80] for nb in nbs]), loc(f))
    # -- the two families -------------------------------------------------------------------------------------------
    un = [s for s in own_nodes(f) if isinstance(s, ast.Assign) and isinstance(s.targets[0], ast.Tuple)
          and isinstance(s.value, ast.Call) and call_name(s.value) == "_normalize_subspace_eigenvectors"]
    if len(un) != 1 or len(un[0].targets[0].elts) != 2:
        raise AnalysisError(R, "unpacking of _normalize_subspace_eigenvectors(...) not found")
    RS, LS = (norm(e) for e in un[0].targets[0].elts)
    branch = [s for s in f.body if isinstance(s, ast.If) and norm(canon(s.test)) in ("implicit", "not implicit")]
    if len(branch) != 1:
        raise AnalysisError(R, "`if implicit:` construction of the projector families not found")
    br = branch[0]
    arms = {True: br.body, False: br.orelse}
    if norm(canon(br.test)) == "not implicit":
        arms = {True: br.orelse, False: br.body}
    env_i, env_e = run_block(arms[True]), run_block(arms[False])
    cp = f"ComplementProjector(np.hstack({RS}), np.hstack({LS}))"
    cp_alts = (cp, f"ComplementProjector(vecs=np.hstack({RS}), left_vecs=np.hstack({LS}))", f"ComplementProjector(np.hstack({RS}), left_vecs=np.hstack({LS}))")

    def fam_implicit(e, first):
        e = canon(e)
        if not (isinstance(e, (ast.Tuple, ast.List)) and len(e.elts) == 2 and isinstance(e.elts[0], ast.Starred)):
            return False
        return first(e.elts[0].value) and norm(e.elts[1]) in cp_alts
    r_i, l_i = env_i.get(RP), env_i.get(LP)
    r_e, l_e = env_e.get(RP), env_e.get(LP)
    if None in (r_i, l_i, r_e, l_e):
        raise AnalysisError(R, f"projector families `{LP}`/`{RP}` are not assigned in both arms of `if implicit`")
    ok_r = fam_implicit(r_i, lambda x: norm(_strip_seq(x)) == RS) and norm(_strip_seq(r_e)) == RS
    rep.check(ok_r, R, "operator_to_BlockSeries right projectors are the right vectors R_j (+ complement projector)",
              f"implicit: `{norm(r_i)[:90]}`; explicit: `{norm(r_e)[:60]}`", loc(br))
    le = l_e
    if isinstance(le, ast.IfExp):
        t = norm(canon(le.test))
        if t == f"{LS} is not None" and norm(le.orelse) == "None":
            le = le.body
        elif t == f"{LS} is None" and norm(le.body) == "None":
            le = le.orelse
    ok_l = fam_implicit(l_i, lambda x: _is_adjoint_each(x, LS)) and _is_adjoint_each(le, LS)
    rep.check(ok_l, R, "operator_to_BlockSeries left projectors are the adjoints L_i^H (+ the same complement projector)",
              f"implicit: `{norm(l_i)[:110]}`; explicit: `{norm(l_e)[:90]}`", loc(br))
    rep.check(norm(r_i.elts[1]) in cp_alts if isinstance(r_i, (ast.Tuple, ast.List)) and len(r_i.elts) == 2 else False, R,
              "operator_to_BlockSeries complement projector is 1 - [R_1..R_k].[L_1..L_k]^H over all explicit subspaces",
              norm(r_i)[:120], loc(br))


def _role(text: str) -> str:
    t = text.split("=", 1)[-1]
    kw = text.split("=", 1)[0] if "=" in text and not text.startswith("np.") else None
    if kw == "left_vecs":
        return "left" if "left" in t else "right?"
    if kw == "vecs":
        return "right" if "left" not in t else "left?"
    if "left" in t:
        return "left"
    return "right"


def _enclosing(node):
    p = getattr(node, "_parent", None)
    while p is not None and not isinstance(p, ast.FunctionDef):
        p = getattr(p, "_parent", None)
    return p.name if p is not None else "<module>"


# ---------------------------------------------------------------------------
# subspace_indices <-> eigenvector matrices (C14)
# ---------------------------------------------------------------------------


from .resolve import rtext as rtext_


def rule_subspaces_from_indices(rep: Report, repo: Repo):
    """`subspace_indices` must designate, for block b, the identity columns {k : indices[k] == b} IN INCREASING k,
    i.e. exactly the eigenvector matrices np.eye(n)[:, indices == b] the property compares with."""
    R = "E6.indices"
    f = repo.find("block_diagonalization::_subspaces_from_indices", R)
    loc = lambda n: repo.loc("block_diagonalization", n)
    from .resolve import env_at, resolved
    # an unstable sort of the labels scrambles the states inside a block: np.argsort / np.sort / ndarray.sort default to quicksort
    for c_ in ast.walk(f):
        if isinstance(c_, ast.Call) and (call_name(c_) in ("np.argsort", "np.lexsort") or (isinstance(c_.func, ast.Attribute) and c_.func.attr == "argsort")):
            kind = {k_.arg: norm(k_.value) for k_ in c_.keywords}.get("kind")
            if call_name(c_) != "np.lexsort" and kind not in ("'stable'", "'mergesort'"):
                rep.fail(R, f"_subspaces_from_indices orders the states with `{norm(c_)[:60]}`",
                         "numpy's default sort is not stable: states that carry the same block label come out in arbitrary order, so block b is no "
                         "longer spanned by the identity columns {k : indices[k] == b} in increasing k (kind='stable' keeps the order)", loc(c_))
                return
    rets = [n for n in own_nodes(f) if isinstance(n, ast.Return) and n.value is not None]
    # the non-symbolic return gives the bases; the symbolic one converts the same bases to dense arrays
    # the symbolic return converts the bases to dense arrays (`.toarray()`); the other one returns the bases themselves
    res_all = [(r, resolved(r.value, env_at(r, f))) for r in rets]
    plain = [r for r, v in res_all if not any(isinstance(x, ast.Attribute) and x.attr in ("toarray", "todense") for x in ast.walk(v))]
    if len(plain) != 1 or len(rets) != 2:
        raise AnalysisError(R, f"_subspaces_from_indices: {len(plain)} plain returns out of {len(rets)}")
    se = resolved(plain[0].value, env_at(plain[0], f))
    comp = None
    if isinstance(se, ast.Call) and call_name(se) in ("tuple", "list") and se.args and isinstance(se.args[0], (ast.GeneratorExp, ast.ListComp)):
        comp = se.args[0]
    elif isinstance(se, (ast.ListComp, ast.GeneratorExp)):
        comp = se
    if comp is None or len(comp.generators) != 1:
        raise AnalysisError(R, "_subspaces_from_indices: construction of the per-block bases not understood")
    gen = comp.generators[0]
    elt = comp.elt
    if not (isinstance(elt, ast.Subscript) and isinstance(elt.slice, ast.Tuple)
            and len(elt.slice.elts) == 2 and norm(elt.slice.elts[0]) == ":"):
        raise AnalysisError(R, f"_subspaces_from_indices: block basis `{norm(elt)[:60]}` is not a column selection")
    base = elt.value
    while isinstance(base, ast.Call) and call_name(base) in ("sparse.csr_array", "sparse.csc_array", "np.asarray") and len(base.args) == 1:
        base = base.args[0]
    DIM = "len(subspace_indices)"
    ident = isinstance(base, ast.Call) and call_name(base) in ("sparse.identity", "sparse.eye", "np.eye", "np.identity") and base.args
    if not ident:
        raise AnalysisError(R, f"_subspaces_from_indices: `{norm(elt.value)[:60]}` is not recognised as an identity matrix")
    rep.check(norm(base.args[0]) == DIM, R, "_subspaces_from_indices starts from the identity basis of dimension len(subspace_indices)",
              norm(elt.value)[:90], loc(plain[0]))
    sel = elt.slice.elts[1]
    var = norm(gen.target)
    resolve = lambda e, depth=0: e
    se_src = plain[0]

    verdict, why = None, ""
    mask_forms = (f"subspace_indices == {var}", f"{var} == subspace_indices")
    it = norm(gen.iter)
    if it in ("range(np.max(subspace_indices) + 1)", "range(subspace_indices.max() + 1)", "range(max(subspace_indices) + 1)"):
        s = sel
        txt = norm(s)
        ordered = {f"np.compress({m}, np.arange(len(subspace_indices)))" for m in mask_forms} | {f"np.flatnonzero({m})" for m in mask_forms} | \
            {f"np.where({m})[0]" for m in mask_forms} | {f"np.nonzero({m})[0]" for m in mask_forms} | set(mask_forms) | \
            {f"({m}).nonzero()[0]" for m in mask_forms}
        if txt in ordered:
            verdict, why = True, f"columns `{txt}`: positions with label {var}, in increasing order; blocks 0 .. max label"
        else:
            verdict, why = None, f"selection `{txt}` not understood"
    elif isinstance(gen.iter, ast.Call) and call_name(gen.iter) == "np.split" and len(gen.iter.args) == 2 and norm(sel) == var:
        order, ends = resolve(gen.iter.args[0]), resolve(gen.iter.args[1])
        ends_ok = norm(ends) in ("np.cumsum(np.bincount(subspace_indices))[:-1]",)
        if isinstance(order, ast.Call) and call_name(order) == "np.argsort" and order.args and norm(order.args[0]) == "subspace_indices":
            kind = {k.arg: norm(k.value) for k in order.keywords}.get("kind")
            if not ends_ok:
                verdict, why = None, f"split points `{norm(ends)}` not understood"
            elif kind in ("'stable'", "'mergesort'"):
                verdict, why = True, "stable argsort of the labels split at the cumulative block sizes"
            else:
                verdict, why = False, ("np.argsort without kind='stable' does not keep states with equal labels in their given order: "
                                       "the columns inside a block come out permuted, so block (i, j) is no longer L_i^H A R_j for the "
                                       "eigenvector matrices np.eye(n)[:, labels == b]")
        else:
            verdict, why = None, f"ordering `{norm(order)[:60]}` not understood"
    else:
        verdict, why = None, f"iteration `{it[:60]}` not understood"
    if verdict is None:
        raise AnalysisError(R, "_subspaces_from_indices: " + why)
    if verdict:
        rep.ok(R, "_subspaces_from_indices: block b = identity columns {k : subspace_indices[k] == b} in increasing k", why, loc(se_src))
    else:
        rep.fail(R, f"_subspaces_from_indices does not keep the states of a block in their given order: `{norm(se)[:90]}`", why, loc(se_src))
    sym = [r for r in rets if r is not plain[0]]
    ok = len(sym) == 1 and rtext_(sym[0].value, env_at(sym[0], f)) in (f"tuple((_v1.toarray() for _v1 in {norm(se)}))", f"tuple((_v0.toarray() for _v0 in {norm(se)}))")
    # which return is taken: the dense one exactly for symbolic=True
    from .sem import canon as _canon, outcomes as _outcomes
    for flag in (True, False):
        atom = lambda n, flag=flag: (flag if norm(_canon(n)) == "symbolic" else None)
        taken = [o for o in _outcomes(f.body, None, env={}, atom=atom, expand=False) if o.kind == "return"]
        if len(taken) != 1:
            raise AnalysisError(R, "_subspaces_from_indices: the choice between dense and sparse bases depends on more than `symbolic`")
        ok = ok and ((taken[0].node is sym[0]) == flag if sym else False)
    rep.check(ok, R, "_subspaces_from_indices: symbolic problems get the same bases as dense arrays", "", loc(f))
    # the caller uses these bases as both left and right vectors
    otb = repo.find("block_diagonalization::operator_to_BlockSeries", R)
    call = [n for n in own_nodes(otb) if isinstance(n, ast.Assign) and isinstance(n.value, ast.Call) and call_name(n.value) == "_subspaces_from_indices"]
    ok = len(call) == 1 and norm(call[0].targets[0]) == "subspace_eigenvectors" and norm(call[0].value.args[0]) == "subspace_indices"
    rep.check(ok, R, "operator_to_BlockSeries turns subspace_indices into subspace_eigenvectors and projects with them", "", loc(otb))
