"""E1 -- equational certificate of the algorithm DSL (pymablock/algorithms.py).

For every ``with`` block of ``main`` / ``nonhermitian`` and every flag mode, the
defining equation read off the source is checked as a polynomial identity in a
free *-algebra under a frozen interpretation table.  See DESIGN.md section 3/E1.
"""

from __future__ import annotations

from fractions import Fraction as Fr

from .algebra import Algebra
from .core import AnalysisError, Repo, Report
from .dsl import Program, Series, read_program

RULE = "E1"
EXPECTED_OUTPUTS = ["H_tilde", "U", "U†"]

# flag truth per mode; a mode is only generated if the program mentions a flag in it
MODES = {
    "general": {"two_block_optimized": False, "commuting_blocks": False},
    "commuting": {"two_block_optimized": False, "commuting_blocks": True},
    "two_block": {"two_block_optimized": True, "commuting_blocks": True},
}
MODE_TYPING = {"general": set(), "commuting": {"commuting"}, "two_block": {"commuting", "two_block"}}


# ---------------------------------------------------------------------------
# interpretation tables (frozen; one line of justification each)
# ---------------------------------------------------------------------------


def table_main(mode: str):
    tb = mode == "two_block"
    types = {"h0": "S", "hs": "S", "hr": "R", "V": "R", "W": "S" if tb else None}
    herm = {"h0": 1, "hs": 1, "hr": 1, "W": 1, "V": -1}
    A = Algebra(herm, types, MODE_TYPING[mode])
    W, V = A.P("W"), A.P("V")
    # U'^dagger U' = U' U'^dagger = -(U' + U'^dagger) with U' = W + V
    A.rules = {("V", "W"): A.P("W", "V"), ("V", "V"): A.add(A.P("W", "W"), A.P("W", c=2))}
    h0, hs, hr, one = A.P("h0"), A.P("hs"), A.P("hr"), A.one()
    Up, Upd = A.add(W, V), A.sub(W, V)
    HS = A.add(h0, hs)
    H = A.add(HS, hr)
    X = A.comm(Up, HS)
    Am = A.mul(hr, Up)
    U, Ud = A.add(one, Up), A.add(one, Upd)
    Ht = A.mul(Ud, H, U)
    I = {
        "H": H,  # input: H_0 + selected part of H' + remaining part of H'
        "H'_diag": hs,  # selected part of the perturbation
        "H'_offdiag": hr,  # remaining part of the perturbation
        "V": V,  # anti-Hermitian part of U' (lives on the remaining part only)
        "W": W,  # Hermitian part of U'
        "U'": Up,
        "U'†": Upd,
        "U": U,
        "U†": Ud,
        "X": X,  # X = [U', H_S]          (docs/algorithms.md, eq. for X)
        "B": A.sub(A.sub(X, hr), Am),  # B = X - H'_R - H'_R U'
        "Yadj": A.scale(A.add(X, A.adj(X)), Fr(1, 2)),  # Hermitian part of X
        "H_tilde": A.S(Ht),  # selected part of U^dagger H U
    }
    return A, I, {"Ht": Ht, "elim": A.R(Ht), "H": H, "h0": h0, "one": one}


def table_nonhermitian(mode: str):
    types = {"h0": "S", "hs": "S", "hr": "R", "u": None, "g": None}
    herm = {"h0": 1, "hs": 1, "hr": 1}
    gauge = {("S", ("g",)): ("S", ("u",))}  # (U' - U_inv')_S = 0
    A = Algebra(herm, types, MODE_TYPING[mode], s_subst=gauge, adjoint_ok=False)
    u, g = A.P("u"), A.P("g")
    ug = A.scale(A.add(u, g), -1)  # U_inv U = U U_inv = 1
    A.rules = {("g", "u"): ug, ("u", "g"): ug}
    h0, hs, hr, one = A.P("h0"), A.P("hs"), A.P("hr"), A.one()
    HS = A.add(h0, hs)
    H = A.add(HS, hr)
    X = A.comm(HS, u)
    Am = A.mul(hr, u)
    U, Ui = A.add(one, u), A.add(one, g)
    Ht = A.mul(Ui, H, U)
    I = {
        "H": H,
        "H'_diag": hs,
        "H'_offdiag": hr,
        "U'": u,
        "U_inv'": g,
        "U": U,
        "U†": Ui,  # third output: the inverse
        "X": X,  # X = [H_S, U']           (docs/nonhermitian_algorithm.md)
        "B": A.add(X, hr, Am),  # B = X + H'_R + H'_R U'
        "H_tilde": A.S(Ht),
    }
    return A, I, {"Ht": Ht, "elim": A.R(Ht), "H": H, "h0": h0, "one": one}


TABLES = {"main": table_main, "nonhermitian": table_nonhermitian}


# ---------------------------------------------------------------------------
# expression evaluation
# ---------------------------------------------------------------------------


class Evaluator:
    def __init__(self, prog: Program, A: Algebra, I: dict, flags: dict, where: str):
        self.prog, self.A, self.I, self.flags, self.where = prog, A, I, flags, where
        self.ifexps: list[tuple] = []  # (flag, arm_true, arm_false) met with flag True

    def ref(self, name: str):
        if "@" in name:
            if name not in self.prog.products:
                raise AnalysisError(RULE, f"{self.where}: product {name!r} not declared")
            return self.A.mul(*(self.ref(t) for t in self.prog.products[name].terms))
        if name not in self.I:
            raise AnalysisError(
                RULE, f"{self.where}: series {name!r} has no entry in the interpretation table"
            )
        return self.I[name]

    def flatten(self, e, coef=Fr(1)):
        """-> list of (coef, leaf) with leaf a ref/call expression."""
        k = e[0]
        if k == "zero":
            return []
        if k == "ref" or k == "call":
            return [(coef, e)]
        if k == "num":
            raise AnalysisError(RULE, f"{self.where}: bare number used as a summand")
        if k == "add":
            out = []
            for x in e[1]:
                out += self.flatten(x, coef)
            return out
        if k == "neg":
            return self.flatten(e[1], -coef)
        if k == "scale":
            return self.flatten(e[2], coef * e[1])
        if k == "ifexp":
            flag = e[1]
            if flag not in self.flags:
                raise AnalysisError(RULE, f"{self.where}: unknown flag {flag}")
            agg = e[4] if len(e) > 4 else None
            if self.flags[flag]:
                # per-block test, any(): True.  all(): True or False -- both arms are reached with the row block's flag
                # True, which is exactly the obligation `optimised arm = general arm` recorded here
                self.ifexps.append((flag, e[2], e[3]))
                return self.flatten(e[2], coef)
            if agg == "any":
                # the row block's flag is False but another block's flag may be True: the optimised arm is reached with the
                # general algebra, so it has to equal the general arm there as well
                self.ifexps.append((f"{flag} aggregated over all blocks by any(): optimised arm reached for a block whose own flag is False;", e[2], e[3]))
            return self.flatten(e[3], coef)
        raise AnalysisError(RULE, f"{self.where}: unknown expression kind {k}")

    def poly(self, e, allow_calls=False):
        """Evaluate to (poly, calls) where calls = [(coef, fname, arg_poly)]."""
        A = self.A
        total, calls = {}, []
        for coef, leaf in self.flatten(e):
            if leaf[0] == "ref":
                p = self.ref(leaf[1])
                if leaf[2]:
                    p = A.adj(p)
                total = A.add(total, A.scale(p, coef))
            else:
                _, fname, args = leaf
                if not allow_calls:
                    raise AnalysisError(RULE, f"{self.where}: nested scope-function call {fname}")
                if fname != "solve_sylvester" or len(args) != 1:
                    raise AnalysisError(
                        RULE, f"{self.where}: scope function {fname}/{len(args)} has no contract"
                    )
                arg, inner_calls = self.poly(args[0], allow_calls=False)
                calls.append((coef, fname, arg))
        return A.norm(total), calls


# ---------------------------------------------------------------------------
# obligations
# ---------------------------------------------------------------------------


def _emit(rep: Report, repo: Repo, prog: Program, mode: str, series: str, branch: str,
          kind: str, A: Algebra, residual: dict, node, elim=None, stats=None):
    inst = f"{prog.name}[{mode}]::{series}[{branch}] {kind}"
    where = repo.loc("algorithms", node)
    if residual == {}:
        rep.ok(RULE, inst, "residual 0", where)
        return
    if elim is not None and elim:
        k = A.proportional(residual, elim)
        if k is not None and k != 0:
            rep.ok(RULE, inst, f"residual = {k} * R[U_inv H U]  (this equation imposes the elimination condition)", where)
            if stats is not None:
                stats["elim_imposed"] = stats.get("elim_imposed", 0) + 1
            return
    res = A.show(residual)
    key = f"algorithms.py::{prog.name}::{series}[{branch}] {kind} residual {res}"
    rep.fail(RULE, key, f"mode={mode}: identity does not close, residual {res}", where,
             mode=mode)


def check_program(rep: Report, repo: Repo, pname: str) -> dict:
    func = repo.find(f"algorithms::{pname}", RULE)
    prog = read_program(func)
    stats = {"program": pname, "series": len(prog.series), "products": len(prog.products),
             "modes": [], "obligations": 0}
    flags_used = prog.flags()
    modes = ["general"]
    if "commuting_blocks" in flags_used:
        modes.append("commuting")
    if "two_block_optimized" in flags_used:
        if "commuting" not in modes:
            modes.append("commuting")
        modes.append("two_block")
    if prog.outputs != EXPECTED_OUTPUTS:
        rep.fail(RULE, f"algorithms.py::{pname}::return outputs {prog.outputs}",
                 f"outputs {prog.outputs} differ from the names block_diagonalize reads {EXPECTED_OUTPUTS}",
                 repo.loc("algorithms", func))
    else:
        rep.ok(RULE, f"{pname}::return", "outputs are H_tilde, U, U†")
    inputs = prog.inputs()
    if inputs != {"H"}:
        raise AnalysisError(RULE, f"{pname}: inputs {sorted(inputs)} (expected only 'H')")

    for mode in modes:
        A, I, X = TABLES[pname](mode)
        flags = MODES[mode]
        stats["modes"].append(mode)
        n_before = len(rep.instances)
        # -- algebra sanity: critical pairs associate ------------------------------
        gens = sorted({a for pair in A.rules for a in pair})
        for a in gens:
            for b in gens:
                for c in gens:
                    l = A.mul(A.mul(A.P(a), A.P(b)), A.P(c))
                    r = A.mul(A.P(a), A.mul(A.P(b), A.P(c)))
                    if l != r:
                        raise AnalysisError(RULE, f"rewrite system not confluent on {a}.{b}.{c}")
        # -- per-series obligations --------------------------------------------------
        for s in prog.series.values():
            _series_obligations(rep, repo, prog, s, mode, A, I, X, flags, stats)
        # -- products ------------------------------------------------------------------
        for p in prog.products.values():
            ev = Evaluator(prog, A, I, flags, f"{pname}::{p.name}")
            for t in p.terms:
                ev.ref(t)  # every factor must be interpretable
            if p.hermitian:
                if not A.adjoint_ok:
                    raise AnalysisError(RULE, f"{pname}: hermitian product in a non-Hermitian program")
                if len(p.terms) == 2:
                    res = A.sub(A.adj(ev.ref(p.terms[0])), ev.ref(p.terms[1]))
                    _emit(rep, repo, prog, mode, p.name, "product", "hermitian flag: factors are mutual adjoints", A, res, p.node)
                else:
                    pp = ev.ref(p.name)
                    _emit(rep, repo, prog, mode, p.name, "product", "hermitian flag: product is Hermitian", A, A.sub(A.adj(pp), pp), p.node)
        # -- outputs ---------------------------------------------------------------------
        one = X["one"]
        U, Ui, Ht = I["U"], I["U†"], X["Ht"]
        _emit(rep, repo, prog, mode, "U†·U", "outputs", "= 1", A, A.sub(A.mul(Ui, U), one), func)
        _emit(rep, repo, prog, mode, "U·U†", "outputs", "= 1", A, A.sub(A.mul(U, Ui), one), func)
        _emit(rep, repo, prog, mode, "H_tilde", "outputs", "= S[U_inv H U]", A,
              A.sub(I["H_tilde"], A.S(Ht)), func)
        if A.adjoint_ok:
            _emit(rep, repo, prog, mode, "U†", "outputs", "= adj(U)", A, A.sub(A.adj(U), Ui), func)
            _emit(rep, repo, prog, mode, "U†HU", "outputs", "Hermitian", A, A.sub(A.adj(Ht), Ht), func)
            # gauge: anti-Hermitian part of U' is V and V has no selected part
            Up = I["U'"]
            _emit(rep, repo, prog, mode, "gauge", "outputs", "antiherm(U') = V", A,
                  A.sub(A.scale(A.sub(Up, A.adj(Up)), Fr(1, 2)), I["V"]), func)
            _emit(rep, repo, prog, mode, "gauge", "outputs", "S[V] = 0", A, A.S(I["V"]), func)
        else:
            _emit(rep, repo, prog, mode, "gauge", "outputs", "S[U' - U_inv'] = 0", A,
                  A.S(A.sub(I["U'"], I["U_inv'"])), func)
        if stats.get("elim_imposed", 0) == 0:
            rep.fail(RULE, f"algorithms.py::{pname}::elimination-not-imposed",
                     f"mode={mode}: no recurrence imposes R[U_inv H U] = 0", repo.loc("algorithms", func))
        stats["elim_imposed"] = 0
        stats["obligations"] += len(rep.instances) - n_before
    return stats


def _series_obligations(rep, repo, prog: Program, s: Series, mode, A: Algebra, I, X, flags, stats):
    pname = prog.name
    where = f"{pname}::{s.name}"
    if s.name not in I:
        raise AnalysisError(RULE, f"{where}: no entry in the interpretation table")
    L = I[s.name]
    # start value ------------------------------------------------------------------
    if s.start is None:
        c0 = None
    elif s.start == 0:
        c0 = {}
    elif s.start == 1:
        c0 = X["one"]
    else:
        src = s.start[:-2] if isinstance(s.start, str) and s.start.endswith("_0") and s.start[:-2] in prog.inputs() else s.start
        if src not in prog.inputs():
            raise AnalysisError(RULE, f"{where}: start {s.start!r} does not name an input series")
        c0 = A.order0(I[src])
    if c0 is not None:
        _emit(rep, repo, prog, mode, s.name, "start", "order-0 value", A,
              A.sub(A.order0(L), c0), s.node)
    proj = A.positive if c0 is not None else (lambda p: p)

    conds = {b.cond for b in s.branches}
    if "lower" in conds:
        raise AnalysisError(RULE, f"{where}: explicit `lower` branch is not supported")
    evald = []  # (cond, poly, calls, node)
    for b in s.branches:
        ev = Evaluator(prog, A, I, flags, f"{where}[{b.cond}]")
        p, cs = ev.poly(b.expr, allow_calls=(b.cond == "offdiagonal"))
        evald.append((b.cond, p, cs, b.node))
        # flag consistency: the optimised arm equals the general arm under the branch projection
        P_b = {"diagonal": A.S, "offdiagonal": A.R, "default": (lambda q: q)}[b.cond]
        for flag, arm_t, arm_f in ev.ifexps:
            ev2 = Evaluator(prog, A, I, flags, f"{where}[{b.cond}]")
            pt, _ = ev2.poly(arm_t)
            pf, _ = ev2.poly(arm_f)
            _emit(rep, repo, prog, mode, s.name, b.cond,
                  f"flag {flag}: optimised arm = general arm", A,
                  proj(P_b(A.sub(pt, pf))), b.node)

    def side(names):
        total, calls, node = {}, [], None
        for cond, p, cs, n in evald:
            if cond in names:
                total = A.add(total, p)
                calls += cs
                node = node or n
        return total, calls, node

    if conds <= {"default"}:
        rhs, calls, node = side(["default"])
        if calls:
            raise AnalysisError(RULE, f"{where}: scope function in an unconditional branch")
        _emit(rep, repo, prog, mode, s.name, "default", "definition", A,
              proj(A.sub(L, rhs)), node or s.node, X["elim"], stats)
    else:
        rhs_s, calls_s, node_s = side(["diagonal", "default"])
        if calls_s:
            raise AnalysisError(RULE, f"{where}: scope function in a diagonal/default branch")
        _emit(rep, repo, prog, mode, s.name, "diagonal", "definition (selected part)", A,
              proj(A.sub(A.S(L), A.S(rhs_s))), node_s or s.node, X["elim"], stats)
        rhs_r, calls_r, node_r = side(["offdiagonal", "default"])
        if not calls_r:
            _emit(rep, repo, prog, mode, s.name, "offdiagonal", "definition (remaining part)", A,
                  proj(A.sub(A.R(L), A.R(rhs_r))), node_r or s.node, X["elim"], stats)
        else:
            # contract of the scope function: H0.T - T.H0 = Y for T = solve_sylvester(Y)
            h0 = X["h0"]
            T = A.sub(A.R(L), A.R(rhs_r))
            lhs = A.comm(h0, T)
            rhs = {}
            for coef, _f, arg in calls_r:
                rhs = A.add(rhs, A.scale(A.R(arg), coef))
            _emit(rep, repo, prog, mode, s.name, "offdiagonal",
                  "Sylvester equation [H_0, .] = R[rhs]", A, proj(A.sub(lhs, rhs)),
                  node_r or s.node, X["elim"], stats)
    # symmetry marker ----------------------------------------------------------------
    if s.marker:
        if not A.adjoint_ok:
            raise AnalysisError(RULE, f"{where}: symmetry marker in a non-Hermitian program")
        sign = 1 if s.marker == "hermitian" else -1
        _emit(rep, repo, prog, mode, s.name, "marker", f"{s.marker}: adj = {sign:+d} * self", A,
              A.sub(A.adj(L), A.scale(L, sign)), s.node)


def rule_e1(rep: Report, repo: Repo, programs=("main",)):
    all_stats = []
    for p in programs:
        all_stats.append(check_program(rep, repo, p))
    rep.count("E1", all_stats)
    n = sum(1 for i in rep.instances if i.rule == RULE)
    rep.floor(RULE, "obligations", n, 30 if "main" in programs else 15)
