"""E7 (path-based) -- the diagonal Sylvester solver and its shared-eigenvalue check.

Every syntactic path of the nested solver is enumerated with flow-sensitive name
resolution and helper inlining (sv/sem.py); the *resolved* returned expression of each
path is analysed, so local renames, extracted helpers, split statements, mirrored
comparisons or swapped ``np.where`` arms do not matter.

Contract (C16):  T = solve_sylvester(Y, index),  H0_i T - T H0_j = Y,
T = Y (.) 1/(E_i[row] - E_j[col]),  0 where |E_i - E_j| <= atol.
"""

from __future__ import annotations

import ast

from .core import AnalysisError, Repo, Report, call_name, nested_defs, norm, own_nodes
from .e7 import _delegation, LOSSY_CALLS
from .sem import Scope, canon, ctext, outcomes

RULE = "E7"
MOD = "block_diagonalization"


def _parents(root):
    par = {}
    for n in ast.walk(root):
        for c in ast.iter_child_nodes(n):
            par[id(c)] = n
    return par


class RRoles:
    """Roles on fully resolved expressions."""

    def __init__(self, eigs_name: str):
        self.eigs = eigs_name

    def role(self, e, depth=0):
        if depth > 10:
            return (None, None)
        if isinstance(e, ast.Subscript):
            if norm(e.value) == self.eigs:
                sl = norm(e.slice)
                return {"index[0]": ("A", "1d"), "index[1]": ("B", "1d")}.get(sl, ("?", None))
            o, _ = self.role(e.value, depth + 1)
            if o in ("A", "B"):
                t = norm(e.slice)
                if t.endswith(".row") and "tocoo" in t:
                    return (o, "rows")
                if t.endswith(".col") and "tocoo" in t:
                    return (o, "cols")
                if t in ("Y.nonzero()[0]",):
                    return (o, "rows")
                if t in ("Y.nonzero()[1]",):
                    return (o, "cols")
                return (o, "?")
            return (None, None)
        if isinstance(e, ast.Call):
            if isinstance(e.func, ast.Attribute) and e.func.attr == "reshape":
                o, _ = self.role(e.func.value, depth + 1)
                args = [norm(a) for a in e.args]
                if len(e.args) == 1 and isinstance(e.args[0], ast.Tuple):
                    args = [norm(a) for a in e.args[0].elts]
                if o in ("A", "B"):
                    return (o, {("-1", "1"): "rows", ("1", "-1"): "cols"}.get(tuple(args), "?"))
            if call_name(e) in ("np.array", "np.asarray", "np.atleast_1d") and e.args:
                return self.role(e.args[0], depth + 1)
        if isinstance(e, ast.Subscript) is False and isinstance(e, ast.Attribute) and e.attr == "T":
            o, ax = self.role(e.value, depth + 1)
            return (o, {"rows": "cols", "cols": "rows"}.get(ax, ax))
        if isinstance(e, ast.IfExp):
            a, b = self.role(e.body, depth + 1), self.role(e.orelse, depth + 1)
            if a[0] == b[0] and a[0] in ("A", "B"):
                axes = {a[1], b[1]} - {"1d"}
                return (a[0], axes.pop() if len(axes) == 1 else ("1d" if not axes else "?"))
        return (None, None)


def _branch_label(conds) -> str:
    texts = [(ctext(t), p) for t, p in conds]
    lab = []
    impl = any("vecs_implicit is not None" in t and p for t, p in texts)
    if impl:
        if any("index[1] == len(" in t and p for t, p in texts):
            lab.append("right-implicit")
        elif any("index[0] == len(" in t and p for t, p in texts):
            lab.append("left-implicit")
        else:
            lab.append("implicit")
    for t, p in texts:
        if not p:
            continue
        if "isinstance(Y, np.ndarray)" in t:
            lab.append("dense")
        elif "issparse(Y)" in t:
            lab.append("sparse")
        elif "isinstance(Y, sympy.MatrixBase)" in t and "np.equal" not in t:
            lab.append("sympy")
    return "/".join(dict.fromkeys(lab)) or "other"


def _nondegenerate_when_true(cond, is_diff):
    """np.abs(diff) > atol -> True ; <= -> False ; not(...) flips; else None."""
    if isinstance(cond, ast.UnaryOp) and isinstance(cond.op, (ast.Invert, ast.Not)):
        r = _nondegenerate_when_true(cond.operand, is_diff)
        return None if r is None else not r
    if isinstance(cond, ast.Compare) and len(cond.ops) == 1:
        l, r, op = cond.left, cond.comparators[0], cond.ops[0]

        def is_abs_diff(x):
            return isinstance(x, ast.Call) and call_name(x) in ("np.abs", "abs", "np.absolute") and x.args and is_diff(x.args[0])

        def is_tol(x):
            return norm(x) in ("atol", "eigenvalue_atol") or (isinstance(x, ast.Constant) and isinstance(x.value, (int, float)) and x.value >= 0)
        if is_abs_diff(l) and is_tol(r):
            return {ast.Gt: True, ast.GtE: True, ast.Lt: False, ast.LtE: False}.get(type(op))
        if is_abs_diff(r) and is_tol(l):
            return {ast.Lt: True, ast.LtE: True, ast.Gt: False, ast.GtE: False}.get(type(op))
    return None


def analyse_value(value: ast.AST, roles: RRoles):
    """-> dict(diffs, recips, guard results, sign ok, lossy list, uses Y & recip)"""
    par = _parents(value)
    diffs = []
    for n in ast.walk(value):
        if isinstance(n, ast.BinOp) and isinstance(n.op, ast.Sub):
            lo, ro = roles.role(n.left), roles.role(n.right)
            if lo[0] in ("A", "B") and ro[0] in ("A", "B"):
                diffs.append((n, lo, ro))
    diff_texts = {norm(d[0]) for d in diffs}

    def is_diff(x):
        return norm(x) in diff_texts

    recips = []
    for n in ast.walk(value):
        if isinstance(n, ast.BinOp) and isinstance(n.op, ast.Div) and isinstance(n.left, ast.Constant) and n.left.value == 1 and is_diff(n.right):
            recips.append(n)
        elif isinstance(n, ast.BinOp) and isinstance(n.op, ast.Pow) and norm(n.right) in ("-1", "-1.0") and is_diff(n.left):
            recips.append(n)
        elif isinstance(n, ast.Call) and call_name(n) == "np.reciprocal" and n.args and is_diff(n.args[0]):
            recips.append(n)
    guards = []
    for r in recips:
        g = False
        cur, child = par.get(id(r)), r
        while cur is not None:
            if isinstance(cur, ast.Call) and call_name(cur) in ("np.where", "numpy.where") and len(cur.args) == 3:
                cond, a, b = cur.args
                pol = _nondegenerate_when_true(canon(cond), is_diff)
                in_a = any(x is r for x in ast.walk(a))
                other = b if in_a else a
                zero_other = isinstance(other, ast.Constant) and other.value == 0
                if pol is None:
                    g = f"condition `{norm(cond)[:60]}` of np.where is not a comparison of |E_i - E_j| with the absolute tolerance"
                elif (in_a == pol) and zero_other:
                    g = True
                else:
                    g = f"np.where arms are the wrong way round or the fallback is not 0: `{norm(cur)[:80]}`"
                break
            if isinstance(cur, ast.Call) and isinstance(cur.func, ast.Attribute) and cur.func.attr in ("subs", "replace", "xreplace"):
                args = [norm(x) for x in cur.args]
                if len(args) == 2 and args[0] in ("sympy.zoo", "zoo") and args[1] in ("sympy.S.Zero", "0", "S.Zero", "sympy.Integer(0)") \
                        and any(x is r for x in ast.walk(cur.func.value)):
                    g = True
                    break
            child, cur = cur, par.get(id(cur))
        guards.append((r, g))
    negs = [n for n in ast.walk(value) if isinstance(n, ast.UnaryOp) and isinstance(n.op, ast.USub) and not isinstance(n.operand, ast.Constant)]
    uses_y = any(isinstance(n, ast.Name) and n.id == "Y" for n in ast.walk(value))
    mult = any((isinstance(n, ast.BinOp) and isinstance(n.op, ast.Mult)) or
               (isinstance(n, ast.Call) and isinstance(n.func, ast.Attribute) and n.func.attr in ("multiply_elementwise", "multiply"))
               for n in ast.walk(value))
    lossy = []
    for n in ast.walk(value):
        if isinstance(n, ast.Call):
            nm = call_name(n) or ""
            if nm in ("np.array", "np.asarray") and n.args and roles.role(n.args[0])[0] in ("A", "B"):
                continue
            if any(k.arg == "dtype" for k in n.keywords):
                lossy.append(f"`dtype=` in `{norm(n)[:60]}`")
            if isinstance(n.func, ast.Attribute) and n.func.attr in ("astype", "round", "view"):
                lossy.append(f"`.{n.func.attr}(...)`")
            if nm in LOSSY_CALLS:
                lossy.append(f"`{nm}(...)`")
        if isinstance(n, ast.Attribute) and n.attr in ("real", "imag"):
            lossy.append(f"`.{n.attr}`")
    return dict(diffs=diffs, recips=recips, guards=guards, negs=negs, uses_y=uses_y, mult=mult, lossy=sorted(set(lossy)))


def _has_recip(e, a):
    texts = {norm(r) for r in a["recips"]}
    return any(norm(n) in texts for n in ast.walk(e))


def _has_y(e):
    """Does the expression use the VALUES of Y (uses of its sparsity pattern / shape only do not count)?"""
    structural = set()
    for n in ast.walk(e):
        if isinstance(n, ast.Attribute) and n.attr in ("shape", "row", "col") :
            for m in ast.walk(n.value):
                structural.add(id(m))
        if isinstance(n, ast.Call) and isinstance(n.func, ast.Attribute) and n.func.attr == "nonzero":
            for m in ast.walk(n.func.value):
                structural.add(id(m))
    return any(isinstance(n, ast.Name) and n.id == "Y" and id(n) not in structural for n in ast.walk(e))


def _ypart(e) -> bool:
    """Y, Y.tocoo().data, Y @ V, Dagger(V) @ Y (no denominators inside)."""
    t = norm(e)
    if t in ("Y", "Y.tocoo().data", "Y.data"):
        return True
    if isinstance(e, ast.BinOp) and isinstance(e.op, ast.MatMult):
        return (_ypart(e.left) and not _has_y(e.right)) or (_ypart(e.right) and not _has_y(e.left))
    return False


def _strip_neg(e):
    sign = 1
    while isinstance(e, ast.UnaryOp) and isinstance(e.op, ast.USub):
        e, sign = e.operand, -sign
    return e, sign


def _product_sign(e, a):
    """+1 / -1 if e is (a possibly negated) element-wise product of a Y-part and the denominators, else None."""
    e, s0 = _strip_neg(e)
    pair = None
    if isinstance(e, ast.BinOp) and isinstance(e.op, ast.Mult):
        pair = (e.left, e.right)
    elif isinstance(e, ast.Call) and isinstance(e.func, ast.Attribute) and e.func.attr in ("multiply_elementwise", "multiply") and len(e.args) == 1:
        pair = (e.func.value, e.args[0])
    elif isinstance(e, ast.Call) and call_name(e) == "np.multiply" and len(e.args) == 2:
        pair = tuple(e.args)
    if pair is None:
        return None
    (x, sx), (y, sy) = _strip_neg(pair[0]), _strip_neg(pair[1])
    if (_ypart(x) and _has_recip(y, a) and not _has_y(y)) or (_ypart(y) and _has_recip(x, a) and not _has_y(x)):
        return s0 * sx * sy
    return None


def _is_product(e, a) -> bool:
    return _product_sign(e, a) is not None


def result_form(value, a):
    """'product' if the value is the element-wise product (possibly re-wrapped as a sparse array or mapped back from the
    auxiliary eigenbasis); a description if a product is further processed / negated; None if no product is found."""
    e = value
    if _is_product(e, a):
        return "product" if _product_sign(e, a) == 1 else "the NEGATED product"
    # sparse rebuild: csr_array((data, (row, col)), shape) with data the product, row/col/shape those of Y
    if isinstance(e, ast.Call) and (call_name(e) or "").split(".")[-1] in ("csr_array", "csr_matrix", "coo_array", "coo_matrix") and e.args \
            and isinstance(e.args[0], ast.Tuple) and len(e.args[0].elts) == 2 and isinstance(e.args[0].elts[1], ast.Tuple):
        data, (row, col) = e.args[0].elts[0], e.args[0].elts[1].elts
        rc = (norm(row), norm(col))
        if _is_product(data, a):
            if _product_sign(data, a) != 1:
                return "the NEGATED product"
            if rc in (("Y.tocoo().row", "Y.tocoo().col"), ("Y.nonzero()[0]", "Y.nonzero()[1]")):
                extra = [k.arg for k in e.keywords if k.arg != "shape"] + [norm(x) for x in e.args[2:]]
                kw_shape = [norm(k.value) for k in e.keywords if k.arg == "shape"]
                pos_shape = [norm(e.args[1])] if len(e.args) >= 2 else []
                shapes = kw_shape + pos_shape
                shape_ok = len(shapes) == 1 and shapes[0] in ("Y.tocoo().shape", "Y.shape")
                if shape_ok and not extra and len(e.args) <= 2:
                    return "product"
                return "the product re-wrapped with extra arguments " + str(extra)
            return f"the product placed at ({rc[0]}, {rc[1]}) instead of (row, col) of Y"
    # implicit block: (product in the auxiliary basis) mapped back with the same vectors
    if isinstance(e, ast.BinOp) and isinstance(e.op, ast.MatMult):
        l, r = e.left, e.right
        if _is_product(l, a) and not _has_y(r) and norm(r) in ("Dagger(vecs_implicit)", "vecs_implicit.conj().T"):
            return "product" if _product_sign(l, a) == 1 else "the NEGATED product"
        if _is_product(r, a) and not _has_y(l) and norm(l) == "vecs_implicit":
            return "product" if _product_sign(r, a) == 1 else "the NEGATED product"
    # a product somewhere inside, with something applied on top
    inner = [n for n in ast.walk(e) if n is not e and _is_product(n, a)]
    if inner:
        if isinstance(e, ast.UnaryOp) and isinstance(e.op, ast.USub) and _is_product(e.operand, a):
            return "the NEGATED product"
        return f"the product with further operations applied to it (`{norm(e)[:70]}`)"
    return None


def _solver(repo: Repo):
    outer = repo.find(f"{MOD}::solve_sylvester_diagonal", RULE)
    inner = [d for d in nested_defs(outer) if len(d.args.args) == 2 and [a.arg for a in d.args.args][1] == "index"]
    if len(inner) != 1:
        raise AnalysisError(RULE, "nested solver (Y, index) of solve_sylvester_diagonal not found")
    f = inner[0]
    if [a.arg for a in f.args.args] != ["Y", "index"]:
        raise AnalysisError(RULE, f"unexpected solver signature {[a.arg for a in f.args.args]}")
    return outer, f


def rule_diagonal_solver(rep: Report, repo: Repo, complex_energies: bool = True):
    outer, f = _solver(repo)
    loc = lambda n: repo.loc(MOD, n)
    eigs_name = outer.args.args[0].arg
    roles = RRoles(eigs_name)
    scope = Scope(repo.trees[MOD], f)
    outs = outcomes(f.body, scope)
    seen = set()
    kinds = set()
    n_zero_pass = 0
    for o in outs:
        if o.kind == "raise":
            continue
        if o.kind != "return" or o.value is None:
            rep.fail(RULE, f"{MOD}::solve_sylvester_diagonal can finish without returning a solution",
                     "path conditions: " + "; ".join(f"{'' if p else 'not '}{t[:50]}" for t, p in o.cond_texts()), loc(o.node or f))
            continue
        label = _branch_label(o.conds)
        vt = norm(o.value)
        if (label, vt) in seen:
            continue
        seen.add((label, vt))
        ytest = [(t, p) for t, p in o.cond_texts() if t in ("Y is zero",)]
        if vt == "zero":
            ok = any(p for _t, p in ytest)
            n_zero_pass += ok
            rep.check(ok, RULE, f"{MOD}::solve_sylvester_diagonal `zero` is returned only for an absent right-hand side",
                      "; ".join(t for t, _ in o.cond_texts())[:120], loc(o.node))
            continue
        # delegation to the solver itself
        if any(isinstance(n, ast.Call) and call_name(n) == f.name for n in ast.walk(o.value)):
            den = _delegation(o.value, f.name)
            inst = f"{MOD}::solve_sylvester_diagonal [{label}] returns `{vt[:80]}`"
            if den is None:
                raise AnalysisError(RULE, f"solver path [{label}] returns a value by a route that is not understood: `{vt[:80]}`")
            if den == "ok":
                rep.ok(RULE, inst + " = Y (.) 1/(E_i[row] - E_j[col])", "delegation with the contract's kernel", loc(o.node))
            elif den == "Y (.) conj(K(i,j))" and not complex_energies:
                rep.ok(RULE, inst + " = Y (.) conj(K(i,j))", "equal to the contract's kernel for the real energies of a Hermitian H_0 "
                       "(reported by the properties that cover complex energies: C05, C06, C16)", loc(o.node))
            else:
                rep.fail(RULE, f"{MOD}::solve_sylvester_diagonal branch returns `{vt[:80]}` which denotes {den}",
                         "required Y (.) K(i,j) with K(i,j)[r,c] = 1/(E_i[r] - E_j[c]); note K(j,i) = -K(i,j)^T, so "
                         "-Dagger(solve(Dagger(Y), swapped)) = Y (.) conj(K(i,j)) is only right for real energies", loc(o.node))
            continue
        outers = [c_ for c_ in ast.walk(o.value) if isinstance(c_, ast.Call) and call_name(c_) in ("np.subtract.outer", "numpy.subtract.outer")
                  and len(c_.args) == 2 and all(eigs_name in norm(x_) for x_ in c_.args)]
        if outers and "right-implicit" in label:
            # the column block is the implicit one there: its energies are a genuine 1-d array, and outer(E_a, E_b) broadcasts like
            # E_a.reshape(-1, 1) - E_b whatever the shape of E_a
            rep.ok(RULE, f"{MOD}::solve_sylvester_diagonal[{label}] energy difference = E_i[row] - E_j[col]", f"`{norm(outers[0])[:70]}` (1-d column energies)", loc(o.node))
            kinds.add(label)
            continue
        if outers:
            kinds.add(label)
            rep.fail(RULE, f"{MOD}::solve_sylvester_diagonal[{label}] forms the energy differences with `{norm(outers[0])[:70]}`",
                     "np.subtract.outer(E_a, E_b) has shape E_a.shape + E_b.shape: with the 0-d zero of a vanishing column block (what "
                     "_extract_diagonal stores for it) the result is one-dimensional and broadcasts along the COLUMNS of Y, so V_ij is divided "
                     "by E_a[j]; `E_a.reshape(-1, 1) - E_b` is (n_a, 1) in that case", loc(o.node))
            continue
        a = analyse_value(o.value, roles)
        if not a["diffs"]:
            raise AnalysisError(RULE, f"solver path [{label}] returns `{vt[:80]}`: no energy difference recognised")
        kinds.add(label)
        for n, lo, ro in a["diffs"]:
            ok = lo == ("A", "rows") and ro[0] == "B" and ro[1] in ("cols", "1d")
            inst = f"{MOD}::solve_sylvester_diagonal[{label}] energy difference"
            if ok:
                rep.ok(RULE, inst + " = E_i[row] - E_j[col]", f"`{norm(n)[:70]}` roles {lo} - {ro}", loc(o.node))
            else:
                rep.fail(RULE, inst + f" `{norm(n)[:70]}` has roles {lo} - {ro}",
                         "required E_{index[0]}[row] - E_{index[1]}[col] (contract H0_i.T - T.H0_j = Y)", loc(o.node))
        if not a["recips"]:
            rep.fail(RULE, f"{MOD}::solve_sylvester_diagonal[{label}] no reciprocal of the energy difference in the result `{vt[:70]}`",
                     "the solution must be Y (.) 1/(E_i - E_j)", loc(o.node))
        reachable_diag = "implicit" not in label
        for r, g in a["guards"]:
            inst = f"{MOD}::solve_sylvester_diagonal[{label}] reciprocal of the energy difference"
            if not reachable_diag:
                rep.ok(RULE, inst + " (implicit block: never a diagonal block pair)", "no zero-guard required", loc(o.node))
            elif g is True:
                rep.ok(RULE, inst + " is guarded against coinciding energies", "degenerate pairs give 0, not inf/NaN", loc(o.node))
            else:
                rep.fail(RULE, f"{MOD}::solve_sylvester_diagonal[{label}] reciprocal `{norm(r)[:60]}` unguarded against |E_i - E_j| <= atol",
                         "this branch is reachable with index[0] == index[1] (kept degenerate pairs of a fully-diagonalised or masked "
                         "block): 1/0 gives inf/NaN instead of 0" + (f"; {g}" if isinstance(g, str) else ""), loc(o.node))
        # the (rows, 1) x (cols,) difference is brought to the shape of Y by BROADCASTING; np.resize repeats the flattened data instead,
        # which differs as soon as one of the two energy arrays is the 0-d zero of a vanishing block (fixed defect F11)
        for rz in [c_ for c_ in ast.walk(o.value) if isinstance(c_, ast.Call) and call_name(c_) in ("np.resize", "numpy.resize")
                   and c_.args and any(n_ is d_[0] for d_ in a["diffs"] for n_ in ast.walk(c_.args[0]))]:
            rep.fail(RULE, f"{MOD}::solve_sylvester_diagonal[{label}] shapes the energy denominators with np.resize: `{norm(rz)[:80]}`",
                     "np.resize repeats the flattened array: for a column block with scalar zero energies the (n_a, 1) column of "
                     "1/(E_a - 0) is tiled row-major, so V_ij is divided by the energy of another state; np.broadcast_to is the intended operation",
                     loc(o.node))
        form = result_form(o.value, a)
        if form is None:
            raise AnalysisError(RULE, f"solver path [{label}]: the returned expression `{vt[:90]}` is not recognised as an element-wise product")
        if form == "product":
            rep.ok(RULE, f"{MOD}::solve_sylvester_diagonal[{label}] result is +Y (.) denominators", f"`{vt[:90]}`", loc(o.node))
        else:
            rep.fail(RULE, f"{MOD}::solve_sylvester_diagonal[{label}] returns {form}",
                     f"the contract is T = Y (.) 1/(E_i - E_j) itself; `{vt[:110]}`", loc(o.node))
        rep.check(not a["lossy"], RULE, f"{MOD}::solve_sylvester_diagonal[{label}] the quotient is returned without a lossy conversion",
                  ("found " + "; ".join(a["lossy"]) + ": Y / (E_i - E_j) is not representable in the dtype of an integer (or real) right-hand side")
                  if a["lossy"] else "no dtype=, astype, rounding or real/imag projection on the result path", loc(o.node))
    need = {"dense", "sparse", "sympy"}
    if not need <= {k.split("/")[-1] for k in kinds}:
        raise AnalysisError(RULE, f"value-type branches found {sorted(kinds)}; expected at least dense, sparse, sympy")
    rep.check(n_zero_pass >= 1, RULE, f"{MOD}::solve_sylvester_diagonal absent right-hand side gives absent solution", "", loc(f))
    raises = [o for o in outs if o.kind == "raise" and o.value is not None and "TypeError" in norm(o.value)]
    rep.check(bool(raises), RULE, f"{MOD}::solve_sylvester_diagonal unsupported right-hand-side type raises TypeError (total)", "", loc(f))


# ---------------------------------------------------------------------------
# shared-eigenvalue check
# ---------------------------------------------------------------------------


def _energy_divisions_elsewhere(rep: Report, repo: Repo, R: str):
    """The shared-eigenvalue rejection lives in solve_sylvester_diagonal.  It protects every division by a difference of
    unperturbed energies only if no other solver divides by such a difference itself: in solve_sylvester_KPM and
    solve_sylvester_direct the explicit part must go through solve_sylvester_diagonal (or the Green's functions)."""
    from .resolve import env_at, resolved
    n = 0
    for q in ("solve_sylvester_KPM", "solve_sylvester_direct"):
        outer = repo.find(f"{MOD}::{q}", R)
        for fn in [outer, *[d for d in ast.walk(outer) if isinstance(d, ast.FunctionDef) and d is not outer]]:
            for node in own_nodes(fn):
                den = None
                if isinstance(node, ast.BinOp) and isinstance(node.op, ast.Div):
                    den = node.right
                elif isinstance(node, ast.BinOp) and isinstance(node.op, ast.Pow) and norm(node.right) in ("-1", "-1.0"):
                    den = node.left
                elif isinstance(node, ast.Call) and call_name(node) == "np.reciprocal" and node.args:
                    den = node.args[0]
                if den is None:
                    continue
                n += 1
                env = env_at(node, fn, keep_params=True)
                # names captured from the enclosing solver are resolved there too (what `eigs`, `aux_eigs` ... are)
                if fn is not outer:
                    env = {**{k_: v_ for k_, v_ in env_at(fn, outer, keep_params=True).items() if k_ not in env}, **env}
                d = resolved(den, env)
                for _ in range(3):  # values of the inner function mention names of the enclosing one
                    d2 = resolved(d, env)
                    if norm(d2) == norm(d):
                        break
                    d = d2
                subs = [x for x in ast.walk(d) if isinstance(x, ast.BinOp) and isinstance(x.op, ast.Sub)]
                energy = lambda e_: any((isinstance(y, ast.Attribute) and y.attr == "diagonal") or
                                        (isinstance(y, ast.Name) and y.id in ("eigs", "eigenvalues", "eigs_rescaled")) for y in ast.walk(e_))
                if any(energy(x.left) and energy(x.right) for x in subs):
                    rep.fail(R, f"{MOD}::{q} divides by a difference of unperturbed energies itself: `{norm(node)[:70]}`",
                             "outside solve_sylvester_diagonal nothing rejects two coupled blocks that share an eigenvalue: the quotient is inf / "
                             "1e16 and the result is silent garbage", repo.loc(MOD, node))
    rep.count("E7.shared.divisions_in_other_solvers", n)


def rule_shared_eigenvalue_check(rep: Report, repo: Repo, divisions: bool = True):
    R = "E7.shared"
    from .cfg import CFG

    if divisions:
        _energy_divisions_elsewhere(rep, repo, R)

    outer, f = _solver(repo)
    loc = lambda n: repo.loc(MOD, n)
    eigs_name = outer.args.args[0].arg
    roles = RRoles(eigs_name)
    scope = Scope(repo.trees[MOD], f)
    outs = outcomes(f.body, scope)
    raising = [o for o in outs if o.kind == "raise" and o.value is not None and "ValueError" in norm(o.value) and "share" in norm(o.value)]
    if not raising:
        rep.fail(R, f"{MOD}::solve_sylvester_diagonal shared-eigenvalue rejection missing", "no path raises ValueError(... share eigenvalues ...)", loc(f))
        return
    # the decisive condition: the last condition on the raising path
    ok_all = True
    detail = ""
    for o in raising:
        test, pol = o.conds[-1]
        t = canon(test)
        if not pol and isinstance(t, ast.UnaryOp) and isinstance(t.op, ast.Not):
            t, pol = t.operand, True
        good = False
        if pol and isinstance(t, ast.Call) and call_name(t) in ("np.any", "any") and t.args and isinstance(t.args[0], ast.Call) and len(t.args[0].args) >= 2:
            c = t.args[0]
            ra, rb = roles.role(c.args[0]), roles.role(c.args[1])
            fn = c.func
            fns = {norm(x) for x in ast.walk(fn) if isinstance(x, ast.Attribute) and norm(x).startswith("np.")}
            # all level pairs: an outer (column x row) comparison that does not look at which elements Y couples
            mentions_y = any(isinstance(x, ast.Name) and x.id == "Y" for a_ in c.args[:2] for x in ast.walk(a_))
            good = {ra[0], rb[0]} == {"A", "B"} and {ra[1], rb[1]} == {"rows", "cols"} and fns <= {"np.equal", "np.isclose"} and bool(fns) \
                and not mentions_y
        ok_all = ok_all and good
        detail = norm(test)[:110]
    rep.check(ok_all, R, f"{MOD}::solve_sylvester_diagonal compares every eigenvalue of block i with every eigenvalue of block j",
              detail + ("" if ok_all else "  -- required: any(compare(E_i as a column, E_j as a row)) over ALL level pairs, whatever Y couples"), loc(raising[0].node))
    # when does the check run: for every off-diagonal block pair that is not yet memoised
    from itertools import product as iproduct
    from .paths import eval_bool
    from .e5 import canon_atom
    o = raising[0]
    pre = o.conds[:-1]
    memo_names = set()
    ok = True
    unknown = []
    for t, _p in pre:
        from .paths import bool_atoms
        for at in bool_atoms(t):
            tx, _pol = canon_atom(at)
            if not (tx in ("index[0] == index[1]", "index[1] == index[0]", "Y is zero") or tx.startswith("index[:2] in ")) and tx not in unknown:
                unknown.append(tx)
    for offdiag, unchecked in iproduct([False, True], repeat=2):
        runs = False
        for extra in iproduct([False, True], repeat=len(unknown)):
            uenv = dict(zip(unknown, extra))
            def atom(n):
                t, pol = canon_atom(n)
                if t in ("index[0] == index[1]", "index[1] == index[0]"):
                    return (not offdiag) if pol else offdiag
                if t.startswith("index[:2] in "):
                    memo_names.add(t[len("index[:2] in "):])
                    return (not unchecked) if pol else unchecked
                if t == "Y is zero":
                    return (not pol)
                return uenv[t] if pol else not uenv[t]
            if all(eval_bool(t, atom) == p for t, p in pre):
                runs = True
        if runs != (offdiag and unchecked):
            ok = False
    rep.check(ok and len(memo_names) == 1, R, f"{MOD}::solve_sylvester_diagonal check runs for every not-yet-checked off-diagonal block pair",
              "; ".join(f"{'' if p else 'not '}{norm(t)[:50]}" for t, p in pre), loc(o.node))
    # memoised only after passing: on the CFG, every `<memo>.add(...)` is dominated by the no-coincidence edge
    memo = next(iter(memo_names)) if memo_names else None
    g = CFG(f)
    adds = [n for n in g.nodes if n.ast is not None and isinstance(n.ast, ast.Expr) and isinstance(n.ast.value, ast.Call)
            and memo is not None and norm(n.ast.value.func) == f"{memo}.add"]
    raise_nodes = [n for n in g.nodes if isinstance(n.ast, ast.Raise) and "share" in norm(n.ast)]
    okm = bool(adds) and bool(raise_nodes)
    for rn in raise_nodes:
        guards = g.pred[rn.id]
        if len(guards) != 1:
            okm = False
            continue
        tnode, kind = g.nodes[guards[0][0]], guards[0][1]
        other = "f" if kind == "t" else "t"
        okm = okm and all(g.dominated_by_edge(a.id, tnode.id, other) for a in adds)
    rep.check(okm, R, f"{MOD}::solve_sylvester_diagonal a block pair is memoised as checked only after passing the check",
              "an exception must not leave the pair marked as checked", loc(adds[0].ast if adds else f))
    rep.count("E7.shared.memo", memo)
    # no division precedes the check: every returning path that divides has the check's conditions before
    first_div = None
    for s in f.body:
        if any(isinstance(n, ast.BinOp) and isinstance(n.op, ast.Div) for n in ast.walk(s)):
            first_div = s
            break
    chk = None
    for s in f.body:
        if any(isinstance(n, ast.Raise) and "share" in norm(n) for n in ast.walk(s)):
            chk = s
            break
    rep.check(chk is not None and (first_div is None or f.body.index(chk) < f.body.index(first_div)), R,
              f"{MOD}::solve_sylvester_diagonal no division precedes the shared-eigenvalue check", "", loc(chk or f))


# ---------------------------------------------------------------------------
# solve_sylvester_KPM wiring on resolved expressions
# ---------------------------------------------------------------------------


def rule_kpm_wiring(rep: Report, repo: Repo):
    """The KPM solver's closures, with every local of the enclosing function resolved to what it was built from:
    extended bases EXT = (*given, auxiliary), energies per basis, the complement projector over ALL of EXT, the
    rescaling (a, b) shared by Hamiltonian and energies, and the block dispatch of the returned solver."""
    from .core import nested_defs
    from .paths import eval_bool
    from .resolve import env_at, resolved, rtext
    from .sem import Scope, canon, outcomes

    R = "E7.kpm"
    OPQ = ("solver_options",)  # the options mapping keeps its name (it may be defaulted to {} by an assignment)
    f = repo.find(f"{MOD}::solve_sylvester_KPM", R)
    loc = lambda n: repo.loc(MOD, n)
    params = [a.arg for a in f.args.args]
    if params[:2] != ["h_0", "subspace_eigenvectors"]:
        raise AnalysisError(R, f"solve_sylvester_KPM signature {params}")
    inner = [d for d in nested_defs(f) if d.name != "solve_sylvester" and d in f.body]
    outer = [d for d in f.body if isinstance(d, ast.FunctionDef) and isinstance(f.body[-1], ast.Return) and norm(f.body[-1].value) == d.name]
    if len(outer) != 1:
        raise AnalysisError(R, "the returned solver closure was not found")
    outer = outer[0]
    env_o = env_at(outer, f, keep_params=False, opaque=OPQ)
    from .sem import kwcalls as _kwcalls
    msc = Scope(repo.trees[MOD], f)

    class _Proj(ast.NodeTransformer):
        """ComplementProjector(vecs=X, left_vecs=None) reads ComplementProjector(X)"""
        def visit_Call(self, node):
            self.generic_visit(node)
            if call_name(node) == "ComplementProjector" and not any(isinstance(a_, ast.Starred) for a_ in node.args):
                b_ = dict(zip(("vecs", "left_vecs"), node.args))
                b_.update({k_.arg: k_.value for k_ in node.keywords if k_.arg})
                if set(b_) <= {"vecs", "left_vecs"} and "vecs" in b_:
                    args_ = [b_["vecs"]] + ([b_["left_vecs"]] if "left_vecs" in b_ and norm(b_["left_vecs"]) != "None" else [])
                    return ast.Call(func=node.func, args=args_, keywords=[])
            return node

    def ct(x, env=None) -> str:
        """one spelling for what is compared: resolved, keyword / positional arguments of known callees unified, comprehension
        variables alpha-renamed"""
        e_ = ast.parse(x, mode="eval").body if isinstance(x, str) else x
        e_ = resolved(resolved(e_, env or {}), {})  # (the second pass alpha-renames comprehension variables that came in through env)
        return norm(canon(_Proj().visit(_kwcalls(e_, msc))))
    AUX_ALTS = ("solver_options.get('auxiliary_vectors', np.zeros((h_0.shape[0], 0)))",)
    ext_alts = [f"(*subspace_eigenvectors, {a})" for a in AUX_ALTS]
    # the rescale unpacking: H', (a, b) = rescale(h_0, ...)
    un = [s for s in f.body if isinstance(s, ast.Assign) and isinstance(s.value, ast.Call) and call_name(s.value) == "rescale"
          and isinstance(s.targets[0], ast.Tuple) and len(s.targets[0].elts) == 2 and isinstance(s.targets[0].elts[1], ast.Tuple)
          and len(s.targets[0].elts[1].elts) == 2]
    if len(un) != 1:
        raise AnalysisError(R, "`h_rescaled, (a, b) = rescale(h_0, ...)` not found")
    H = norm(un[0].targets[0].elts[0])
    A, B = (norm(e) for e in un[0].targets[0].elts[1].elts)
    rep.check(rtext(un[0].value.args[0], env_at(un[0], f, keep_params=False, opaque=OPQ)) == "h_0", R,
              f"{MOD}::solve_sylvester_KPM rescales the unperturbed Hamiltonian", norm(un[0].value)[:80], loc(un[0]))

    # -- dispatch of the returned solver ----------------------------------------------------------------------------
    seen = {}
    for yzero in (False, True):
        for last in (False, True):
            def atom(n):
                t = norm(canon(n))
                if t == "Y is zero":
                    return yzero
                if t == "Y is not zero":
                    return not yzero
                if isinstance(n, ast.Compare) and len(n.ops) == 1 and isinstance(n.ops[0], (ast.Eq, ast.NotEq)):
                    l, r = norm(n.left), norm(n.comparators[0])
                    if "index[1]" in (l, r):
                        other = r if l == "index[1]" else l
                        o_res = rtext(ast.parse(other, mode="eval").body, env_o)
                        m = _LEN_MINUS_1.match(o_res)
                        if m:
                            seen.setdefault("last", set()).add(ct(m.group(1)))
                            return last if isinstance(n.ops[0], ast.Eq) else not last
                return None
            outs = [o for o in outcomes(outer.body, None, env={}, atom=atom, expand=False)]
            if len(outs) != 1 or outs[0].kind != "return":
                raise AnalysisError(R, f"returned solver: {len(outs)} paths for (Y is zero={yzero}, last column={last}); "
                                       "a condition was not understood")
            v = outs[0].value
            terms = []
            def flat(e):
                if isinstance(e, ast.BinOp) and isinstance(e.op, ast.Add):
                    flat(e.left); flat(e.right)
                else:
                    terms.append(e)
            flat(v)
            seen[(yzero, last)] = sorted(ct(t, env_o) for t in terms)
    EIGS_RAW = [f"[(Dagger(_v0) @ h_0 @ _v0).diagonal() for _v0 in {e}]" for e in ext_alts]
    EIGS_ALTS = [ct(x_) for x_ in EIGS_RAW]
    expl = [ct(f"solve_sylvester_diagonal({eg}, {aux}, atol=solver_options.get('atol'))(Y, index)")
            for eg in EIGS_RAW for aux in [*AUX_ALTS, *[f"{e}[-1]" for e in ext_alts]]]
    kpm_name = [d.name for d in inner]
    ok_zero = seen[(True, False)] == ["zero"] and seen[(True, True)] == ["zero"]
    ok_other = len(seen[(False, False)]) == 1 and seen[(False, False)][0] in expl
    t_last = seen[(False, True)]
    ok_last = len(t_last) == 2 and any(t in expl for t in t_last) and any(t in [ct(f"{k}(Y, index)") for k in kpm_name] for t in t_last)
    rep.check(ok_zero and ok_other and ok_last, R,
              f"{MOD}::solve_sylvester_KPM implicit column block = KPM part + explicit auxiliary part; other blocks by the diagonal solver",
              f"Y zero -> {seen[(True, True)]}; last column -> {[t[:60] for t in t_last]}; other -> {[t[:60] for t in seen[(False, False)]]}", loc(outer))
    rep.check(ok_other, R, f"{MOD}::solve_sylvester_KPM explicit part uses the diagonal solver with the auxiliary vectors",
              (seen[(False, False)] or [""])[0][:200], loc(outer))
    lasts = seen.get("last", set())
    rep.check(bool(lasts) and all(x in EIGS_ALTS for x in lasts), R, f"{MOD}::solve_sylvester_KPM the implicit column is the last block (len(energies) - 1)",
              str([x[:80] for x in lasts]), loc(outer))

    # -- the KPM part -------------------------------------------------------------------------------------------------
    kp = [d for d in inner if any(isinstance(c, ast.Call) and call_name(c) == "greens_function" for c in ast.walk(d))]
    if len(kp) != 1:
        raise AnalysisError(R, "KPM closure (calling greens_function) not found")
    kp = kp[0]
    env_k = env_at(kp, f, keep_params=False, opaque=OPQ)
    for nm in (H, A, B):
        env_k.pop(nm, None)
    rets = [n for n in own_nodes(kp) if isinstance(n, ast.Return)]
    if len(rets) != 1:
        raise AnalysisError(R, "KPM closure: expected one return")
    rv0 = rets[0].value
    if isinstance(rv0, ast.Call) and call_name(rv0) == "np.vstack" and len(rv0.args) == 1 and isinstance(rv0.args[0], ast.Name):
        # the rows collected by an appending loop: the same thing as the comprehension
        from .sem import loop_as_comprehension
        lc = loop_as_comprehension(kp, rv0.args[0].id)
        if lc is not None:
            pre = {k_: v_ for k_, v_ in env_at(rets[0], kp, keep_params=True).items() if k_ != rv0.args[0].id}
            rv0 = ast.Call(func=rv0.func, args=[resolved(lc, pre)], keywords=[])
    rv = resolved(rv0, env_at(rets[0], kp, keep_params=True)) if rv0 is rets[0].value else rv0
    rv = resolved(rv, env_k)
    ok = False
    detail = norm(rv)[:200]
    comp = None
    if isinstance(rv, ast.Call) and call_name(rv) == "np.vstack" and len(rv.args) == 1 and isinstance(rv.args[0], (ast.ListComp, ast.GeneratorExp)):
        comp = rv.args[0]
    elif isinstance(rv, ast.Call) and call_name(rv) == "np.vstack" and len(rv.args) == 1 and isinstance(rv.args[0], ast.Call) \
            and call_name(rv.args[0]) in ("list", "tuple") and isinstance(rv.args[0].args[0], (ast.ListComp, ast.GeneratorExp)):
        comp = rv.args[0].args[0]
    if comp is None or len(comp.generators) != 1:
        raise AnalysisError(R, f"KPM closure returns `{detail[:80]}`: not a row-wise stack of Green's function applications")
    g = comp.generators[0]
    elt = comp.elt
    ht_names = set()
    if isinstance(g.iter, ast.Call) and call_name(g.iter) == "zip" and len(g.iter.args) == 2 and isinstance(g.target, ast.Tuple) \
            and isinstance(elt, ast.Call) and call_name(elt) == "greens_function" and len(elt.args) >= 3 and not g.ifs:
        e_it, y_it = (ct(x) for x in g.iter.args)
        tv = [norm(t) for t in g.target.elts]
        er_alts = [ct(f"[(_v9 - {B}) / {A} for _v9 in {eg}[:-1]][index[0]]") for eg in EIGS_RAW]
        proj = [f"ComplementProjector(np.hstack({e}))" for e in ext_alts]
        y_alts = [ct(f"Y @ {p} / {A}") for p in proj]
        ok_e, ok_y = e_it in er_alts, y_it in y_alts
        ok = [norm(a) for a in elt.args[1:3]] == tv and isinstance(elt.args[0], ast.Name)
        detail = f"rows `{y_it[:160]}`, energies `{e_it[:160]}`"
        if isinstance(elt.args[0], ast.Name):
            ht_names.add(elt.args[0].id)
    else:
        raise AnalysisError(R, f"KPM closure: row-wise application `{norm(comp)[:80]}` not understood")
    rep.check(ok, R, f"{MOD}::solve_sylvester_KPM row a of the solution = G(E_a)(H^T) applied to row a of Y P / a (energies of block index[0])",
              f"greens_function({', '.join(norm(a)[:20] for a in elt.args[:3])}) over `{norm(g.target)}` in zip(energies, rows)", loc(kp))
    rep.check(ok_y, R, f"{MOD}::solve_sylvester_KPM projects out all explicit and auxiliary vectors",
              f"rows are `{y_it[:200]}`; required Y @ ComplementProjector(np.hstack((*given, auxiliary))) / {A}", loc(kp))
    rep.check(ok_e, R, f"{MOD}::solve_sylvester_KPM rescales the explicit energies with the same (a, b) as the Hamiltonian",
              f"energies are `{e_it[:200]}`", loc(kp))
    # H^T: every assignment of the operator handed to greens_function is H'.T or a storage-format change of itself
    okT = bool(ht_names)
    vals = []
    for nm in ht_names:
        for n in own_nodes(f):
            if isinstance(n, ast.Assign) and any(isinstance(t, ast.Name) and t.id == nm for t in n.targets):
                t = norm(n.value)
                vals.append(t)
                if t not in (f"{H}.T", f"{H}.transpose()", f"{nm}.tocsr()", f"{nm}.tocsc()", f"sparse.csr_array({nm})"):
                    okT = False
    rep.check(okT and any(v in (f"{H}.T", f"{H}.transpose()") for v in vals), R,
              f"{MOD}::solve_sylvester_KPM applies the Green's function of H^T (rows of Y are solved as columns)", str(vals), loc(f))


import re as _re
_LEN_MINUS_1 = _re.compile(r"^len\((.*)\) - 1$")


# ---------------------------------------------------------------------------
# solve_sylvester_direct wiring on resolved paths
# ---------------------------------------------------------------------------


def _greens_grouping_helper(repo: Repo, outer: ast.FunctionDef) -> list:
    """The function that builds the Green's functions of the energy groups, by role: it calls `direct_greens_function` (itself or
    through one helper) and is nested in solve_sylvester_direct -- or, after an extraction, a module-level function that
    solve_sylvester_direct calls."""
    from .core import nested_defs
    def calls_dgf(fn, depth=0):
        for c in ast.walk(fn):
            if isinstance(c, ast.Call) and call_name(c) == "direct_greens_function":
                return True
        return False
    named = [d for d in nested_defs(outer) if d in outer.body and d.name == "grouped_greens_functions"]
    if named:
        return named
    nested = [d for d in nested_defs(outer) if d in outer.body and calls_dgf(d)]
    if len(nested) != 1:
        return []
    # (an extracted module-level version takes what used to be captured as extra parameters; the rules below compare resolved texts of
    # the closure form and would misread it -- tried on R22 --, so it is reported as not found: cannot decide)
    return nested


def rule_direct_wiring(rep: Report, repo: Repo):
    """Dispatch and formulas of the solver returned by solve_sylvester_direct, decided per concrete block index on
    resolved expressions; the Green's-function families are identified by how they are constructed."""
    from .e2c import _const_eval
    from .resolve import env_at, resolved, rtext
    from .sem import bind_args, canon, outcomes

    R = "E7.direct"
    outer = repo.find(f"{MOD}::solve_sylvester_direct", R)
    loc = lambda n: repo.loc(MOD, n)
    if not (isinstance(outer.body[-1], ast.Return) and isinstance(outer.body[-1].value, ast.Name)):
        raise AnalysisError(R, "solve_sylvester_direct does not return a local closure")
    f = [d for d in outer.body if isinstance(d, ast.FunctionDef) and d.name == outer.body[-1].value.id]
    gg = _greens_grouping_helper(repo, outer)
    if len(f) != 1 or len(gg) != 1:
        raise AnalysisError(R, "nested solver / grouped_greens_functions of solve_sylvester_direct not found")
    f, gg = f[0], gg[0]
    env_o = env_at(f, outer)
    NORM_ALTS = ("_normalize_subspace_eigenvectors(tuple(eigenvectors))", "_normalize_subspace_eigenvectors(eigenvectors)")
    RE_ALTS, LE_ALTS = [f"{n}[0]" for n in NORM_ALTS], [f"{n}[1]" for n in NORM_ALTS]
    P_ALTS = [t for r, l in zip(RE_ALTS, LE_ALTS) for t in (
        f"ComplementProjector(np.hstack({r}), np.hstack({l}))", f"ComplementProjector(vecs=np.hstack({r}), left_vecs=np.hstack({l}))",
        f"ComplementProjector(np.hstack({r}), left_vecs=np.hstack({l}))", f"ComplementProjector(left_vecs=np.hstack({l}), vecs=np.hstack({r}))")]
    EIG_ALTS = [f"[np.diag(Dagger(_v1) @ h_0 @ _v0) for _v0, _v1 in zip({r}, {l}, strict=True)]" for r, l in zip(RE_ALTS, LE_ALTS)]

    # explicit part: the diagonal solver over diag(L_i^H H_0 R_i)
    sd = [n for n in own_nodes(outer) if isinstance(n, ast.Call) and call_name(n) == "solve_sylvester_diagonal"]
    if len(sd) != 1:
        raise AnalysisError(R, f"{len(sd)} calls of solve_sylvester_diagonal in solve_sylvester_direct")
    env_sd = env_at(sd[0], outer)
    eig_text = rtext(sd[0].args[0], env_sd) if sd[0].args else ""
    rep.check(eig_text in EIG_ALTS, R, f"{MOD}::solve_sylvester_direct explicit energies are diag(L_i^H H_0 R_i)", eig_text[:200], loc(sd[0]))
    kw = {k.arg: norm(k.value) for k in sd[0].keywords}
    rep.check(len(sd[0].args) == 1 and kw == {"atol": "eigenvalue_atol"}, R,
              f"{MOD}::solve_sylvester_direct explicit part = solve_sylvester_diagonal(eigenvalues, atol=eigenvalue_atol)", norm(sd[0])[:100], loc(sd[0]))
    explicit_text = rtext(sd[0], env_sd)

    # families of Green's functions, by construction
    def family(node):
        """-> set of resolved constructions a family expression may denote (None = absent)."""
        if isinstance(node, ast.Name):
            vals = [n.value for n in own_nodes(outer) if isinstance(n, ast.Assign)
                    and any(isinstance(t, ast.Name) and t.id == node.id for t in n.targets)]
            if not vals:
                raise AnalysisError(R, f"family `{node.id}` has no assignment")
            out = set()
            for v in vals:
                out |= family_expr(v)
            return out
        return family_expr(node)

    def family_expr(v):
        if isinstance(v, ast.IfExp):
            return family_expr(v.body) | family_expr(v.orelse)
        if isinstance(v, ast.Constant) and v.value is None:
            return {None}
        if isinstance(v, ast.Call) and call_name(v) == gg.name:
            b = bind_args(gg, v)
            if b is None:
                raise AnalysisError(R, f"cannot bind `{norm(v)[:60]}`")
            env_v = env_o
            return {tuple(sorted((k, rtext(x, env_v)) for k, x in b.items()))}
        return {("other", norm(v)[:120])}

    def want_family(op, rk, lk, conj):
        p = [a.arg for a in gg.args.args]
        return [tuple(sorted(zip(p, (op, r, l, conj)))) for r, l in zip(rk, lk)]
    WANT = {"right": want_family("h_0.T", LE_ALTS, RE_ALTS, "True"), "left": want_family("h_0", RE_ALTS, LE_ALTS, "False")}

    def parse_term(e):
        """-> (sign, structure); projector and families are recognised by their resolved construction."""
        if isinstance(e, ast.UnaryOp) and isinstance(e.op, ast.USub):
            sg, t = parse_term(e.operand)
            return -sg, t
        if isinstance(e, ast.Name) and e.id == "Y":
            return 1, ("Y",)
        if isinstance(e, ast.BinOp) and isinstance(e.op, ast.MatMult):
            if rtext(e.left, env_o) in P_ALTS:
                sg, t = parse_term(e.right)
                return sg, ("P@", t)
            if rtext(e.right, env_o) in P_ALTS:
                sg, t = parse_term(e.left)
                return sg, ("@P", t)
        if isinstance(e, ast.Call) and call_name(e) in ("np.column_stack", "np.vstack") and len(e.args) == 1 \
                and isinstance(e.args[0], (ast.ListComp, ast.GeneratorExp)) and len(e.args[0].generators) == 1:
            comp = e.args[0]
            gen = comp.generators[0]
            if isinstance(gen.iter, ast.Call) and call_name(gen.iter) == "zip" and len(gen.iter.args) == 2 \
                    and isinstance(gen.target, ast.Tuple) and len(gen.target.elts) == 2 and not gen.ifs:
                gfn, vecn = (norm(x) for x in gen.target.elts)
                fam, src = gen.iter.args
                elt, sg = comp.elt, 1
                if isinstance(elt, ast.UnaryOp) and isinstance(elt.op, ast.USub):
                    elt, sg = elt.operand, -1
                if isinstance(elt, ast.Call) and norm(elt.func) == gfn and len(elt.args) == 1:
                    arg = elt.args[0]
                    if isinstance(arg, ast.UnaryOp) and isinstance(arg.op, ast.USub):
                        arg, sg = arg.operand, -sg
                    if norm(arg) == vecn and isinstance(fam, ast.Subscript):
                        if isinstance(src, ast.Attribute) and src.attr == "T":
                            axis, inner = "columns", src.value
                        else:
                            axis, inner = "rows", src
                        stack = {"np.column_stack": "columns", "np.vstack": "rows"}[call_name(e)]
                        s2, t = parse_term(inner)
                        fams = family(fam.value) - {None}
                        which = "other"
                        for nm, alts in WANT.items():
                            if fams and all(x in alts for x in fams):
                                which = nm
                        if which == "other":
                            which = "other:" + "; ".join(str(x)[:160] for x in sorted(fams, key=str))
                        return sg * s2, ("G", which, norm(fam.slice), axis, stack, t)
        raise AnalysisError(R, f"implicit-branch expression not understood: `{norm(e)[:100]}`")

    results = {}
    N = 2
    n_name_alts = {f"len({e})" for e in EIG_ALTS}
    for a in range(N + 1):
        for b in range(N + 1):
            if a == N and b == N:
                continue
            sub = {"index[0]": a, "index[1]": b}
            def atom(n):
                t = norm(canon(n))
                if t == "Y is zero":
                    return False
                if t == "Y is not zero":
                    return True
                r = resolved(n, env_o)
                s2 = dict(sub)
                for x in ast.walk(r):
                    if isinstance(x, ast.Call) and norm(x) in n_name_alts:
                        s2[norm(x)] = N
                return _const_eval(r, s2)
            outs = [o for o in outcomes(f.body, None, env={}, atom=atom, expand=False)]
            rets = [o for o in outs if o.kind == "return"]
            if len(rets) != 1:
                raise AnalysisError(R, f"nested solver: {len(rets)} returning paths for block ({a}, {b}) of {N} explicit blocks "
                                       f"(conditions: {[norm(t)[:50] for o in outs for t, _p in o.conds]})")
            for o in outs:
                if o.kind == "raise" and "NotImplementedError" not in norm(o.value):
                    raise AnalysisError(R, f"nested solver raises `{norm(o.value)[:60]}` for block ({a}, {b})")
            kind = "explicit" if (a < N and b < N) else ("left" if a == N else "right")
            results.setdefault(kind, set()).add(norm(resolved(rets[0].value, {})))
            v = rets[0].value
            where = rets[0].node
            if kind == "explicit":
                got = rtext(v, env_o)
                inst = f"{MOD}::solve_sylvester_direct explicit block pairs are solved by the diagonal solver"
                if got == f"{explicit_text}(Y, index)":
                    rep.ok(R, inst, f"block ({a}, {b})", loc(where))
                else:
                    rep.fail(R, inst, f"block ({a}, {b}) returns `{got[:160]}`", loc(where))
            elif kind == "left":
                got = parse_term(v)
                want = (-1, ("P@", ("G", "left", "index[1]", "columns", "columns", ("P@", ("Y",)))))
                inst = f"{MOD}::solve_sylvester_direct left-implicit: T = -P [G_b(H_0) (P Y)_b]_b  (columns, negated, projected before and after)"
                if got == want:
                    rep.ok(R, inst, f"block ({a}, {b}): {got}", loc(where))
                else:
                    rep.fail(R, f"{MOD}::solve_sylvester_direct left-implicit branch computes {got}", f"required {want}: "
                             "(H_B - E_b) T_b = Y_b  =>  T_b = -G_b(H_0) Y_b, column by column, inside range(P); the family must be "
                             "grouped_greens_functions(h_0, right, left, conjugate_kernel=False)", loc(where))
            else:
                got = parse_term(v)
                want = (1, ("@P", ("G", "right", "index[0]", "rows", "rows", ("@P", ("Y",)))))
                inst = f"{MOD}::solve_sylvester_direct right-implicit: T = [G_a(H_0^T) (Y P)_a]_a P  (rows, not negated, projected before and after)"
                if got == want:
                    rep.ok(R, inst, f"block ({a}, {b}): {got}", loc(where))
                else:
                    rep.fail(R, f"{MOD}::solve_sylvester_direct right-implicit branch computes {got}", f"required {want}: "
                             "T_a (E_a - H_B) = Y_a  =>  T_a^T = G_a(H_0^T) Y_a^T, row by row, inside range(P); the family must be "
                             "grouped_greens_functions(h_0.T, left, right, conjugate_kernel=True)", loc(where))
    # Y is zero -> zero
    def atom0(n):
        t = norm(canon(n))
        return True if t == "Y is zero" else (False if t == "Y is not zero" else None)
    z = [o for o in outcomes(f.body, None, env={}, atom=atom0, expand=False)]
    rep.check(len(z) == 1 and z[0].kind == "return" and norm(z[0].value) == "zero", R,
              f"{MOD}::solve_sylvester_direct an absent right-hand side gives an absent solution", "", loc(f))


# ---------------------------------------------------------------------------
# second-quantised scalar solver on resolved paths
# ---------------------------------------------------------------------------


def _pick_ifexp(e, atom):
    """Replace conditional expressions whose test is decided by `atom` with the chosen arm."""
    from .paths import eval_bool
    from .resolve import clone

    class T(ast.NodeTransformer):
        def visit_IfExp(self, node):
            self.generic_visit(node)
            v = eval_bool(node.test, atom)
            if v is None:
                return node
            return node.body if v else node.orelse
    return T().visit(clone(e))


_PLUS1 = ("sympy.S.One", "One", "1", "sympy.Integer(1)")
_MINUS1 = tuple("-" + t for t in _PLUS1) + ("sympy.S.NegativeOne",)


def _shifted_energy(repo: Repo, e: ast.AST):
    """`H.xreplace(D)`  or a module-level helper h(H, ...) that returns `<first parameter>.xreplace(D)`:
    -> (text of H, an `H.xreplace(<dictionary expression>)` call with the helper's dictionary expanded) or None."""
    from .sem import Scope, bind_args, dict_filled_by_loop
    if isinstance(e, ast.Call) and isinstance(e.func, ast.Attribute) and e.func.attr == "xreplace" and len(e.args) == 1:
        return norm(e.func.value), e
    if isinstance(e, ast.Call) and isinstance(e.func, ast.Name):
        helper = Scope(repo.trees["second_quantization"]).get(e.func.id)
        if helper is None or not helper.args.args:
            return None
        binding = bind_args(helper, e)
        if binding is None:
            return None
        rets = [n for n in ast.walk(helper) if isinstance(n, ast.Return)]
        if len(rets) != 1:
            return None
        rv = rets[0].value
        p0 = helper.args.args[0].arg
        if not (isinstance(rv, ast.Call) and isinstance(rv.func, ast.Attribute) and rv.func.attr == "xreplace" and norm(rv.func.value) == p0
                and len(rv.args) == 1 and isinstance(rv.args[0], ast.Name)):
            return None
        consts = {k: v.value for k, v in binding.items() if isinstance(v, ast.Constant) and isinstance(v.value, bool)}
        hatom = lambda n: consts.get(n.id) if isinstance(n, ast.Name) else None
        dc = dict_filled_by_loop(helper.body, rv.args[0].id, {k: v for k, v in binding.items() if k not in consts and k != p0}, hatom)
        if dc is None:
            return None
        call = ast.Call(func=ast.Attribute(value=binding[p0], attr="xreplace", ctx=ast.Load()), args=[dc], keywords=[])
        return norm(binding[p0]), call
    return None


class _NPlace:
    """placeholder of a number operator in the model: N_label, possibly shifted"""

    def __init__(self, label, shift=0):
        self.label, self.shift = label, shift

    def model_binop(self, op, other, swapped):
        if not isinstance(other, int):
            return NotImplemented
        if op == "Add":
            return _NPlace(self.label, self.shift + other)
        if op == "Sub" and not swapped:
            return _NPlace(self.label, self.shift - other)
        return NotImplemented

    def __eq__(self, o):
        return isinstance(o, _NPlace) and (self.label, self.shift) == (o.label, o.shift)

    def __hash__(self):
        return hash((self.label, self.shift))

    def __repr__(self):
        return f"N[{self.label}]{self.shift:+d}" if self.shift else f"N[{self.label}]"


def _shift_table_on_model(repo: Repo, f, dc: ast.DictComp, S: str, R: str) -> dict:
    """Which replacement table a comprehension of solve_scalar builds, read on models with one operator of each class: the table of
    H_jj (annihilation powers: N -> N + delta for boson / ladder modes, 1 for spin / fermion modes, nothing else), the table of H_ii
    (creation powers: N -> N - delta, 1), or something else."""
    from .concrete import Model, Obj
    from .e10 import operator_classes
    tags, inf, counts = operator_classes(repo, R)
    ops = tuple(Obj(t, t) for t in tags)
    places = tuple(_NPlace(t) for t in tags)
    paths = {"Y.operators": ops, "operators": ops, "Y._number_operator_placeholders": places, "Y._n_inf_order": len(inf),
             "sympy.S.One": "ONE", "S.One": "ONE", "sympy.S.Zero": "ZERO"}
    for attr, t in counts.items():
        paths[f"Y.{attr}"] = 1
    verdicts = set()
    for shift in ((2, 3, 1, 1), (-2, -3, -1, -1), (2, -3, 1, -1), (0, 0, 0, 0), (-1, 2, -1, 1)):
        m = Model(R, "solve_scalar", names={"One": "ONE", "Zero": "ZERO", "__classes__": tuple(tags) + ("SigmaPlus", "SigmaOpBase"), S: shift},
                  paths=dict(paths), subclasses={"SigmaOpBase": {"SigmaMinus", "SigmaPlus"}},
                  funcs={"NumberOperator": lambda op: ("Nop", op), "_number_operator_to_placeholder": lambda x: _NPlace(x[1].label)})
        env = {}
        # locals the comprehension reads (e.g. `placeholders = Y._number_operator_placeholders`, `operators = Y.operators`)
        for st in [x for x in ast.walk(f) if isinstance(x, ast.Assign) and len(x.targets) == 1 and isinstance(x.targets[0], ast.Name)]:
            try:
                m._block([st], env)
            except AnalysisError:
                continue
        env[S] = shift
        got = m.ev(dc, env)
        want_jj = {_NPlace(t): (_NPlace(t, d) if t in inf else "ONE") for t, d in zip(tags, shift) if d > 0}
        want_ii = {_NPlace(t): (_NPlace(t, -d) if t in inf else "ONE") for t, d in zip(tags, shift) if d < 0}
        verdicts.add("H_jj" if got == want_jj and got != want_ii else "H_ii" if got == want_ii and got != want_jj else
                     "both" if got == want_jj == want_ii else f"other: shift {shift} -> {got}")
    verdicts.discard("both")
    table = verdicts.pop() if len(verdicts) == 1 else "; ".join(sorted(verdicts))
    return {"table": table}


def rule_solve_scalar(rep: Report, repo: Repo):
    """H_ii V - V H_jj = Y term by term:  H_ii(N) (a†)^m v(N) a^p - (a†)^m v(N) a^p H_jj(N)
    = (a†)^m [H_ii(N + m) - H_jj(N + p)] v(N) a^p   (fermions/spins: N -> 1 on the side that carries the operator).
    Decided per path (lexicographically negative shift or not, diagonal entry or not) on resolved expressions."""
    from .paths import eval_bool
    from .resolve import resolved, rtext

    R = "E7.solve_scalar"
    f = repo.find("second_quantization::solve_scalar", R)
    loc = lambda n: repo.loc("second_quantization", n)
    params = [a.arg for a in f.args.args]
    if params[:3] != ["Y", "H_ii", "H_jj"] or "diagonal" not in params + [a.arg for a in f.args.kwonlyargs]:
        raise AnalysisError(R, f"solve_scalar signature {params}")
    loops = [n for n in f.body if isinstance(n, ast.For) and isinstance(n.target, ast.Tuple) and len(n.target.elts) == 2]
    if len(loops) != 1:
        raise AnalysisError(R, "solve_scalar: loop over the terms of Y not found")
    lp = loops[0]
    S, C = (norm(e) for e in lp.target.elts)
    neg_forms = (f"tuple({S}) < (0,) * len({S})", f"{S} < (0,) * len({S})")
    results = {}
    shift_nodes = {}
    for neg in (False, True):
        for diag in (False, True):
            def atom(n):
                t = norm(canon(n))
                if t in neg_forms:
                    return neg
                if t == "diagonal":
                    return diag
                if isinstance(n, ast.Compare) and len(n.ops) == 1 and isinstance(n.ops[0], (ast.Is, ast.IsNot, ast.Eq, ast.NotEq)):
                    l = _pick_ifexp(n.left, atom)
                    r = _pick_ifexp(n.comparators[0], atom)
                    lt, rt = norm(l), norm(r)
                    if lt in _PLUS1 + _MINUS1 and rt in _PLUS1 + _MINUS1:
                        same = (lt in _PLUS1) == (rt in _PLUS1)
                        return same if isinstance(n.ops[0], (ast.Is, ast.Eq)) else not same
                return None
            outs = outcomes(lp.body, None, env={}, atom=atom, expand=False)
            kinds = {o.kind for o in outs}
            if len(outs) != 1:
                raise AnalysisError(R, f"solve_scalar: {len(outs)} paths through the term loop for (negative shift={neg}, diagonal={diag}): "
                                       f"undecided condition `{[norm(t)[:50] for o in outs for t, _p in o.conds if eval_bool(t, atom) is None][:1]}`")
            o = outs[0]
            stores = [(st, rv) for kind, st, rv in o.seq if kind == "assign" and isinstance(st, ast.Assign)
                      and isinstance(st.targets[0], ast.Subscript) and norm(st.targets[0].slice) == S]
            if o.kind == "continue":
                results[(neg, diag)] = ("skip",)
                continue
            if len(stores) != 1:
                raise AnalysisError(R, f"solve_scalar: {len(stores)} stores of the solved coefficient on one path")
            v = _pick_ifexp(stores[0][1], atom)
            num, den = [], []
            def flat(e, inv=False):
                if isinstance(e, ast.BinOp) and isinstance(e.op, ast.Mult):
                    flat(e.left, inv); flat(e.right, inv)
                elif isinstance(e, ast.BinOp) and isinstance(e.op, ast.Div):
                    flat(e.left, inv); flat(e.right, not inv)
                elif isinstance(e, ast.BinOp) and isinstance(e.op, ast.Pow) and norm(e.right) in _MINUS1 + tuple(f"({m})" for m in _MINUS1):
                    flat(e.left, not inv)
                else:
                    (den if inv else num).append(e)
            flat(v)
            sign = [x for x in num if norm(x) in _PLUS1 + _MINUS1]
            rest = [x for x in num if norm(x) not in _PLUS1 + _MINUS1]
            if len(sign) > 1 or [norm(x) for x in rest] != [C] or len(den) != 1:
                raise AnalysisError(R, f"solve_scalar: solved coefficient `{norm(v)[:100]}` is not sign * coeff / denominator")
            sg = -1 if (sign and norm(sign[0]) in _MINUS1) else 1
            diffs = [n_ for n_ in ast.walk(den[0]) if isinstance(n_, ast.BinOp) and isinstance(n_.op, ast.Sub)
                     and all(_shifted_energy(repo, x) is not None for x in (n_.left, n_.right))]
            if len(diffs) != 1:
                raise AnalysisError(R, f"solve_scalar: denominator `{norm(den[0])[:100]}` is not built from H_ii' - H_jj'")
            sides = [_shifted_energy(repo, diffs[0].left), _shifted_energy(repo, diffs[0].right)]
            bases = (sides[0][0], sides[1][0])
            if set(bases) != {"H_ii", "H_jj"}:
                raise AnalysisError(R, f"solve_scalar: denominator subtracts {bases}")
            orient = 1 if bases == ("H_ii", "H_jj") else -1
            results[(neg, diag)] = ("solve", sg, orient)
            for base_, call_ in sides:
                shift_nodes[base_] = (call_, stores[0][0])
    want_skip = {(False, True)}
    ok_skip = all((results[k] == ("skip",)) == (k in want_skip) for k in results)
    ok_sign = all(r[1] * r[2] == 1 for r in results.values() if r[0] == "solve")
    signs = sorted({r[1] for r in results.values() if r[0] == "solve"})
    rep.check(ok_sign, R, "second_quantization::solve_scalar denominator is sign * (H_ii' - H_jj')",
              f"(negative shift, diagonal) -> (action, sign, orientation of the difference): {results}", loc(lp))
    rep.check(ok_sign, R, "second_quantization::solve_scalar solution coefficient = sign * coeff / denominator = coeff / (H_ii' - H_jj')", "", loc(lp))
    rep.check(set(signs) <= {1, -1}, R, "second_quantization::solve_scalar `sign` only takes the values +1 / -1", str(signs), loc(lp))
    # the shifts
    def shift_info(call):
        from .sem import Scope, bind_args, dict_filled_by_loop
        arg = call.args[0] if len(call.args) == 1 else None
        if isinstance(arg, ast.Name):
            arg = dict_filled_by_loop(lp.body, arg.id)
        elif isinstance(arg, ast.Call) and isinstance(arg.func, ast.Name):
            helper = Scope(repo.trees["second_quantization"]).get(arg.func.id)
            if helper is not None and isinstance(helper.body[-1], ast.Return) and isinstance(helper.body[-1].value, ast.Name):
                binding = bind_args(helper, arg)
                if binding is not None:
                    consts = {k: v.value for k, v in binding.items() if isinstance(v, ast.Constant) and isinstance(v.value, bool)}
                    hatom = lambda n: consts.get(n.id) if isinstance(n, ast.Name) else None
                    arg = dict_filled_by_loop(helper.body, helper.body[-1].value.id, {k: v for k, v in binding.items() if k not in consts}, hatom)
        if not isinstance(arg, ast.DictComp):
            raise AnalysisError(R, f"solve_scalar: the replacement passed to {norm(call.func.value)}.xreplace is neither a dict comprehension "
                                   "nor a dictionary filled by one loop: not understood")
        dc = arg
        gen = dc.generators[0]
        tn = [norm(e) for e in gen.target.elts] if isinstance(gen.target, ast.Tuple) else []
        it = gen.iter
        if not (isinstance(it, ast.Call) and call_name(it) == "zip" and len(it.args) == 2 and norm(it.args[0]) == S
                and norm(it.args[1]).endswith("operators") and len(tn) == 2):
            return _shift_table_on_model(repo, f, dc, S, R)
        delta, op = tn
        filt = [norm(canon(c)).replace(delta, "delta") for c in gen.ifs]
        val = dc.value
        if not isinstance(val, ast.IfExp) or norm(val.test) != f"isinstance({op}, (BosonOp, LadderOp))":
            raise AnalysisError(R, f"solve_scalar: shift value `{norm(val)[:60]}` not understood")
        sign = None
        if isinstance(val.body, ast.BinOp) and norm(val.body.right) == delta and norm(val.body.left) == norm(dc.key):
            sign = "+" if isinstance(val.body.op, ast.Add) else "-" if isinstance(val.body.op, ast.Sub) else None
        return {"filter": filt, "sign": sign, "binary": norm(val.orelse)}
    if set(shift_nodes) != {"H_ii", "H_jj"}:
        raise AnalysisError(R, "solve_scalar: shifted energies not found")
    jj = shift_info(shift_nodes["H_jj"][0])
    ii = shift_info(shift_nodes["H_ii"][0])
    ok = jj["table"] == "H_jj" if "table" in jj else (jj["filter"] in (["delta > 0"], ["0 < delta"]) and jj["sign"] == "+" and jj["binary"] in _PLUS1)
    rep.check(ok, R, "second_quantization::solve_scalar annihilation powers (delta > 0) shift H_jj by N -> N + delta (binary modes -> 1)", str(jj), loc(shift_nodes["H_jj"][1]))
    ok = ii["table"] == "H_ii" if "table" in ii else (ii["filter"] in (["delta < 0"], ["0 > delta"]) and ii["sign"] == "-" and ii["binary"] in _PLUS1)
    rep.check(ok, R, "second_quantization::solve_scalar creation powers (delta < 0) shift H_ii by N -> N - delta (binary modes -> 1)", str(ii), loc(shift_nodes["H_ii"][1]))
    # diagonal entries: half of the terms + minus the adjoint
    comp = {}
    for diag in (False, True):
        def atom2(n):
            t = norm(canon(n))
            if t == "diagonal":
                return diag
            if t in ("Y == 0", "0 == Y"):
                return False
            return None
        outs = outcomes(f.body, None, env={}, atom=atom2, expand=False)
        got = {norm(ev) for o in outs for ev in o.events if isinstance(ev, ast.AugAssign)}
        for o in outs:
            for kind, st, rv in o.seq:
                # `r = r - r.adjoint()` is the same completion as `r -= r.adjoint()`
                if kind == "assign" and isinstance(st, ast.Assign) and isinstance(st.targets[0], ast.Name) and isinstance(st.value, ast.BinOp) \
                        and isinstance(st.value.op, ast.Sub) and norm(st.value.left) == st.targets[0].id \
                        and norm(st.value.right) == f"{st.targets[0].id}.adjoint()":
                    got.add(f"{st.targets[0].id} -= {st.targets[0].id}.adjoint()")
            if o.kind == "return" and isinstance(o.node, ast.Return) and isinstance(o.node.value, ast.BinOp) and isinstance(o.node.value.op, ast.Sub) \
                    and isinstance(o.node.value.left, ast.Name) and norm(o.node.value.right) == f"{o.node.value.left.id}.adjoint()":
                got.add(f"{o.node.value.left.id} -= {o.node.value.left.id}.adjoint()")
        comp[diag] = sorted(got)
    ok = ok_skip and comp[False] == [] and len(comp[True]) == 1 and _re.fullmatch(r"(\w+) -= \1\.adjoint\(\)", comp[True][0]) is not None
    rep.check(ok, R, "second_quantization::solve_scalar diagonal entries: solve half of the terms, complete with minus the adjoint (anti-Hermitian solution)",
              f"skipped: {sorted(k for k, r in results.items() if r == ('skip',))} (negative shift, diagonal); completion {comp}", loc(f))

    # -- the matrix wrapper: run the element loops on a concrete 4 x 4 matrix -----------------------------------------
    from .e2c import _const_eval
    from .e5 import _int_eval, _range_values
    w = repo.find_expanded("second_quantization::solve_sylvester_2nd_quant", R)  # element loops moved into helpers are seen through
    inner = [d for d in nested_defs(w) if d.name == "solve_sylvester"]
    if len(inner) != 1:
        raise AnalysisError(R, "solve_sylvester_2nd_quant: nested solver not found")
    inner = inner[0]
    # a statement-level call that is not seen through may store elements too: then the table below would be incomplete
    for n_ in ast.walk(inner):
        if isinstance(n_, ast.Expr) and isinstance(n_.value, ast.Call) and call_name(n_.value) not in ("print",) \
                and any(norm(a_) in ("result", "Y") or isinstance(a_, ast.Name) for a_ in n_.value.args):
            raise AnalysisError(R, f"solve_sylvester_2nd_quant: `{norm(n_)[:60]}` may store elements of the solution: not understood")
    NROW = 4
    grid = {"Y.rows": NROW, "Y.cols": NROW, "Y.shape[0]": NROW, "Y.shape[1]": NROW}
    names = {}
    table = {}
    for dblock in (False, True):
        def blk(n, dblock=dblock):
            """index[0] vs index[1] comparison -> bool"""
            if isinstance(n, ast.Compare) and len(n.ops) == 1 and {norm(n.left), norm(n.comparators[0])} == {"index[0]", "index[1]"}:
                if isinstance(n.ops[0], ast.Eq):
                    return dblock
                if isinstance(n.ops[0], ast.NotEq):
                    return not dblock
            return None
        def atom_top(n):
            t = norm(canon(n))
            if t == "Y is zero":
                return False
            return blk(n)
        tops = outcomes(inner.body, None, env={}, atom=atom_top, expand=False)
        rets_top = [o for o in tops if o.kind == "return"]
        # free conditions at the top level (empty eigenvalue lists) do not change which loops run
        if len({tuple(id(e) for e in o.events if isinstance(e, ast.For)) for o in rets_top}) != 1:
            raise AnalysisError(R, "solve_sylvester_2nd_quant: which element loops run depends on an undecided condition")
        top = rets_top[0]
        env_top = {k: v for k, v in top.env.items() if all(k in o.env and norm(o.env[k]) == norm(v) for o in rets_top)}
        per_elem = {}
        for ev in top.events:
            if not isinstance(ev, ast.For):
                continue
            from .e5 import loop_points
            from .resolve import resolved as _resolved_expr

            def with_resolved_headers(loop_):
                """the loop with the locals in its range expressions replaced by what they were assigned (rows = Y.rows, ...)"""
                cp = ast.For(target=loop_.target, iter=_resolved_expr(loop_.iter, env_top), orelse=[], type_comment=None,
                             body=[with_resolved_headers(b_) if isinstance(b_, ast.For) and len(loop_.body) == 1 else b_ for b_ in loop_.body])
                return ast.copy_location(cp, loop_)
            points = loop_points(with_resolved_headers(ev), grid, R, "solve_sylvester_2nd_quant")
            bound = sorted({k for b, _ in points for k in b})
            env_in = {k: v for k, v in env_top.items() if k not in bound}
            if True:
                for binding, leaf in points:
                    sub = {**grid, **binding}
                    def atom_in(n, sub=sub):
                        b_ = blk(n)
                        if b_ is not None:
                            return b_
                        return _const_eval(n, sub)
                    outs = outcomes(leaf, None, env=env_in, atom=atom_in, expand=False)
                    if len(outs) != 1:
                        raise AnalysisError(R, "solve_sylvester_2nd_quant: element loop body has an undecided condition")
                    for kind, st, rv in outs[0].seq:
                        if kind == "assign" and isinstance(st, ast.Assign) and isinstance(st.targets[0], ast.Subscript) \
                                and isinstance(st.targets[0].slice, ast.Tuple) and len(st.targets[0].slice.elts) == 2:
                            a_, b_ = (_int_eval(x, sub) for x in st.targets[0].slice.elts)
                            if a_ is None or b_ is None:
                                raise AnalysisError(R, "solve_sylvester_2nd_quant: store position not closed")
                            if isinstance(rv, ast.Call) and call_name(rv) == "solve_scalar":
                                kw = {k.arg: k.value for k in rv.keywords}
                                dg = eval_bool(kw["diagonal"], atom_in) if "diagonal" in kw else False
                                # where the right-hand side and the two energies are read, as integers on the grid
                                reads = []
                                for x in rv.args:
                                    if isinstance(x, ast.Subscript):
                                        sl = x.slice.elts if isinstance(x.slice, ast.Tuple) else [x.slice]
                                        reads.append((norm(x.value), tuple(_int_eval(e_, sub) for e_ in sl)))
                                    else:
                                        reads.append((norm(x), None))
                                per_elem.setdefault((a_, b_), []).append(("solve", reads, dg))
                                names.setdefault("eigs", set()).add((reads[1][0], reads[2][0]) if len(reads) == 3 else ("?", "?"))
                            else:
                                src = None
                                if isinstance(rv, ast.UnaryOp) and isinstance(rv.op, ast.USub) and isinstance(rv.operand, ast.Call) \
                                        and isinstance(rv.operand.func, ast.Attribute) and rv.operand.func.attr == "adjoint" \
                                        and isinstance(rv.operand.func.value, ast.Subscript) and norm(rv.operand.func.value.value) == norm(st.targets[0].value) \
                                        and isinstance(rv.operand.func.value.slice, ast.Tuple):
                                    src = tuple(_int_eval(x, sub) for x in rv.operand.func.value.slice.elts)
                                per_elem.setdefault((a_, b_), []).append(("fill", src, norm(rv)))
        table[dblock] = per_elem
    ok_solve, ok_fill = True, True
    bad_fill = []
    detail = {}
    for dblock, per_elem in table.items():
        for a_ in range(NROW):
            for b_ in range(NROW):
                stores = per_elem.get((a_, b_), [])
                solves = [x for x in stores if x[0] == "solve"]
                fills = [x for x in stores if x[0] == "fill"]
                rel = "<" if a_ < b_ else ("=" if a_ == b_ else ">")
                detail[(dblock, rel)] = [x[0] for x in stores]
                want_solve = (not dblock) or a_ >= b_
                want_fill = dblock and a_ < b_
                if want_solve:
                    if not (len(solves) == 1 and len(solves[0][1]) == 3 and solves[0][1][0] == ("Y", (a_, b_))
                            and solves[0][1][1][1] == (a_,) and solves[0][1][2][1] == (b_,)
                            and solves[0][2] == (dblock and a_ == b_) and not fills):
                        ok_solve = False
                elif solves:
                    ok_solve = False
                if want_fill:
                    # filled from the transposed, already solved element, after all solves (loop order: fills come in a later loop
                    # or after the source element in the same sweep)
                    if not (len(fills) == 1 and fills[0][1] == (b_, a_)):
                        ok_fill = False
                        bad_fill.append(f"({a_}, {b_}) " + ("is never filled" if not fills else f"is filled from {[x[1] for x in fills]}"))
                elif fills:
                    ok_fill = False
                    bad_fill.append(f"({a_}, {b_}) of {'a diagonal' if dblock else 'an off-diagonal'} block is overwritten by a fill from {[x[1] for x in fills]}")
    rep.check(ok_solve, R, "second_quantization::solve_sylvester_2nd_quant element (i, j) is solved with H_ii = eigs_A[i], H_jj = eigs_B[j]",
              f"(diagonal block, i ? j) -> stores {detail}; solved entries: all of an off-diagonal block, i >= j of a diagonal block, "
              "diagonal=True exactly on the diagonal of a diagonal block", loc(inner))
    rep.check(ok_fill, R, "second_quantization::solve_sylvester_2nd_quant upper triangle of a diagonal block = minus the adjoint of the computed lower triangle",
              (f"on a {NROW} x {NROW} matrix: element " + "; ".join(bad_fill[:4])) if bad_fill else f"all {NROW * (NROW - 1) // 2} elements above the diagonal of a {NROW} x {NROW} matrix", loc(inner))
    e_names = names.get("eigs", set())
    if len(e_names) != 1:
        raise AnalysisError(R, "solve_sylvester_2nd_quant: energies passed to solve_scalar not understood")
    A, B = next(iter(e_names))
    from .resolve import env_at as _env_at, rtext as _rtext
    # the FIRST binding of the two energy lists (later rebindings fill an empty block with zeros), whether unpacked together or one by one
    def first_binding(nm):
        for n in own_nodes(inner):
            if isinstance(n, ast.Assign):
                for t in n.targets:
                    if isinstance(t, ast.Name) and t.id == nm:
                        return _rtext(n.value, _env_at(n, inner))
                    if isinstance(t, ast.Tuple) and isinstance(n.value, ast.Tuple) and len(t.elts) == len(n.value.elts):
                        for tt, vv in zip(t.elts, n.value.elts):
                            if isinstance(tt, ast.Name) and tt.id == nm:
                                return _rtext(vv, _env_at(n, inner))
        return None
    firsts = [(nm, min((n.lineno for n in own_nodes(inner) if isinstance(n, ast.Assign) and any(
        isinstance(x, ast.Name) and x.id == nm and isinstance(x.ctx, ast.Store) for t in n.targets for x in ast.walk(t))), default=0)) for nm in (A, B)]
    e = [first_binding(A), first_binding(B)]
    if None in e:
        raise AnalysisError(R, "solve_sylvester_2nd_quant: binding of the energy lists not found")
    rep.check(e == ["eigs[index[0]]", "eigs[index[1]]"], R, "second_quantization::solve_sylvester_2nd_quant eigs_A, eigs_B = eigs[index[0]], eigs[index[1]]", str(e), loc(inner))


# ---------------------------------------------------------------------------
# kpm.py on resolved expressions
# ---------------------------------------------------------------------------


def rule_kpm_numerics(rep: Report, repo: Repo):
    """Structure of the Chebyshev expansion of (E - H)^-1 v: recurrence, coefficients, residual orientation, rescaling.
    Accuracy and convergence are numerical and are not decided."""
    from .resolve import env_at, resolved, rtext, run_block

    R = "E7.kpm"
    g = repo.find("kpm::greens_function", R)
    loc = lambda n: repo.loc("kpm", n)
    loops = [n for n in g.body if isinstance(n, ast.While)]
    if len(loops) != 1:
        raise AnalysisError(R, "kpm.greens_function: refinement loop not found")
    lp = loops[0]
    rets = [n for n in own_nodes(g) if isinstance(n, ast.Return)]
    if len(rets) != 1 or not isinstance(rets[0].value, ast.Name):
        raise AnalysisError(R, "kpm.greens_function: returned solution is not one local")
    SOL = rets[0].value.id
    stores = {}
    for s in lp.body:
        if isinstance(s, ast.Assign) and len(s.targets) == 1 and isinstance(s.targets[0], ast.Name):
            stores.setdefault(s.targets[0].id, []).append(s)
    # residual: the loop variable compared with atol
    tst = canon(lp.test)
    if not (isinstance(tst, ast.Compare) and len(tst.ops) == 1 and isinstance(tst.ops[0], ast.Lt) and norm(tst.left) == "atol"
            and isinstance(tst.comparators[0], ast.Name)):
        raise AnalysisError(R, f"kpm.greens_function: loop condition `{norm(lp.test)}` not understood")
    RES = tst.comparators[0].id
    # the threshold is the caller's: `atol` is the parameter, never rebound inside the function
    rebinds = [n for n in ast.walk(g) if isinstance(n, (ast.Assign, ast.AugAssign, ast.AnnAssign)) and any(
        isinstance(x, ast.Name) and x.id == "atol" and isinstance(x.ctx, ast.Store) for t in (n.targets if isinstance(n, ast.Assign) else [n.target]) for x in ast.walk(t))]
    if "atol" not in [a.arg for a in g.args.args + g.args.kwonlyargs]:
        raise AnalysisError(R, "kpm.greens_function: no `atol` parameter")
    def loosens(n_):
        v_ = getattr(n_, "value", None)
        if isinstance(n_, ast.AugAssign):
            return True if isinstance(n_.op, (ast.Add, ast.Mult)) else None
        if isinstance(v_, ast.Call) and call_name(v_) in ("float", "abs", "np.float64") and len(v_.args) == 1 and norm(v_.args[0]) == "atol":
            return False
        if isinstance(v_, ast.Call) and call_name(v_) in ("min", "np.minimum") and any(norm(a_) == "atol" for a_ in v_.args):
            return False
        if isinstance(v_, ast.Call) and call_name(v_) in ("max", "np.maximum") and any(norm(a_) == "atol" for a_ in v_.args):
            return True
        return None
    verdicts = [loosens(n_) for n_ in rebinds]
    if any(v_ is None for v_ in verdicts):
        raise AnalysisError(R, f"kpm.greens_function: `{norm(rebinds[verdicts.index(None)])[:70]}` rebinds the requested accuracy: not understood")
    rebinds = [n_ for n_, v_ in zip(rebinds, verdicts) if v_]
    if rebinds:
        rep.fail(R, f"kpm::greens_function replaces the requested accuracy before the refinement loop: `{norm(rebinds[0])[:90]}`",
                 "the loop leaves when the residual of (E - H) x = v is below `atol`; with a loosened threshold the solution misses the accuracy "
                 "the caller asked for, and no convergence warning is raised (that one only fires when max_moments is exceeded)", loc(rebinds[0]))
    else:
        rep.ok(R, "kpm::greens_function compares the residual with the caller's atol", "`atol` is not rebound", loc(lp))
    res = stores.get(RES, [])
    ok = False
    detail = "missing"
    if len(res) == 1 and isinstance(res[0].value, ast.Call) and call_name(res[0].value) == "np.linalg.norm" and res[0].value.args:
        arg = resolved(res[0].value.args[0], env_at(res[0], g, opaque=(SOL,)))
        terms = {}
        def collect(e, sign):
            if isinstance(e, ast.BinOp) and isinstance(e.op, (ast.Add, ast.Sub)):
                collect(e.left, sign)
                collect(e.right, sign if isinstance(e.op, ast.Add) else -sign)
            elif isinstance(e, ast.UnaryOp) and isinstance(e.op, ast.USub):
                collect(e.operand, -sign)
            else:
                terms[norm(e)] = terms.get(norm(e), 0) + sign
        collect(arg, 1)
        detail = norm(arg)[:90]
        # residual of (E - H) x = v is  v - (E x - H x) = (H x - E x) + v   (any association / order of the three terms)
        t2 = {k.replace(f"{SOL} * energy", f"energy * {SOL}"): v for k, v in terms.items()}
        want = {f"hamiltonian @ {SOL}": 1, f"energy * {SOL}": -1, "vector": 1}
        ok = t2 == want or t2 == {k: -v for k, v in want.items()}
    rep.check(ok, R, "kpm::greens_function accepts the solution by the residual of (E - H) x = v", detail, loc(g))
    # the number of moments of the current turn: the local the loop multiplies at its end (`n *= 4`)
    growing = [n.target.id for n in lp.body if isinstance(n, ast.AugAssign) and isinstance(n.op, ast.Mult) and isinstance(n.target, ast.Name)
               and isinstance(n.value, ast.Constant)] + \
              [n.targets[0].id for n in lp.body if isinstance(n, ast.Assign) and isinstance(n.targets[0], ast.Name) and isinstance(n.value, ast.BinOp)
               and isinstance(n.value.op, ast.Mult) and norm(n.value.left) == n.targets[0].id and isinstance(n.value.right, ast.Constant)]
    if len(set(growing)) != 1:
        raise AnalysisError(R, "kpm.greens_function: the growing number of moments was not found")
    NM = growing[0]
    warn_ifs = [n for n in lp.body if isinstance(n, ast.If) and norm(canon(n.test)) == f"max_moments < {NM}"]
    ok2 = len(warn_ifs) == 1 and any(isinstance(x, ast.Call) and call_name(x) == "warn" and "RuntimeWarning" in norm(x) for x in ast.walk(warn_ifs[0])) \
        and isinstance(warn_ifs[0].body[-1], ast.Break)
    rep.check(ok2, R, "kpm::greens_function iterates until the residual is below atol or warns (RuntimeWarning) at max_moments",
              f"loop while `{norm(lp.test)}`", loc(g))
    # coefficients: the array zipped with the Chebyshev vectors in the solution sum.  Its value is computed by straight-line
    # evaluation of the statements that build it (in the loop body, or in a module-level helper it is obtained from)
    from .scalar import same as _same
    from .straight import run as _run
    sol0 = stores.get(SOL, [])
    COEF = None
    if len(sol0) == 1:
        sv = resolved(sol0[0].value, {k_: v_ for k_, v_ in env_at(sol0[0], g).items() if not (isinstance(v_, ast.Call) and call_name(v_) != "kpm_vectors")})
        for n_ in ast.walk(sv):
            if isinstance(n_, ast.Call) and call_name(n_) == "zip" and len(n_.args) == 2:
                for a_, b_ in ((n_.args[0], n_.args[1]), (n_.args[1], n_.args[0])):
                    if isinstance(b_, ast.Call) and call_name(b_) == "kpm_vectors" and isinstance(a_, ast.Name):
                        COEF = a_.id
    if COEF is None or COEF not in stores:
        raise AnalysisError(R, "kpm.greens_function: coefficient array (zipped with kpm_vectors in the solution sum) not found")
    cdef = stores[COEF][0]
    helper = None
    if isinstance(cdef.value, ast.Call) and isinstance(cdef.value.func, ast.Name):
        helper = next((n_ for n_ in repo.trees["kpm"].body if isinstance(n_, ast.FunctionDef) and n_.name == cdef.value.func.id), None)
    if helper is not None:
        from .sem import bind_args as _bind
        b_ = _bind(helper, cdef.value)
        if b_ is None:
            raise AnalysisError(R, f"kpm.greens_function: call `{norm(cdef.value)[:60]}` cannot be bound")
        cval = _run(helper, lambda n_: None, R, env0=b_)
    else:
        upto = lp.body.index(sol0[0])
        prog = [s_ for s_ in lp.body[:upto] if not (isinstance(s_, ast.If) and any(isinstance(x, ast.Break) for x in ast.walk(s_)))]
        synth = ast.FunctionDef(name="coefficients", args=ast.arguments(posonlyargs=[], args=[], kwonlyargs=[], kw_defaults=[], defaults=[]),
                                body=prog + [ast.Return(value=ast.Name(id=COEF, ctx=ast.Load()))], decorator_list=[])
        cval = _run(synth, lambda n_: None, R)
    # expected:  halve_first(B) * jackson_kernel(num_moments)  or  halve_first(B * jackson_kernel(num_moments)),
    # B = -2 / sqrt(1 - E^2) * sin(n arccos E) up to algebra
    NMH = NM
    if helper is not None:
        # inside a helper the count is whatever the helper's parameter is bound to: the text after binding is the caller's NM
        NMH = NM
    BASE = f"-2 / np.sqrt(1 - energy ** 2) * np.sin(np.arange({NMH}) * np.arccos(energy))"
    JK = f"jackson_kernel({NMH})"

    def strip_jackson(e):
        if isinstance(e, ast.BinOp) and isinstance(e.op, ast.Mult):
            if norm(e.right) == JK:
                return e.left, True
            if norm(e.left) == JK:
                return e.right, True
        return e, False

    def strip_halving(e):
        if isinstance(e, ast.Call) and call_name(e) == "_setitem" and norm(e.args[1]) == "0":
            inner, new0 = e.args[0], e.args[2]
            first = norm(ast.Subscript(value=inner, slice=ast.Constant(value=0), ctx=ast.Load()))
            if norm(new0) in (f"{first} / 2", f"{first} * 0.5", f"0.5 * {first}", f"{first} / 2.0"):
                return inner, True
        return e, False
    e1_, j1 = strip_jackson(cval)
    e2_, h_ = strip_halving(e1_)
    e3_, j2 = strip_jackson(e2_)
    eq = _same(e3_, BASE)
    ctxt = norm(cval)
    if eq is None:
        raise AnalysisError(R, f"kpm.greens_function: coefficient formula `{norm(e3_)[:90]}` is outside the scalar language of sv/scalar.py")
    ok = bool(eq) and h_ and (j1 != j2)
    rep.check(ok, R, "kpm::greens_function Chebyshev coefficients of 1/(E - x): -2 sin(n arccos E)/sqrt(1 - E^2), halved at n = 0, Jackson-damped",
              f"{ctxt[:160]}", loc(g))
    sol = stores.get(SOL, [])
    stxt = rtext(sol[0].value, env_at(sol[0], g, opaque=(COEF,))) if len(sol) == 1 else ""
    ok = stxt in (f"sum((_v1 * _v0 for _v0, _v1 in zip({COEF}, kpm_vectors(hamiltonian, vector))))",
                  f"sum((_v0 * _v1 for _v0, _v1 in zip({COEF}, kpm_vectors(hamiltonian, vector))))")
    rep.check(ok, R, "kpm::greens_function solution = sum_n c_n T_n(H) v", stxt[:120], loc(g))

    # -- kpm_vectors: symbolic run of the generator ----------------------------------------------------------------------
    kv = repo.find("kpm::kpm_vectors", R)
    env = {}
    yields = []
    loop = None
    def step(stmts, env):
        nonlocal loop
        for s in stmts:
            if isinstance(s, ast.Expr) and isinstance(s.value, ast.Constant):
                continue
            if isinstance(s, ast.Expr) and isinstance(s.value, ast.Yield):
                v = s.value.value
                if isinstance(v, ast.NamedExpr):
                    env[v.target.id] = resolved(v.value, env)
                    yields.append(norm(env[v.target.id]))
                else:
                    yields.append(norm(resolved(v, env)))
            elif isinstance(s, ast.Assign):
                new = run_block([s], env)
                env.clear(); env.update(new)
            elif isinstance(s, ast.While) and norm(s.test) == "True" and loop is None:
                loop = s
                return
            else:
                raise AnalysisError(R, f"kpm_vectors: statement `{norm(s)[:50]}` not understood")
    step(kv.body, env)
    if loop is None:
        raise AnalysisError(R, "kpm_vectors: `while True` recurrence not found")
    pre = list(yields)
    cur = [k for k, v in env.items() if norm(v) == "hamiltonian @ vector"]
    prev = [k for k, v in env.items() if norm(v) == "vector"]
    ok = pre == ["vector", "hamiltonian @ vector"] and len(cur) == 1 and len(prev) == 1
    rec_detail = f"first yields {pre}"
    if ok:
        CUR, PREV = cur[0], prev[0]
        env2 = {}
        yields.clear()
        loop_body, loop = loop.body, "done"
        step(loop_body, env2)
        nxt = f"2 * hamiltonian @ {CUR} - {PREV}"
        ok = yields == [nxt] and norm(env2.get(CUR, ast.Name(id=CUR))) == nxt and norm(env2.get(PREV, ast.Name(id=PREV))) == CUR
        rec_detail += f"; one turn of the loop yields {yields}, then ({CUR}, {PREV}) = ({norm(env2.get(CUR, ast.Name(id=CUR)))}, {norm(env2.get(PREV, ast.Name(id=PREV)))})"
    rep.check(ok, R, "kpm::kpm_vectors Chebyshev recurrence T_0 v = v, T_1 v = H v, T_{n+1} v = 2 H T_n v - T_{n-1} v", rec_detail, repo.loc("kpm", kv))

    # -- rescale -------------------------------------------------------------------------------------------------------------
    rs = repo.find("kpm::rescale", R)
    outs = [o for o in outcomes(rs.body, Scope(repo.trees["kpm"], rs), env={}, opaque=("lmin", "lmax"), expand=False) if o.kind == "return"]
    if not outs:
        raise AnalysisError(R, "kpm.rescale: no returning path")
    A_T, B_T = "np.abs(lmax - lmin) / (2.0 - eps)", "(lmax + lmin) / 2.0"
    IDS = ("sparse.csr_array(sparse.identity(hamiltonian.shape[0], format='csr'))", "sparse.identity(hamiltonian.shape[0], format='csr')",
           "np.eye(hamiltonian.shape[0])", "np.identity(hamiltonian.shape[0])")
    forms = set()
    ok = True
    for o in outs:
        v = o.value
        if not (isinstance(v, ast.Tuple) and len(v.elts) == 2 and isinstance(v.elts[1], ast.Tuple) and len(v.elts[1].elts) == 2):
            raise AnalysisError(R, f"kpm.rescale returns `{norm(v)[:60]}`")
        h, (a_, b_) = v.elts[0], v.elts[1].elts
        forms.add(norm(h)[:120])
        sa, sb = _same(a_, A_T), _same(b_, B_T)
        if sa is None or sb is None:
            raise AnalysisError(R, f"kpm.rescale: parameters `{norm(a_)[:50]}`, `{norm(b_)[:50]}` are outside the scalar language of sv/scalar.py")
        good = bool(sa and sb)
        # (H - b * 1) / a, the scalars up to algebra, the identity in one of the known spellings
        if isinstance(h, ast.BinOp) and isinstance(h.op, ast.Div) and isinstance(h.left, ast.BinOp) and isinstance(h.left.op, ast.Sub) \
                and norm(h.left.left) == "hamiltonian" and isinstance(h.left.right, ast.BinOp) and isinstance(h.left.right.op, ast.Mult):
            m_ = h.left.right
            sc_, id_ = (m_.left, m_.right) if norm(m_.right) in IDS else (m_.right, m_.left)
            sh = (_same(sc_, B_T), _same(h.right, A_T))
            if None in sh:
                raise AnalysisError(R, f"kpm.rescale: rescaled Hamiltonian `{norm(h)[:80]}` not understood")
            good = good and norm(id_) in IDS and all(sh)
        else:
            raise AnalysisError(R, f"kpm.rescale: rescaled Hamiltonian `{norm(h)[:80]}` is not of the form (H - b * 1) / a")
        ok = ok and good
    rep.check(ok, R, "kpm::rescale returns (H - b)/a with a = bandwidth/(2 - eps), b = band centre", str(sorted(forms)), repo.loc("kpm", rs))
