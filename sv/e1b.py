"""Projection-pair rule and scope wiring in ``block_diagonalize`` (trusted base of E1).

S + R = identity in code: for each (diag, offdiag) closure pair the two functions
multiply by complementary masks, test membership of ``index[0]`` in the same key
set, and return ``x`` / ``zero`` outside it.  The flags handed to the DSL mean what
E1's modes assume.
"""

from __future__ import annotations

import ast

from .core import AnalysisError, Repo, Report, call_name, dotted, nested_defs, norm, own_nodes
from .paths import enum_paths

RULE = "E1.projection"
MOD = "block_diagonalization"


def _returns_by_case(f: ast.FunctionDef, scope=None):
    """Enumerate resolved paths (locals inlined, helpers expanded; the value parameter keeps its name);
    -> [(conditions as (canonical text, truth value), returned expression)]."""
    from .sem import ctext, outcomes
    params = [a.arg for a in f.args.args]
    out = []
    for o in outcomes(f.body, scope, env={}, opaque=tuple(params[:1])):
        if o.kind != "return":
            raise AnalysisError(RULE, f"{f.name}: path without return")
        out.append(([(ctext(t), val) for t, val in o.conds], o.value))
    return out


def _case_key(conds):
    """Abstract a path condition to (outside_keyset, value_is_zero, kind)."""
    outside, keyset, is_zero, kind = False, None, False, "dense"
    for txt, val in conds:
        # `a or b` conditions taken as a whole: split on the decisive atoms
        parts = [t.strip() for t in txt.split(" or ")]
        for t in parts:
            if t.startswith("index[0] not in "):
                if val:
                    if len(parts) == 1:
                        outside = True
                    else:
                        outside = outside or None  # decided by caller
                keyset = t[len("index[0] not in "):]
            elif t == "x is zero":
                pass
            elif t.startswith("isinstance(x, sympy.MatrixBase)") and val:
                kind = "sympy"
            elif t.startswith("sparse.issparse(x)") and val:
                kind = "sparse"
            elif t == "isinstance(x, BlockSeries)":
                pass
    return keyset, kind


def _mask_use(expr: ast.AST):
    """Return (form, mask_name, keep_flag) for the value returned on an in-keyset path."""
    if isinstance(expr, ast.Name):
        return ("name", expr.id, None)
    if isinstance(expr, ast.BinOp) and isinstance(expr.op, ast.Mult) and norm(expr.left) == "x" \
            and isinstance(expr.right, ast.Subscript) and norm(expr.right.slice) == "index[0]":
        return ("x*M", norm(expr.right.value), None)
    if isinstance(expr, ast.Call) and isinstance(expr.func, ast.Attribute) and norm(expr.func.value) == "x" \
            and expr.func.attr in ("multiply_elementwise", "multiply") and len(expr.args) == 1 \
            and isinstance(expr.args[0], ast.Subscript) and norm(expr.args[0].slice) == "index[0]":
        return (f"x.{expr.func.attr}(M)", norm(expr.args[0].value), None)
    if isinstance(expr, ast.Call) and (call_name(expr) or "").endswith("apply_mask_to_operator"):
        kw = {k.arg: k.value for k in expr.keywords}
        a = expr.args
        if len(a) >= 2 and norm(a[0]) == "x" and isinstance(a[1], ast.Subscript) and norm(a[1].slice) == "index[0]" and "keep" in kw:
            k = kw["keep"]
            if isinstance(k, ast.Constant):
                return ("apply_mask(x, M)", norm(a[1].value), bool(k.value))
            if isinstance(k, ast.Name):
                return ("apply_mask(x, M)", norm(a[1].value), ("flag", k.id, True))
            if isinstance(k, ast.UnaryOp) and isinstance(k.op, ast.Not) and isinstance(k.operand, ast.Name):
                return ("apply_mask(x, M)", norm(a[1].value), ("flag", k.operand.id, False))
    # a matrix product with the mask is understood -- and is not a selection of elements
    if isinstance(expr, ast.BinOp) and isinstance(expr.op, ast.MatMult):
        for a_, b_ in ((expr.left, expr.right), (expr.right, expr.left)):
            if norm(a_) == "x" and isinstance(b_, ast.Subscript) and norm(b_.slice) == "index[0]":
                return ("x@M", norm(b_.value), None)
    return ("other:" + norm(expr)[:60], norm(expr)[:60], None)


def _reads_series_at_index(fn: ast.FunctionDef) -> bool:
    """On every path of fn(x, index) on which x is a BlockSeries, the value that leaves (other than the `zero` sentinel)
    is built from x[index] only: no use of the series itself, no other index."""
    from .sem import outcomes
    params = [a.arg for a in fn.args.args]
    if len(params) != 2:
        raise AnalysisError(RULE, f"{fn.name}: signature is not (x, index)")
    X, I = params

    def atom(n):
        t = norm(n)
        if t == f"isinstance({X}, BlockSeries)":
            return True
        return None

    class _Fold(ast.NodeTransformer):
        def visit_IfExp(self, n):
            self.generic_visit(n)
            v = atom(n.test)
            return n if v is None else (n.body if v else n.orelse)

    seen = 0
    for oc in outcomes(fn.body, None, env={}, atom=atom):
        if oc.kind != "return" or oc.value is None:
            if oc.kind == "raise":
                continue
            raise AnalysisError(RULE, f"{fn.name}: path without a returned value")
        if norm(oc.value) == "zero":
            continue
        seen += 1
        oc.value = _Fold().visit(oc.value)
        oc.conds = [(_Fold().visit(c), p_) for c, p_ in oc.conds]
        t = ast.parse(norm(oc.value).replace(f"{X}[{I}]", "_ELEMENT_"), mode="eval")
        if any(isinstance(n, ast.Name) and n.id == X for n in ast.walk(t)):
            return False
        if not any(isinstance(n, ast.Name) and n.id == "_ELEMENT_" for n in ast.walk(t)):
            return False
        # the tests that decided this path read the element too (`x is zero` is about x[index])
        for c, _pol in oc.conds:
            tc = ast.parse(norm(c).replace(f"{X}[{I}]", "_ELEMENT_").replace(f"isinstance({X}, BlockSeries)", "True"), mode="eval")
            if any(isinstance(n, ast.Name) and n.id == X for n in ast.walk(tc)):
                return False
    return seen > 0


def _canonical_params(fn: ast.FunctionDef):
    """The rules below speak of `x` and `index`: rename the two parameters of a projection closure to these names (in the
    loaded tree only), so that the analysis does not depend on what the parameters are called."""
    params = [a.arg for a in fn.args.args]
    if len(params) != 2 or fn.args.vararg or fn.args.kwarg or fn.args.kwonlyargs:
        raise AnalysisError(RULE, f"{fn.name}: signature is not (x, index)")
    ren = {p_: q for p_, q in zip(params, ("x", "index")) if p_ != q}
    if not ren:
        return
    used = {n.id for n in ast.walk(fn) if isinstance(n, ast.Name)}
    if any(q in used and q not in params for q in ren.values()):
        raise AnalysisError(RULE, f"{fn.name}: cannot rename parameters {params} to (x, index) without capture")
    for a, q in zip(fn.args.args, ("x", "index")):
        a.arg = q
    tmp = {p_: f"__{i}__" for i, p_ in enumerate(ren)}  # two-step, in case the names are swapped
    for n in ast.walk(fn):
        if isinstance(n, ast.Name) and n.id in tmp:
            n.id = tmp[n.id]
    back = {tmp[p_]: q for p_, q in ren.items()}
    for n in ast.walk(fn):
        if isinstance(n, ast.Name) and n.id in back:
            n.id = back[n.id]


def rule_projection_pairs(rep: Report, repo: Repo):
    f = repo.find(f"{MOD}::block_diagonalize", RULE)
    loc = lambda n: repo.loc(MOD, n)
    diags = [d for d in nested_defs(f) if d.name == "diag"]
    offs = [d for d in nested_defs(f) if d.name == "offdiag"]
    if len(diags) != len(offs) or not diags:
        raise AnalysisError(RULE, f"{len(diags)} diag / {len(offs)} offdiag closures")
    rep.floor(RULE, "(diag, offdiag) closure pairs", len(diags), 2)
    for fn in diags + offs:
        _canonical_params(fn)
    from .sem import Scope
    scope = Scope(repo.trees[MOD], f)
    for k, (d, o) in enumerate(zip(diags, offs)):
        # same enclosing block
        if d._parent is not o._parent:
            rep.fail(RULE, f"{MOD}::block_diagonalize pair {k}: diag and offdiag are defined in different branches", "", loc(d))
            continue
        summary = {}
        for name, fn in (("diag", d), ("offdiag", o)):
            inside, outside, keysets = {}, [], set()
            for conds, val in _returns_by_case(fn, scope):
                is_out = any(t.startswith("index[0] not in ") and v and " or " not in t for t, v in conds)
                ks = [t.split(" not in ")[1].split(" or ")[0] for t, v in conds if t.startswith("index[0] not in ")]
                keysets |= set(ks)
                # `index[0] not in K or x is zero` taken True: either reason; returns must be x (diag) -- x is zero too
                if any(t.startswith("index[0] not in ") and " or " in t and v for t, v in conds):
                    outside.append(_mask_use(val))
                    continue
                if is_out:
                    outside.append(_mask_use(val))
                    continue
                zero_path = any(t == "x is zero" and v for t, v in conds)
                if zero_path:
                    outside.append(("zero-value", norm(val), None))
                    continue
                kind = "dense"
                for t, v in conds:
                    if t.startswith("isinstance(x, sympy.MatrixBase)") and v:
                        kind = "sympy"
                    elif t.startswith("sparse.issparse(x)") and v:
                        kind = "sparse"
                inside[kind] = _mask_use(val)
            summary[name] = (inside, outside, keysets)
        di, do_, dk = summary["diag"]
        oi, oo, ok_ = summary["offdiag"]
        pair = f"{MOD}::block_diagonalize (diag, offdiag) pair {k}"
        rep.check(dk == ok_ and len(dk) == 1, RULE, f"{pair}: both test membership of index[0] in the same key set",
                  f"diag {sorted(dk)}, offdiag {sorted(ok_)}", loc(d))
        okd = all(u[0] == "name" and u[1] == "x" for u in do_ if u[0] != "zero-value") and \
            all(u[1] in ("x", "zero") for u in do_ if u[0] == "zero-value")
        rep.check(bool(do_) and okd, RULE, f"{pair}: diag returns x unchanged for blocks outside the key set",
                  str(do_), loc(d))
        oko = all((u[0] == "name" and u[1] == "zero") or (u[0] == "zero-value" and u[1] == "zero") for u in oo)
        rep.check(bool(oo) and oko, RULE, f"{pair}: offdiag returns zero for blocks outside the key set", str(oo), loc(o))
        rep.check(set(di) == set(oi), RULE, f"{pair}: same value-type branches in both closures",
                  f"diag {sorted(di)}, offdiag {sorted(oi)}", loc(d))
        # a mask is applied ELEMENT-WISE: `*` is element-wise only for ndarrays (and sparse arrays); sympy matrices and
        # scipy.sparse matrices (`spmatrix`, where `*` is the matrix product) need their own element-wise method
        for fn_name, table in (("diag", di), ("offdiag", oi)):
            unknown = [u[0] for u in table.values() if u[0].startswith("other:")]
            if unknown:
                raise AnalysisError(RULE, f"{pair}: {fn_name} applies its mask in a form that is not understood: `{unknown[0][6:]}`")
        ELEMENTWISE = {"dense": "x*M", "sparse": "x.multiply(M)", "sympy": "x.multiply_elementwise(M)"}
        for fn_name, table in (("diag", di), ("offdiag", oi)):
            if any(u[2] is None and u[0] in ELEMENTWISE.values() for u in table.values()):
                for kind, form in ELEMENTWISE.items():
                    got = table.get(kind)
                    if got is None:
                        rep.fail(RULE, f"{pair}: {fn_name} has no {kind} branch: a {kind} value is masked with `{table.get('dense', ('?',))[0]}`",
                                 "for scipy.sparse matrices and sympy matrices `*` is the matrix product, so S[x] + R[x] != x "
                                 f"(required element-wise form for {kind} values: {form})", loc(d if fn_name == "diag" else o))
                    else:
                        rep.check(got[0] == form, RULE, f"{pair}: {fn_name} masks {kind} values element-wise ({form})", f"found {got[0]}",
                                  loc(d if fn_name == "diag" else o))
        for kind in sorted(set(di) & set(oi)):
            a, b = di[kind], oi[kind]
            same_form = a[0] == b[0]
            if a[2] is None:
                comp = _complementary(f, d._parent, a[1], b[1])
                rep.check(same_form and comp is True, RULE,
                          f"{pair} [{kind}]: diag uses mask `{a[1]}`, offdiag uses the complementary mask `{b[1]}` in the same operation",
                          f"forms {a[0]} / {b[0]}; complement: {comp}", loc(d))
            elif isinstance(a[2], tuple) or isinstance(b[2], tuple):
                # the keep flag is a run-time flag F: diag must use F and offdiag `not F` (or the reverse), and every
                # construction branch must set F according to what its masks list
                okf = isinstance(a[2], tuple) and isinstance(b[2], tuple) and a[2][1] == b[2][1] and a[2][2] != b[2][2]
                rep.check(same_form and a[1] == b[1] and okf, RULE,
                          f"{pair} [{kind}]: same operator mask `{a[1]}` with opposite keep flags (diag keep={a[2]}, offdiag keep={b[2]})",
                          "", loc(d))
                if okf:
                    F, diag_pos = a[2][1], a[2][2]
                    branches = _flag_branches(d._parent, F, a[1])
                    if not branches:
                        raise AnalysisError(RULE, f"construction of flag `{F}` / masks `{a[1]}` not understood")
                    for meaning, fval, node in branches:
                        want = {"eliminate": False, "keep": True}.get(meaning)
                        got = fval if diag_pos else (not fval)
                        rep.check(want is not None and got == want, RULE,
                                  f"{pair} [{kind}]: mask `{a[1]}` lists elements to {meaning}; diag must call with keep={want}",
                                  f"`{F}` is {fval} in this construction branch, diag passes keep={'' if diag_pos else 'not '}{F}", loc(node))
            else:
                rep.check(same_form and a[1] == b[1] and a[2] != b[2], RULE,
                          f"{pair} [{kind}]: same operator mask `{a[1]}` with opposite keep flags (diag keep={a[2]}, offdiag keep={b[2]})",
                          "", loc(d))
                # polarity: a mask that lists what to ELIMINATE must be applied with keep=False for diag
                src = _mask_meaning(f, d._parent, a[1])
                want = {"eliminate": False, "keep": True}.get(src)
                rep.check(want is not None and a[2] == want, RULE,
                          f"{pair} [{kind}]: mask `{a[1]}` lists elements to {src}; diag must call with keep={want}",
                          "", loc(d))
        # BlockSeries argument is indexed at the requested index
        for fn in (d, o):
            rep.check(_reads_series_at_index(fn), RULE, f"{pair}: {fn.name} reads a series argument at the requested index", "", loc(fn))


def _flag_branches(owner, flag: str, mask: str):
    """Construction branches (arms of one `if`) that assign the mask dictionary, with the value the boolean flag has
    in that arm: -> [(meaning of the masks, flag value, node)].  The flag is either a constant assigned in the same arm
    or one expression (assigned next to the `if`) over the arm's own condition."""
    from .paths import eval_bool
    from .resolve import env_at, resolved
    from .sem import canon
    out = []
    func = owner
    while func is not None and not isinstance(func, ast.FunctionDef):
        func = getattr(func, "_parent", None)
    for field in ("body", "orelse"):
        blk = getattr(owner, field, []) or []
        for s in blk:
            if not isinstance(s, ast.If):
                continue
            arms = [(s.body, True), (s.orelse, False)]
            if not any(any(isinstance(n, ast.Assign) and any(norm(t) == mask for t in n.targets) for n in arm) for arm, _ in arms):
                continue
            test = canon(resolved(s.test, env_at(s, func))) if func is not None else canon(s.test)
            outer_flag = [n for n in blk if isinstance(n, ast.Assign) and any(norm(t) == flag for t in n.targets)]
            for arm, pol in arms:
                fl = [n for n in arm if isinstance(n, ast.Assign) and any(norm(t) == flag for t in n.targets)]
                mk = [n for n in arm if isinstance(n, ast.Assign) and any(norm(t) == mask for t in n.targets)]
                if len(mk) != 1:
                    return []
                if len(fl) == 1 and isinstance(fl[0].value, ast.Constant) and isinstance(fl[0].value.value, bool) and not outer_flag:
                    fval, node = fl[0].value.value, fl[0]
                elif not fl and len(outer_flag) == 1 and func is not None:
                    e = canon(resolved(outer_flag[0].value, env_at(outer_flag[0], func)))
                    tt = norm(test)
                    neg = tt.startswith("not ")
                    base = tt[4:] if neg else tt
                    def atom(n, base=base, neg=neg, pol=pol):
                        t = norm(canon(n))
                        if t == base:
                            return (not pol) if neg else pol
                        return None
                    fval, node = eval_bool(e, atom), outer_flag[0]
                    if fval is None:
                        return []
                else:
                    return []
                t = norm(mk[0].value)
                meaning = "keep" if "equal_eigs" in t else ("eliminate" if "fully_diagonalize.items()" in t else None)
                out.append((meaning, fval, node))
    return out


def _assignments_in(block_owner, name):
    """Assignments to `name` in the statement list that contains the closures."""
    out = []
    for field in ("body", "orelse"):
        blk = getattr(block_owner, field, None)
        if isinstance(blk, list):
            for s in blk:
                for n in ([s] + list(own_nodes(s)) if not isinstance(s, ast.FunctionDef) else []):
                    if isinstance(n, ast.Assign) and any(norm(t) == name for t in n.targets):
                        out.append(n)
    return out


def _complementary(func, owner, m_keep: str, m_elim: str):
    """In every construction branch exactly one of the two masks is `1 - other`,
    and later remappings are identical on both."""
    if m_keep == m_elim:
        return "same mask used in both closures"
    rel = []
    for name, other in ((m_keep, m_elim), (m_elim, m_keep)):
        for a in _assignments_in(owner, name):
            v = a.value
            if isinstance(v, ast.DictComp) and isinstance(v.value, ast.BinOp) and isinstance(v.value.op, ast.Sub) \
                    and norm(v.value.left) == "1" and isinstance(v.generators[0].iter, ast.Call) \
                    and norm(v.generators[0].iter.func) == f"{other}.items" and isinstance(v.generators[0].target, ast.Tuple):
                kname, vname = (norm(e) for e in v.generators[0].target.elts)
                if norm(v.key) == kname and norm(v.value.right) == vname:
                    rel.append((name, other, a))
    if not rel:
        return f"no `{{i: 1 - v for i, v in X.items()}}` definition links `{m_keep}` and `{m_elim}`"
    # every construction block that assigns one of the masks from outside data must define the
    # other one as its complement in the same block
    def is_remap(a, name):
        v = a.value
        return isinstance(v, ast.DictComp) and isinstance(v.generators[0].iter, ast.Call) \
            and norm(v.generators[0].iter.func) == f"{name}.items"
    blocks = {}
    for name in (m_keep, m_elim):
        for a in _assignments_in(owner, name):
            if is_remap(a, name):
                continue
            blocks.setdefault(id(a._parent) if not isinstance(a._parent, ast.If) else (id(a._parent), any(a is s for s in a._parent.body)), []).append((name, a))
    rel_ids = {id(a) for _n, _o, a in rel}
    for key, items in blocks.items():
        names = {n for n, _a in items}
        n_rel = sum(1 for _n, a in items if id(a) in rel_ids)
        if names != {m_keep, m_elim} or n_rel != 1:
            what = "; ".join(norm(a)[:70] for _n, a in items)
            return f"in one construction branch the masks are not complementary: {what}"
    # remappings (DictComp over own items that is not a complement) must be textually parallel
    remaps = {}
    for name in (m_keep, m_elim):
        for a in _assignments_in(owner, name):
            v = a.value
            if isinstance(v, ast.DictComp) and isinstance(v.generators[0].iter, ast.Call) \
                    and norm(v.generators[0].iter.func) == f"{name}.items":
                tgt = [norm(e) for e in v.generators[0].target.elts]
                txt = norm(v).replace(name, "M")
                for t, repl in zip(tgt, ("K", "V")):
                    txt = _rename(txt, t, repl)
                remaps[name] = txt
    if len(remaps) == 1 or (len(remaps) == 2 and len(set(remaps.values())) != 1):
        return f"the two masks are post-processed differently: {remaps}"
    return True


def _rename(txt: str, old: str, new: str) -> str:
    import re
    return re.sub(rf"\b{re.escape(old)}\b", new, txt)


def _mask_meaning(func, owner, name: str):
    """'eliminate' if the mask derives from the user's fully_diagonalize dict, 'keep' if from equal_eigs."""
    for a in _assignments_in(owner, name) + [n for n in own_nodes(func) if isinstance(n, ast.Assign) and any(norm(t) == name for t in n.targets)]:
        t = norm(a.value)
        if "equal_eigs" in t:
            return "keep"
        if "fully_diagonalize.items()" in t:
            return "eliminate"
    return None


from .resolve import rtext as rtext_


def _mapped_over(value, env, tup_text: str):
    """tuple(F(x) for x in TUP)  or  (F(a), F(b), F(c)) with (a, b, c) = TUP: the same one-argument function applied
    to the three outputs in order.  True / False (a map over the outputs in another order or selection) / None (not such a map)."""
    from .resolve import resolved
    v = resolved(value, env)
    while isinstance(v, ast.Call) and call_name(v) in ("tuple", "list") and len(v.args) == 1:
        v = v.args[0]
    if isinstance(v, (ast.GeneratorExp, ast.ListComp)) and len(v.generators) == 1 and not v.generators[0].ifs \
            and isinstance(v.elt, ast.Call) and len(v.elt.args) == 1 \
            and norm(v.elt.args[0]) == norm(v.generators[0].target) and not v.elt.keywords and isinstance(v.generators[0].iter, ast.Tuple):
        return norm(v.generators[0].iter) == tup_text
    if isinstance(v, (ast.GeneratorExp, ast.ListComp)) and len(v.generators) == 1 and not v.generators[0].ifs \
            and isinstance(v.generators[0].iter, (ast.List, ast.Tuple)) and isinstance(v.elt, ast.Call) and len(v.elt.args) == 1 \
            and not v.elt.keywords and isinstance(v.elt.args[0], ast.Subscript) and norm(v.elt.args[0].slice) == norm(v.generators[0].target):
        out = norm(v.elt.args[0].value)
        return "(" + ", ".join(f"{out}[{norm(k)}]" for k in v.generators[0].iter.elts) + ")" == tup_text
    if isinstance(v, ast.Tuple) and len(v.elts) == 3 and all(isinstance(e, ast.Call) and len(e.args) == 1 and not e.keywords for e in v.elts):
        fns = {norm(e.func) for e in v.elts}
        if len(fns) != 1:
            return None
        return "(" + ", ".join(norm(e.args[0]) for e in v.elts) + ")" == tup_text
    return None


def rule_scope_flags(rep: Report, repo: Repo):
    R = "E1.scope"
    f = repo.find(f"{MOD}::block_diagonalize", R)
    loc = lambda n: repo.loc(MOD, n)
    # the scope handed to the algorithm: the dict display with the keys the DSL refers to (whatever the local is called)
    scopes = [n for n in own_nodes(f) if isinstance(n, ast.Assign) and isinstance(n.value, ast.Dict) and isinstance(n.targets[0], ast.Name)
              and {"solve_sylvester", "commuting_blocks"} <= {k.value for k in n.value.keys if isinstance(k, ast.Constant)}]
    if len(scopes) != 1:
        raise AnalysisError(R, "scope dictionary not found")
    SCOPE = scopes[0].targets[0].id
    _scc = [n for n in own_nodes(f) if isinstance(n, ast.Call) and call_name(n) == "series_computation" and n.args and isinstance(n.args[0], ast.Dict)]
    _hm = {k.value: v for c_ in _scc for k, v in zip(c_.args[0].keys, c_.args[0].values) if isinstance(k, ast.Constant)}
    if not isinstance(_hm.get("H"), ast.Name):
        raise AnalysisError(R, "block_diagonalize: the series handed to series_computation as 'H' is not a local")
    HN = _hm["H"].id
    d = {k.value: v for k, v in zip(scopes[0].value.keys, scopes[0].value.values) if isinstance(k, ast.Constant)}
    for key in ("solve_sylvester", "use_linear_operator", "two_block_optimized", "commuting_blocks"):
        if key not in d:
            rep.fail(R, f"{MOD}::block_diagonalize scope lacks `{key}`", "", loc(scopes[0]))
    tb = d.get("two_block_optimized")
    if tb is not None:
        from .resolve import env_at, resolved
        tb_src = tb
        tb = resolved(tb, env_at(scopes[0], f))
        from .e5 import canon_atom
        from .paths import eval_bool
        from itertools import product as iproduct
        ok = True
        for two, fd in iproduct([False, True], repeat=2):
            def atom(n):
                t, pol = canon_atom(n)
                if t in (f"{HN}.shape[0] == 2", f"len({norm(d.get('commuting_blocks', ast.Name(id='commuting_blocks')))}) == 2", f"2 == {HN}.shape[0]",
                         "L.shape[0] == 2"):
                    return two if pol else not two
                if t == "fully_diagonalize":
                    return fd if pol else not fd
                if t == "len(fully_diagonalize)":
                    return fd if pol else not fd
                raise AnalysisError(R, f"atom `{t}` of two_block_optimized not understood")
            if eval_bool(tb, atom) != (two and not fd):
                ok = False
        rep.check(ok, R, f"{MOD}::block_diagonalize two_block_optimized <=> exactly two blocks and nothing fully diagonalised",
                  norm(tb), loc(tb_src))
    cb = d.get("commuting_blocks")
    if cb is not None:
        src = [n for n in own_nodes(f) if isinstance(n, ast.Assign) and norm(n.targets[0]) == norm(cb)]
        texts = {}
        from .resolve import env_at as _env_at, resolved as _resolved
        from .sem import canon as _canon
        for a in src:
            p = a._parent
            pol = None
            if isinstance(p, ast.If):
                tp = any(a is s for s in p.body)
                t = norm(_canon(_resolved(p.test, _env_at(p, f))))
                if t == "not isinstance(fully_diagonalize, dict)":
                    pol = "nodict" if tp else "dict"
                elif t == "isinstance(fully_diagonalize, dict)":
                    pol = "dict" if tp else "nodict"
            texts[pol] = rtext_(a.value, {})
        ok = texts.get("nodict") in (f"[True] * {HN}.shape[0]",) and \
            texts.get("dict") in (f"[_v0 not in fully_diagonalize for _v0 in range({HN}.shape[0])]",)
        rep.check(ok, R, f"{MOD}::block_diagonalize commuting_blocks[i] is False exactly for blocks with a user mask",
                  str(texts), loc(src[0] if src else scopes[0]))
    rep.check(norm(d.get("solve_sylvester", ast.Constant(None))) == "solve_sylvester", R,
              f"{MOD}::block_diagonalize scope passes the selected solver", "", loc(scopes[0]))
    rep.check(isinstance(d.get("use_linear_operator"), ast.Name), R,
              f"{MOD}::block_diagonalize scope passes the linear-operator mask", "", loc(scopes[0]))
    # diag / offdiag installed together in both mask branches
    installs, pairs = [], {}
    for n in own_nodes(f):
        if not isinstance(n, ast.Assign):
            continue
        tg = n.targets[0]
        items = []
        if isinstance(tg, ast.Subscript) and norm(tg.value) == SCOPE:
            items = [(tg, n.value)]
        elif isinstance(tg, ast.Tuple) and all(isinstance(t_, ast.Subscript) and norm(t_.value) == SCOPE for t_ in tg.elts):
            if not (isinstance(n.value, ast.Tuple) and len(n.value.elts) == len(tg.elts)):
                raise AnalysisError(R, f"block_diagonalize: `{norm(n)[:70]}` installs scope entries from a value that is not followed")
            items = list(zip(tg.elts, n.value.elts))
        if items:
            installs.append(n)
            blk = id(n._parent), any(n is s_ for s_ in getattr(n._parent, "body", []))
            for t_, v_ in items:
                pairs.setdefault(blk, set()).add((norm(t_.slice), norm(v_)))
    if not installs:
        raise AnalysisError(R, "block_diagonalize: no installation of diag / offdiag into the scope found")
    ok = all(v == {("'diag'", "diag"), ("'offdiag'", "offdiag")} for v in pairs.values())
    rep.check(ok, R, f"{MOD}::block_diagonalize diag and offdiag are installed into the scope together",
              str(sorted(map(sorted, pairs.values()))), loc(installs[0]))
    # algorithm selection and the call: decided on the bound, resolved arguments of the one series_computation call
    from .resolve import env_at as _ea1, resolved as _rs1
    from .sem import bind_args as _bind1, canon as _canon1
    calls = [n for n in own_nodes(f) if isinstance(n, ast.Call) and call_name(n) == "series_computation"]
    if len(calls) != 1:
        raise AnalysisError(R, f"block_diagonalize: {len(calls)} calls of series_computation")
    c = calls[0]
    scdef = repo.find("algorithm_parsing::series_computation", R)
    b1 = _bind1(scdef, c)
    if b1 is None:
        raise AnalysisError(R, "block_diagonalize: the series_computation call cannot be bound")
    env_c = {k_: v_ for k_, v_ in _ea1(c, f).items() if k_ not in (SCOPE, HN)}
    alg_t = norm(_canon1(_rs1(b1["algorithm"], env_c)))
    rep.check(alg_t in ("main if hermitian else nonhermitian", "nonhermitian if not hermitian else main"), R,
              f"{MOD}::block_diagonalize algorithm = main if hermitian else nonhermitian", alg_t, loc(c))
    # the multiplication handed on: the local that was chosen between matmul and mul
    opv = b1["operator"]
    op_defs = {norm(n_.value) for n_ in own_nodes(f) if isinstance(n_, ast.Assign) and isinstance(opv, ast.Name) and norm(n_.targets[0]) == opv.id}
    ok = norm(b1["series"]) == f"{{'H': {HN}}}" and norm(b1["scope"]) == SCOPE and isinstance(opv, ast.Name) and bool(op_defs) and op_defs <= {"matmul", "mul"}
    rep.check(ok, R, f"{MOD}::block_diagonalize series_computation({{'H': H}}, algorithm, scope, operator)",
              str({k_: norm(v_)[:40] for k_, v_ in b1.items()}), loc(c))
    rets = [n for n in own_nodes(f) if isinstance(n, ast.Return)]
    from .resolve import env_at as _ea0
    sc_asg = [n for n in own_nodes(f) if isinstance(n, ast.Assign) and isinstance(n.value, ast.Call) and call_name(n.value) == "series_computation"]
    if len(sc_asg) != 1:
        raise AnalysisError(R, "assignment of the series_computation result not found")
    tg = sc_asg[0].targets[0]
    OUT = norm(tg.elts[0]) if isinstance(tg, ast.Tuple) else None
    if OUT is None or not OUT.isidentifier():
        raise AnalysisError(R, "series_computation result is not unpacked into (outputs, ...)")
    TUP = f"({OUT}['H_tilde'], {OUT}['U'], {OUT}['U†'])"
    _ea = lambda n_, f_: _ea0(n_, f_, opaque=(OUT,))
    forms = []
    for r_ in rets:
        t = rtext_(r_.value, _ea(r_, f))
        if t == TUP:
            forms.append("plain")
        elif _mapped_over(r_.value, _ea(r_, f), TUP) is True:
            forms.append("mapped")
        elif _mapped_over(r_.value, _ea(r_, f), TUP) is False:
            forms.append("wrong-order:" + t[:80])
        else:
            forms.append("other:" + t[:80])
    if any(x.startswith(("other", "wrong-order")) for x in forms):
        known_wrong = [x for x in forms if x.startswith(f"other:({OUT}[") or x.startswith("wrong-order")]
        if known_wrong:
            rep.fail(R, f"{MOD}::block_diagonalize returns (H_tilde, U, U†) in this order", str(known_wrong), loc(rets[-1]))
        else:
            raise AnalysisError(R, f"block_diagonalize: returned value not understood: {forms}")
    else:
        rep.check("plain" in forms, R, f"{MOD}::block_diagonalize returns (H_tilde, U, U†) in this order", str(forms), loc(rets[-1] if rets else f))
    # equal_eigs: the kept pairs of a fully diagonalised block are the pairs the diagonal solver treats as
    # degenerate: numeric |E_a - E_b| < atol with the same `atol` that is handed to the solver; symbolic: equality
    # the kept-pairs table, by role: the top-level dict comprehension over the blocks named in fully_diagonalize
    ee = [n for n in f.body if isinstance(n, ast.Assign) and isinstance(n.targets[0], ast.Name) and n.targets[0].id != "fully_diagonalize"
          and isinstance(n.value, ast.DictComp) and "fully_diagonalize" in norm(n.value.generators[0].iter)]
    if len(ee) != 1 or not isinstance(ee[0].value, ast.DictComp) or len(ee[0].value.generators) != 1:
        raise AnalysisError(R, "definition of equal_eigs (kept pairs of fully diagonalised blocks) not found as one dict comprehension")
    dc = ee[0].value
    gen = dc.generators[0]
    keyvar = norm(dc.key)
    # (1) key set = the blocks the user asked to diagonalise fully
    energies = f"diagonal[{keyvar}]"   # text that denotes the block's energies inside the value expression
    alias = None
    it = gen.iter
    if isinstance(gen.target, ast.Name) and gen.target.id == keyvar:
        keyset = norm(it)
    elif isinstance(gen.target, ast.Tuple) and len(gen.target.elts) == 2 and norm(gen.target.elts[0]) == keyvar \
            and isinstance(it, ast.Call) and call_name(it) == "enumerate" and len(it.args) == 1:
        alias = norm(gen.target.elts[1])
        inner = it.args[0]
        arms = [inner.body, inner.orelse] if isinstance(inner, ast.IfExp) else [inner]
        if all(norm(a) in ("diagonal", "()", "[]") for a in arms):
            keyset = "every block of `diagonal`"
        else:
            keyset = norm(it)
    else:
        keyset = norm(it)
    filt = [norm(c) for c in gen.ifs]
    if filt in ([f"{keyvar} in fully_diagonalize"], [f"{keyvar} in set(fully_diagonalize)"]) and keyset == "every block of `diagonal`":
        keyset = "set(fully_diagonalize)"
    ok_keys = keyset in ("set(fully_diagonalize)", "fully_diagonalize", "sorted(fully_diagonalize)", "sorted(set(fully_diagonalize))",
                         "tuple(fully_diagonalize)", "list(fully_diagonalize)", "fully_diagonalize.keys()")
    rep.check(ok_keys, R, f"{MOD}::block_diagonalize the kept-pairs masks are built for exactly the blocks listed in fully_diagonalize",
              f"keys range over {keyset}" + ("" if ok_keys else ": every block with a key is treated as fully diagonalised by diag/offdiag "
              "(`index[0] in to_keep`), so blocks the user did not list would get in-block elimination"), loc(ee[0]))
    # (2) predicate
    def is_energy(x, column):
        t = norm(x)
        base = [energies] + ([alias] if alias else [])
        return any(t == (f"{b}.reshape(-1, 1)" if column else b) for b in base)
    from .paths import eval_bool as _eb
    from .sem import Scope, bind_args, canon, outcomes
    # arms of the value: (conditions [(test, polarity)], expression); a module-level helper is expanded
    if isinstance(dc.value, ast.IfExp):
        arm_list = [([(dc.value.test, True)], dc.value.body), ([(dc.value.test, False)], dc.value.orelse)]
    elif isinstance(dc.value, ast.Call) and isinstance(dc.value.func, ast.Name) and Scope(repo.trees[MOD]).get(dc.value.func.id) is not None:
        helper = Scope(repo.trees[MOD]).get(dc.value.func.id)
        binding = bind_args(helper, dc.value)
        if binding is None:
            raise AnalysisError(R, f"cannot bind the call `{norm(dc.value)[:60]}`")
        arm_list = []
        for o in outcomes([s_ for s_ in helper.body], Scope(repo.trees[MOD]), env=binding, expand=False):
            if o.kind != "return":
                raise AnalysisError(R, f"{helper.name}: path without return")
            arm_list.append((o.conds, o.value))
    else:
        arm_list = [([], dc.value)]

    def symbolic_atom(sym):
        def atom(n):
            t = norm(canon(n))
            for b in [energies] + ([alias] if alias else []):
                t = t.replace(b, "E")
            if t == "E.dtype == object":
                return sym
            if t == "E.dtype != object":
                return not sym
            return None
        return atom
    preds = []
    active = {True: [], False: []}
    for conds, arm in arm_list:
        e = arm
        while isinstance(e, ast.Call) and isinstance(e.func, ast.Attribute) and e.func.attr == "astype":
            e = e.func.value
        kind = ("?", norm(arm)[:60], None, False)
        if isinstance(e, ast.Compare) and len(e.ops) == 1:
            l, r, op = e.left, e.comparators[0], e.ops[0]
            if isinstance(l, ast.Call) and call_name(l) in ("np.abs", "abs") and l.args and isinstance(l.args[0], ast.BinOp) \
                    and isinstance(l.args[0].op, ast.Sub) and isinstance(op, (ast.Lt, ast.LtE)):
                d = l.args[0]
                pair = (is_energy(d.left, True) and is_energy(d.right, False)) or (is_energy(d.left, False) and is_energy(d.right, True))
                kind = ("numeric", "|E_a - E_b| < tol", norm(r), pair)
            elif isinstance(op, ast.Eq) and norm(r) == "True" and isinstance(l, ast.Compare) and isinstance(l.ops[0], ast.Eq):
                a1, a2 = l.left, l.comparators[0]
                pair = (is_energy(a1, True) and is_energy(a2, False)) or (is_energy(a1, False) and is_energy(a2, True))
                kind = ("exact", "E_a == E_b", None, pair)
        preds.append(kind)
        for sym in (True, False):
            vals = [_eb(t, symbolic_atom(sym)) for t, _p in conds]
            if any(v is None for v in vals):
                raise AnalysisError(R, f"kept-pairs mask depends on a condition that is not understood: `{norm(conds[vals.index(None)][0])[:60]}`")
            if all(v == p for v, (_t, p) in zip(vals, conds)):
                active[sym].append(kind)
    # numeric energies -> the tolerance predicate with `atol`; symbolic energies -> exact equality (or the same numeric predicate)
    ok = all(p[3] for p in preds) and all(p[0] in ("numeric", "exact") for p in preds) \
        and len(active[False]) == 1 and active[False][0][0] == "numeric" and active[False][0][2] == "atol" and len(active[True]) == 1
    rep.check(ok, R, f"{MOD}::block_diagonalize kept pairs of a fully diagonalised block are the degenerate pairs |E_a - E_b| < atol (exact only for symbolic energies)",
              str(preds), loc(ee[0]))
    sd = [c for c in own_nodes(f) if isinstance(c, ast.Call) and call_name(c) == "solve_sylvester_diagonal"]
    ok = len(sd) == 1 and {k.arg: norm(k.value) for k in sd[0].keywords}.get("atol") == "atol" and norm(sd[0].args[0]) == "diagonal"
    rep.check(ok, R, f"{MOD}::block_diagonalize the diagonal solver gets the same energies and the same tolerance as the kept-pairs mask",
              "degenerate (kept) pairs are exactly the pairs the solver answers with 0", loc(sd[0] if sd else f))
    tk = [n for n in own_nodes(f) if isinstance(n, ast.Assign) and norm(n.targets[0]) == "to_keep" and norm(n.value) == "equal_eigs"]
    rep.check(len(tk) == 1, R, f"{MOD}::block_diagonalize full diagonalisation keeps exactly the degenerate pairs (Rayleigh-Schrodinger)", "", loc(tk[0] if tk else f))
