"""Linear-algebra denotation evaluator (E6 / E7 / C14).

Abstract values are non-commutative polynomials over decorated atoms
``(name, deco)`` with deco in {'', '*', 'T', 'H'} (plain, conjugate, transpose,
adjoint).  Understood syntax: ``@``, ``np.dot``, ``+``, ``-``, unary minus,
``.conj()/.conjugate()/np.conj``, ``.T/.transpose()/np.transpose``, ``Dagger``,
``.H``, ``.adjoint()``, parentheses; names are looked up in an environment.
Anything else raises AnalysisError (the analysis stops, exit 2).
"""

from __future__ import annotations

import ast
from fractions import Fraction as Fr

from .core import AnalysisError, call_name, dotted, norm

CONJ = {"": "*", "*": "", "T": "H", "H": "T"}
TRAN = {"": "T", "T": "", "*": "H", "H": "*"}
ADJ = {"": "H", "H": "", "*": "T", "T": "*"}


def atom(name: str, deco: str = ""):
    return {((name, deco),): Fr(1)}


ONE = {(): Fr(1)}


def add(*ps):
    out = {}
    for p in ps:
        for w, c in p.items():
            v = out.get(w, 0) + c
            if v == 0:
                out.pop(w, None)
            else:
                out[w] = v
    return out


def scale(p, c):
    return {w: Fr(c) * v for w, v in p.items()} if c else {}


def sub(a, b):
    return add(a, scale(b, -1))


def mul(*ps):
    out = {(): Fr(1)}
    for p in ps:
        nxt = {}
        for w1, c1 in out.items():
            for w2, c2 in p.items():
                w = w1 + w2
                v = nxt.get(w, 0) + c1 * c2
                if v == 0:
                    nxt.pop(w, None)
                else:
                    nxt[w] = v
        out = nxt
    return out


def _map(p, table, reverse):
    out = {}
    for w, c in p.items():
        w2 = tuple((n, table[d]) for n, d in (reversed(w) if reverse else w))
        out[w2] = out.get(w2, 0) + c
    return {w: c for w, c in out.items() if c}


def conj(p):
    return _map(p, CONJ, False)


def transpose(p):
    return _map(p, TRAN, True)


def adjoint(p):
    return _map(p, ADJ, True)


def substitute(p, mapping: dict):
    """Replace atom names (keeping decorations)."""
    out = {}
    for w, c in p.items():
        w2 = tuple((mapping.get(n, n), d) for n, d in w)
        out[w2] = out.get(w2, 0) + c
    return {w: c for w, c in out.items() if c}


def show(p) -> str:
    deco = {"": "", "*": "*", "T": "^T", "H": "^H"}
    if not p:
        return "0"
    items = sorted(p.items(), key=lambda kv: (len(kv[0]), str(kv[0])))
    return " + ".join(f"{c}*{'.'.join(n + deco[d] for n, d in w) or '1'}" for w, c in items)


class Den:
    """Evaluate an expression to a denotation under ``env`` (text of name/attribute -> poly)."""

    def __init__(self, env: dict, rule: str, resolve=None):
        self.env = env
        self.rule = rule
        self.resolve = resolve  # optional: Name -> ast expr (single assignment)

    def ev(self, e: ast.AST):
        key = norm(e)
        if key in self.env:
            return self.env[key]
        if isinstance(e, ast.BinOp):
            if isinstance(e.op, ast.MatMult):
                return mul(self.ev(e.left), self.ev(e.right))
            if isinstance(e.op, ast.Add):
                return add(self.ev(e.left), self.ev(e.right))
            if isinstance(e.op, ast.Sub):
                return sub(self.ev(e.left), self.ev(e.right))
            if isinstance(e.op, ast.Mult):
                for a, b in ((e.left, e.right), (e.right, e.left)):
                    if isinstance(a, ast.Constant) and isinstance(a.value, int):
                        return scale(self.ev(b), a.value)
        if isinstance(e, ast.UnaryOp) and isinstance(e.op, ast.USub):
            return scale(self.ev(e.operand), -1)
        if isinstance(e, ast.Attribute):
            if e.attr == "T":
                return transpose(self.ev(e.value))
            if e.attr == "H":
                return adjoint(self.ev(e.value))
        if isinstance(e, ast.Call):
            name = call_name(e)
            if isinstance(e.func, ast.Attribute) and not e.args and not e.keywords:
                if e.func.attr in ("conj", "conjugate"):
                    return conj(self.ev(e.func.value))
                if e.func.attr == "transpose":
                    return transpose(self.ev(e.func.value))
                if e.func.attr == "adjoint":
                    return adjoint(self.ev(e.func.value))
            if name in ("Dagger",) and len(e.args) == 1:
                return adjoint(self.ev(e.args[0]))
            if name in ("np.conj", "np.conjugate") and len(e.args) == 1:
                return conj(self.ev(e.args[0]))
            if name in ("np.transpose",) and len(e.args) == 1:
                return transpose(self.ev(e.args[0]))
            if name in ("np.dot", "np.matmul") and len(e.args) == 2:
                return mul(self.ev(e.args[0]), self.ev(e.args[1]))
            if name in ("np.asarray", "np.array", "np.asanyarray", "np.ascontiguousarray", "np.copy") and e.args:
                return self.ev(e.args[0])  # the same matrix in another container / dtype
        if isinstance(e, ast.Name) and self.resolve is not None:
            r = self.resolve(e)
            if r is not None:
                return self.ev(r)
        raise AnalysisError(self.rule, f"linear-algebra expression not understood: `{norm(e)}`")
