"""Independent reader of the algorithm mini-language (pymablock/algorithms.py).

Written from the grammar documented in ``series_computation.__doc__``; shares no
code with ``pymablock.algorithm_parsing``.  Produces a small IR:

    Program(name, series: {name: Series}, products: {name: Product}, outputs)
    Series(name, start, marker, branches=[Branch(cond, expr, node)])
    expr  ::= ('ref', name, adj: bool)            series or product reference
            | ('zero',)
            | ('num', Fraction)
            | ('add', [expr...]) | ('neg', expr) | ('scale', Fraction, expr)
            | ('call', fname, [expr...])           scope function
            | ('ifexp', flag, expr_true, expr_false)   flag in FLAGS
"""

from __future__ import annotations

import ast
from dataclasses import dataclass, field
from fractions import Fraction

from .core import AnalysisError, norm

CONDS = ("diagonal", "offdiagonal", "lower")
FLAGS = ("two_block_optimized", "commuting_blocks")
RULE = "E1.dsl"


@dataclass
class Branch:
    cond: str  # diagonal | offdiagonal | lower | default
    expr: tuple
    node: ast.AST


@dataclass
class Series:
    name: str
    start: object = None  # None | 0 | 1 | str
    marker: str | None = None  # hermitian | antihermitian
    branches: list[Branch] = field(default_factory=list)
    node: ast.AST | None = None


@dataclass
class Product:
    name: str
    terms: list[str]
    hermitian: bool
    node: ast.AST | None = None


@dataclass
class Program:
    name: str
    series: dict[str, Series]
    products: dict[str, Product]
    outputs: list[str]
    node: ast.AST | None = None

    def refs(self) -> set[str]:
        out: set[str] = set()
        for s in self.series.values():
            for b in s.branches:
                out |= expr_refs(b.expr)
        return out

    def inputs(self) -> set[str]:
        """Names referenced (directly or as product factors) but not defined."""
        names = set()
        for r in self.refs():
            if r in self.products:
                continue
            names.add(r)
        for p in self.products.values():
            names |= set(p.terms)
        return {n for n in names if n not in self.series}

    def flags(self) -> set[str]:
        out: set[str] = set()
        for s in self.series.values():
            for b in s.branches:
                out |= expr_flags(b.expr)
        return out


def expr_refs(e: tuple) -> set[str]:
    k = e[0]
    if k == "ref":
        return {e[1]}
    if k in ("zero", "num"):
        return set()
    if k == "add":
        return set().union(*(expr_refs(x) for x in e[1])) if e[1] else set()
    if k == "neg":
        return expr_refs(e[1])
    if k == "scale":
        return expr_refs(e[2])
    if k == "call":
        return set().union(*(expr_refs(x) for x in e[2])) if e[2] else set()
    if k == "ifexp":
        return expr_refs(e[2]) | expr_refs(e[3])
    raise AnalysisError(RULE, f"unknown expr kind {k}")


def expr_flags(e: tuple) -> set[str]:
    k = e[0]
    if k in ("ref", "zero", "num"):
        return set()
    if k == "add":
        return set().union(*(expr_flags(x) for x in e[1])) if e[1] else set()
    if k == "neg":
        return expr_flags(e[1])
    if k == "scale":
        return expr_flags(e[2])
    if k == "call":
        return set().union(*(expr_flags(x) for x in e[2])) if e[2] else set()
    if k == "ifexp":
        return {e[1]} | expr_flags(e[2]) | expr_flags(e[3])
    raise AnalysisError(RULE, f"unknown expr kind {k}")


def _const_number(node: ast.AST) -> Fraction | None:
    if isinstance(node, ast.Constant) and isinstance(node.value, (int,)) and not isinstance(
        node.value, bool
    ):
        return Fraction(node.value)
    if isinstance(node, ast.UnaryOp) and isinstance(node.op, ast.USub):
        v = _const_number(node.operand)
        return None if v is None else -v
    if isinstance(node, ast.UnaryOp) and isinstance(node.op, ast.UAdd):
        return _const_number(node.operand)
    return None


def read_expr(node: ast.AST, where: str) -> tuple:
    if isinstance(node, ast.Constant):
        if isinstance(node.value, str):
            return ("ref", node.value, False)
        if isinstance(node.value, int) and not isinstance(node.value, bool):
            return ("num", Fraction(node.value))
        raise AnalysisError(RULE, f"{where}: unsupported literal {node.value!r}")
    if isinstance(node, ast.Attribute):
        if node.attr != "adj":
            raise AnalysisError(RULE, f"{where}: unsupported attribute .{node.attr}")
        inner = node.value
        if not (isinstance(inner, ast.Constant) and isinstance(inner.value, str)):
            raise AnalysisError(RULE, f"{where}: .adj on a non-literal: {norm(node)}")
        return ("ref", inner.value, True)
    if isinstance(node, ast.Name):
        if node.id == "zero":
            return ("zero",)
        raise AnalysisError(RULE, f"{where}: bare name {node.id!r} in expression")
    if isinstance(node, ast.UnaryOp):
        if isinstance(node.op, ast.USub):
            return ("neg", read_expr(node.operand, where))
        if isinstance(node.op, ast.UAdd):
            return read_expr(node.operand, where)
        raise AnalysisError(RULE, f"{where}: unsupported unary op in {norm(node)}")
    if isinstance(node, ast.BinOp):
        if isinstance(node.op, ast.Add):
            return ("add", [read_expr(node.left, where), read_expr(node.right, where)])
        if isinstance(node.op, ast.Sub):
            return (
                "add",
                [read_expr(node.left, where), ("neg", read_expr(node.right, where))],
            )
        if isinstance(node.op, ast.Div):
            d = _const_number(node.right)
            if d is None or d == 0:
                raise AnalysisError(RULE, f"{where}: division by non-constant in {norm(node)}")
            return ("scale", 1 / d, read_expr(node.left, where))
        if isinstance(node.op, ast.Mult):
            l, r = _const_number(node.left), _const_number(node.right)
            if l is not None:
                return ("scale", l, read_expr(node.right, where))
            if r is not None:
                return ("scale", r, read_expr(node.left, where))
            raise AnalysisError(RULE, f"{where}: product of two series with '*': {norm(node)}")
        raise AnalysisError(RULE, f"{where}: unsupported operator in {norm(node)}")
    if isinstance(node, ast.IfExp):
        flag, positive = read_flag(node.test, where)
        a, b = read_expr(node.body, where), read_expr(node.orelse, where)
        agg = flag_aggregate(node.test)
        if agg is not None:
            # 5th element: the test quantifies over ALL blocks ('any' / 'all') instead of selecting the row block's flag
            return ("ifexp", flag, a, b, agg) if positive else ("ifexp", flag, b, a, agg)
        return ("ifexp", flag, a, b) if positive else ("ifexp", flag, b, a)
    if isinstance(node, ast.Call):
        if not isinstance(node.func, ast.Name) or node.keywords:
            raise AnalysisError(RULE, f"{where}: unsupported call form {norm(node)}")
        return ("call", node.func.id, [read_expr(a, where) for a in node.args])
    raise AnalysisError(RULE, f"{where}: unsupported expression {norm(node)}")


def _aggregate_form(test: ast.AST) -> tuple[str, bool] | None:
    """`True in commuting_blocks` (any), `False not in commuting_blocks` (all) and their
    negations -> (aggregate, polarity): the test is `aggregate(commuting_blocks)` when polarity else its negation."""
    def is_cb(n):
        return isinstance(n, ast.Name) and n.id == "commuting_blocks"
    # (the call forms any(...) / all(...) are not accepted: the DSL compiler turns every call into a scope-function call)
    if (isinstance(test, ast.Compare) and len(test.ops) == 1 and is_cb(test.comparators[0])
            and isinstance(test.left, ast.Constant) and isinstance(test.left.value, bool)):
        val, op = test.left.value, test.ops[0]
        if isinstance(op, ast.In):
            return ("any", True) if val else ("all", False)
        if isinstance(op, ast.NotIn):
            return ("any", False) if val else ("all", True)
    return None


def flag_aggregate(test: ast.AST) -> str | None:
    while isinstance(test, ast.UnaryOp) and isinstance(test.op, ast.Not):
        test = test.operand
    f = _aggregate_form(test)
    return f[0] if f else None


def read_flag(test: ast.AST, where: str) -> tuple[str, bool]:
    """Return (flag, polarity) of an IfExp test."""
    if isinstance(test, ast.UnaryOp) and isinstance(test.op, ast.Not):
        f, p = read_flag(test.operand, where)
        return f, not p
    agg = _aggregate_form(test)
    if agg is not None:
        return "commuting_blocks", agg[1]
    if isinstance(test, ast.Name) and test.id in FLAGS:
        if test.id == "commuting_blocks":
            raise AnalysisError(RULE, f"{where}: commuting_blocks used without a block index")
        return test.id, True
    if (
        isinstance(test, ast.Subscript)
        and isinstance(test.value, ast.Name)
        and test.value.id == "commuting_blocks"
    ):
        # the per-block flag must be selected by the row block of the requested index
        if norm(test.slice) != "index[0]":
            raise AnalysisError(
                RULE, f"{where}: commuting_blocks indexed by {norm(test.slice)!r}, expected index[0]"
            )
        return "commuting_blocks", True
    raise AnalysisError(RULE, f"{where}: unsupported flag test {norm(test)}")


def read_program(func: ast.FunctionDef) -> Program:
    series: dict[str, Series] = {}
    products: dict[str, Product] = {}
    outputs: list[str] = []
    pname = func.name
    for stmt in func.body:
        if isinstance(stmt, ast.Expr) and isinstance(stmt.value, ast.Constant):
            continue  # docstring
        if isinstance(stmt, ast.Return):
            v = stmt.value
            if isinstance(v, ast.Constant) and isinstance(v.value, str):
                outputs = [v.value]
            elif isinstance(v, ast.Tuple) and all(
                isinstance(e, ast.Constant) and isinstance(e.value, str) for e in v.elts
            ):
                outputs = [e.value for e in v.elts]
            else:
                raise AnalysisError(RULE, f"{pname}: unsupported return {norm(stmt)}")
            continue
        if not isinstance(stmt, ast.With):
            raise AnalysisError(RULE, f"{pname}: unsupported top-level statement {norm(stmt)[:60]}")
        if len(stmt.items) != 1 or not (
            isinstance(stmt.items[0].context_expr, ast.Constant)
            and isinstance(stmt.items[0].context_expr.value, str)
        ):
            raise AnalysisError(RULE, f"{pname}: with-item is not a string literal")
        name = stmt.items[0].context_expr.value
        where = f"{pname}::{name}"
        if name in series or name in products:
            raise AnalysisError(RULE, f"{where}: defined twice")
        if "@" in name:
            herm = False
            for b in stmt.body:
                if isinstance(b, ast.Pass):
                    continue
                if isinstance(b, ast.Expr) and isinstance(b.value, ast.Name):
                    if b.value.id == "hermitian":
                        herm = True
                        continue
                raise AnalysisError(RULE, f"{where}: unsupported product statement {norm(b)}")
            products[name] = Product(name, name.split(" @ "), herm, stmt)
            continue
        s = Series(name, node=stmt)
        for b in stmt.body:
            if isinstance(b, ast.Pass):
                continue
            if isinstance(b, ast.Assign):
                if not (
                    len(b.targets) == 1
                    and isinstance(b.targets[0], ast.Name)
                    and b.targets[0].id == "start"
                    and isinstance(b.value, ast.Constant)
                ):
                    raise AnalysisError(RULE, f"{where}: unsupported assignment {norm(b)}")
                if b.value.value not in (0, 1) and not isinstance(b.value.value, str):
                    raise AnalysisError(RULE, f"{where}: unsupported start {b.value.value!r}")
                s.start = b.value.value
                continue
            if isinstance(b, ast.Expr) and isinstance(b.value, ast.Name) and b.value.id in (
                "hermitian",
                "antihermitian",
            ):
                if s.marker is not None:
                    raise AnalysisError(RULE, f"{where}: two symmetry markers")
                s.marker = b.value.id
                continue
            if isinstance(b, ast.If):
                if not (isinstance(b.test, ast.Name) and b.test.id in CONDS):
                    raise AnalysisError(RULE, f"{where}: unsupported condition {norm(b.test)}")
                if b.orelse:
                    raise AnalysisError(RULE, f"{where}: else-branch in a series definition")
                if len(b.body) != 1 or not isinstance(b.body[0], ast.Expr):
                    raise AnalysisError(
                        RULE, f"{where}: a conditional must contain exactly one expression"
                    )
                cond = b.test.id
                s.branches.append(
                    Branch(cond, read_expr(b.body[0].value, f"{where}[{cond}]"), b)
                )
                continue
            if isinstance(b, ast.Expr):
                s.branches.append(Branch("default", read_expr(b.value, f"{where}[default]"), b))
                continue
            raise AnalysisError(RULE, f"{where}: unsupported statement {norm(b)[:60]}")
        series[name] = s
    if not outputs:
        raise AnalysisError(RULE, f"{pname}: no return statement with outputs")
    prog = Program(pname, series, products, outputs, func)
    # referential integrity
    for r in prog.refs():
        if "@" in r and r not in products:
            raise AnalysisError(RULE, f"{pname}: product {r!r} used but not declared")
    for o in outputs:
        if o not in series:
            raise AnalysisError(RULE, f"{pname}: output {o!r} is not a defined series")
    return prog
