"""E3 -- typestate of the memo in ``BlockSeries.__getitem__`` (CFG rules T1..T6)."""

from __future__ import annotations

import ast

from .cfg import CFG, default_may_raise
from .core import AnalysisError, Repo, Report, call_name, dotted, norm, own_nodes

RULE = "E3"
ANCHOR = "series::BlockSeries::__getitem__"
MEMO_ATTR = "_data"
ALLOWED_METHODS = {"__init__", "__getitem__", "__contains__", "pop"}
READ_ONLY_METHODS = {"get", "keys", "items", "values", "copy", "__len__", "__contains__"}


class Memo:
    """Facts extracted from ``__getitem__``."""

    def __init__(self, func: ast.FunctionDef):
        self.func = func
        self.aliases = {f"self.{MEMO_ATTR}"}
        for n in own_nodes(func):
            if isinstance(n, ast.Assign) and dotted(n.value) == f"self.{MEMO_ATTR}":
                for t in n.targets:
                    if isinstance(t, ast.Name):
                        self.aliases.add(t.id)
        self.sentinel_stores: list[ast.Assign] = []
        self.result_stores: list[ast.Assign] = []
        self.removals: list[ast.AST] = []
        self.eval_calls: list[ast.Call] = []
        for n in own_nodes(func):
            if isinstance(n, ast.Assign) and sum(self.is_memo_sub(t) for t in n.targets) == 1 \
                    and all(self.is_memo_sub(t) or isinstance(t, ast.Name) for t in n.targets):  # `value = data[index] = ...` too
                if isinstance(n.value, ast.Name) and n.value.id == "PENDING":
                    self.sentinel_stores.append(n)
                else:
                    self.result_stores.append(n)
            if isinstance(n, ast.Call) and dotted(n.func) == "self.eval":
                self.eval_calls.append(n)
            if self.is_removal(n):
                self.removals.append(n)

    def is_memo(self, node: ast.AST) -> bool:
        return dotted(node) in self.aliases

    def is_memo_sub(self, node: ast.AST) -> bool:
        return isinstance(node, ast.Subscript) and self.is_memo(node.value)

    def key_of(self, node: ast.AST) -> str | None:
        if isinstance(node, ast.Assign):
            return norm(next(t for t in node.targets if self.is_memo_sub(t)).slice)
        if isinstance(node, ast.Expr) and isinstance(node.value, ast.Call):
            c = node.value
            return norm(c.args[0]) if c.args else None
        if isinstance(node, ast.Delete):
            return norm(node.targets[0].slice)
        return None

    def is_removal(self, n: ast.AST) -> bool:
        if isinstance(n, ast.Expr) and isinstance(n.value, ast.Call):
            c = n.value
            if isinstance(c.func, ast.Attribute) and c.func.attr == "pop" and self.is_memo(c.func.value):
                # pop(key, default) cannot raise on a hashable key; pop(key) can (KeyError)
                return len(c.args) == 2
        if isinstance(n, ast.Delete) and len(n.targets) == 1 and self.is_memo_sub(n.targets[0]):
            return True
        return False


def _path_text(path) -> str:
    return " -> ".join(f"L{n.lineno}:{n.label[:40]}" if n.ast is not None else n.kind for n in path)


def rule_typestate(rep: Report, repo: Repo):
    func = repo.find(ANCHOR, RULE)
    memo = Memo(func)
    if not memo.sentinel_stores:
        raise AnalysisError(RULE, f"{ANCHOR}: no store of the PENDING sentinel into the memo found")
    if not memo.eval_calls:
        raise AnalysisError(RULE, f"{ANCHOR}: no call of self.eval found")
    if not memo.result_stores:
        raise AnalysisError(RULE, f"{ANCHOR}: no store of an evaluated value into the memo found")
    removals = set(map(id, memo.removals))

    PURE = {"isinstance", "issubclass", "str", "repr", "len", "type", "bool", "id", "hasattr"}
    PURE_METHODS = {"startswith", "endswith", "get"}  # dict.get(key, default) of a hashable key cannot raise

    def may_raise(node):
        if id(node) in removals:
            return False
        if isinstance(node, (ast.Raise, ast.Assert)):
            return True
        # calls of side-effect-free builtins on the caught exception / local names cannot raise
        for n in ast.walk(node):
            if isinstance(n, (ast.Call, ast.Await, ast.Yield, ast.YieldFrom)):
                if isinstance(n, ast.Call) and (call_name(n) in PURE or (isinstance(n.func, ast.Attribute) and n.func.attr in PURE_METHODS)):
                    continue
                return True
        return False

    g = CFG(func, may_raise)
    ends = {g.exit.id, g.raise_exit.id}
    rep.count("E3.cfg", {"nodes": len(g.nodes), "edges": sum(len(v) for v in g.succ.values()),
                         "sentinel_stores": len(memo.sentinel_stores), "eval_calls": len(memo.eval_calls),
                         "result_stores": len(memo.result_stores), "removals": len(memo.removals)})

    def nodes_for(stmts):
        out = []
        for s in stmts:
            out += g.node_of(s)
        return out

    # T1 (+T2): every path from the sentinel store to any exit passes a result store or a removal
    for s in memo.sentinel_stores:
        key = memo.key_of(s)
        targets = {
            n.id
            for n in nodes_for(memo.result_stores + memo.removals)
            if memo.key_of(n.ast) == key
        }
        for sn in g.node_of(s):
            path = g.escape_path(sn.id, targets, ends)
            inst = f"{ANCHOR} T1 sentinel store `{norm(s)}`"
            if path is None:
                rep.ok(RULE, inst, "every path to a normal or exceptional exit stores the result or removes the key",
                       repo.loc("series", s))
            else:
                exit_kind = "exception" if path[-1].kind == "raise" else "return"
                rep.fail(RULE, f"{ANCHOR} T1 in-flight marker can be left behind: exit by {exit_kind} via "
                         + " -> ".join(norm(n.ast)[:50] for n in path[1:-1] if n.ast is not None),
                         f"path from the sentinel store to function exit without result store or removal: {_path_text(path)}",
                         repo.loc("series", path[-2].ast if len(path) > 1 else s))
    # the result store that carries the eval call: its exceptional edge must be caught by
    # handlers that jointly cover BaseException (reported by T1 as a path), and each handler
    # re-raises (no swallowed exception: the caller must see it)
    for h in [n for n in own_nodes(func) if isinstance(n, ast.ExceptHandler)]:
        hn = g.node_of(h)
        for n in hn:
            # from handler entry, can we reach the normal continuation (anything not raise_exit)
            # i.e. is there a path handler -> EXIT or back into the loop without a raise?
            reach = g.reachable(n.id, kinds={"n", "t", "f", "loop"})
            body_nodes = {x.id for st in h.body for sub in ast.walk(st) for x in g.node_of(sub)}
            leaves_normally = any(m not in body_nodes and m != n.id for m in reach)
            rep.check(not leaves_normally, RULE, f"{ANCHOR} T1 handler `{n.label}` re-raises on every path",
                      "a handler that completes normally would swallow the callback's exception",
                      repo.loc("series", h))

    # T2b: a stored result stays: no removal of the key is reachable from the result store without an exception in between
    for r in memo.result_stores:
        key = memo.key_of(r)
        for rn in g.node_of(r):
            reach = g.reachable(rn.id, kinds={"n", "t", "f", "loop"})
            hit = [m for m in nodes_for(memo.removals) if m.id in reach and m.id != rn.id and memo.key_of(m.ast) == key]
            inst = f"{ANCHOR} T2b the evaluated element stored by `{norm(r)[:50]}` stays in the memo"
            if hit:
                rep.fail(RULE, inst.replace("stays in the memo", "can be removed again without any exception"),
                         f"`{norm(hit[0].ast)[:60]}` (line {hit[0].lineno}) is reachable on a normal path after the store: such an element is "
                         "evaluated anew at every request", repo.loc("series", hit[0].ast))
            else:
                rep.ok(RULE, inst, "removals are reachable only through an exception", repo.loc("series", r))
    # T3: the eval call is dominated by the "key not in memo" test
    tests = []
    for n in g.nodes:
        if n.kind == "test" and isinstance(n.ast, ast.Compare) and len(n.ast.ops) == 1:
            op, right = n.ast.ops[0], n.ast.comparators[0]
            if isinstance(op, (ast.NotIn, ast.In)) and memo.is_memo(right):
                tests.append((n, "t" if isinstance(op, ast.NotIn) else "f", norm(n.ast.left)))
    for c in memo.eval_calls:
        stmt = c
        while not isinstance(stmt, ast.stmt):
            stmt = stmt._parent
        for cn in g.node_of(stmt):
            ok = any(g.dominated_by_edge(cn.id, t.id, kind) for t, kind, _k in tests)
            rep.check(ok, RULE, f"{ANCHOR} T3 eval call `{norm(c)}` guarded by absence test",
                      "the callback runs only when the key is not cached (at most one evaluation while cached)",
                      repo.loc("series", c))
    # T3b: the key tested, stored and evaluated is the same expression
    keys = {memo.key_of(s) for s in memo.sentinel_stores + memo.result_stores}
    argkeys = set()
    for c in memo.eval_calls:
        if len(c.args) == 1 and isinstance(c.args[0], ast.Starred):
            argkeys.add(norm(c.args[0].value))
        else:
            argkeys.add(norm(ast.Tuple(elts=c.args, ctx=ast.Load())))
    tkeys = {k for _t, _kind, k in tests}
    rep.check(len(keys) == 1 and keys == argkeys and keys <= tkeys, RULE,
              f"{ANCHOR} T3 one key expression for test/store/eval",
              f"keys stored {sorted(keys)}, evaluated {sorted(argkeys)}, tested {sorted(tkeys)}",
              repo.loc("series", func))

    # T4: every load of memo[key] is the PENDING test itself or dominated by its negative edge
    pend_tests = []
    # local aliases of a memo element: `value = memo[key]` (single assignment); the alias is treated like the load
    # (`value = memo[key]`, or `value = memo[key] = <evaluated>`: the element just stored); every store of the name is of that kind
    aliases = {}
    cand = {}
    for n in own_nodes(func):
        if isinstance(n, ast.Assign) and all(isinstance(t, ast.Name) or memo.is_memo_sub(t) for t in n.targets):
            names = [t.id for t in n.targets if isinstance(t, ast.Name)]
            if names and (memo.is_memo_sub(n.value) or any(memo.is_memo_sub(t) for t in n.targets)):
                for nm in names:
                    cand.setdefault(nm, []).append(n)
    for nm, asg in cand.items():
        stores = [x for x in own_nodes(func) if isinstance(x, ast.Name) and x.id == nm and isinstance(x.ctx, ast.Store)]
        if len(stores) == len(asg):
            aliases[nm] = asg
    is_alias = lambda e: isinstance(e, ast.Name) and e.id in aliases
    for n in g.nodes:
        if n.kind == "test" and isinstance(n.ast, ast.Compare) and len(n.ast.ops) == 1:
            op, right, left = n.ast.ops[0], n.ast.comparators[0], n.ast.left
            if isinstance(right, ast.Name) and right.id == "PENDING" and (memo.is_memo_sub(left) or is_alias(left)):
                if isinstance(op, ast.Is):
                    pend_tests.append((n, "f", "t"))
                elif isinstance(op, ast.IsNot):
                    pend_tests.append((n, "t", "f"))
    if not pend_tests:
        rep.fail(RULE, f"{ANCHOR} T4 no `memo[key] is PENDING` test", "recursion detection missing",
                 repo.loc("series", func))
    for t, safe_kind, bad_kind in pend_tests:
        # the bad edge must lead to `raise RuntimeError`
        tgt = [b for b, k in g.succ[t.id] if k == bad_kind]
        ok = bool(tgt) and all(
            isinstance(g.nodes[b].ast, ast.Raise)
            and isinstance(g.nodes[b].ast.exc, ast.Call)
            and dotted(g.nodes[b].ast.exc.func) == "RuntimeError"
            for b in tgt
        )
        rep.check(ok, RULE, f"{ANCHOR} T4 PENDING hit raises RuntimeError",
                  "self-referential definitions surface as RuntimeError", repo.loc("series", t.ast))
    n_loads = 0
    for n in own_nodes(func):
        if (memo.is_memo_sub(n) or is_alias(n)) and isinstance(n.ctx, ast.Load):
            if any(getattr(n, "_parent", None) is a for al in aliases.values() for a in al):
                continue  # the aliasing assignment itself: its uses are checked through the alias name
            stmt = n
            while not isinstance(stmt, (ast.stmt,)) and not any(x.ast is stmt for x in g.nodes):
                stmt = stmt._parent
            if any(t.ast is stmt or t.ast is getattr(n, "_parent", None) for t, _s, _b in pend_tests):
                continue
            n_loads += 1
            cns = g.node_of(stmt)
            ok = bool(cns) and all(
                any(g.dominated_by_edge(cn.id, t.id, safe) for t, safe, _bad in pend_tests)
                for cn in cns
            )
            rep.check(ok, RULE, f"{ANCHOR} T4 load `{norm(n)}` happens only after the PENDING test",
                      "an in-flight marker is never copied into a result", repo.loc("series", n))
    rep.floor(RULE, "memo loads feeding results", n_loads, 1)


def rule_memo_owner(rep: Report, repo: Repo):
    """T5/T6: who may touch ``_data`` and how."""
    n_sites = 0
    for mod, tree in repo.all_trees().items():
        for node in ast.walk(tree):
            if not (isinstance(node, ast.Attribute) and node.attr == MEMO_ATTR):
                continue
            n_sites += 1
            # enclosing method / class
            f, cls = None, None
            p = node
            while hasattr(p, "_parent"):
                p = p._parent
                if f is None and isinstance(p, (ast.FunctionDef, ast.Lambda)):
                    f = p
                if isinstance(p, ast.ClassDef):
                    cls = p
                    break
            fname = getattr(f, "name", "<lambda>") if f is not None else "<module>"
            cname = cls.name if cls is not None else None
            where = repo.loc(mod, node) if mod in repo.trees else f"pymablock/{mod}.py:{node.lineno}"
            inside = cname == "BlockSeries" and fname in ALLOWED_METHODS and dotted(node) == f"self.{MEMO_ATTR}"
            use = _use_kind(node)
            inst = f"{mod}::{cname}.{fname} T5 access `{norm(node._parent)[:60]}` ({use})"
            if inside:
                if fname == "pop":
                    rep.check(use in ("pop", "alias"), RULE, inst, "BlockSeries.pop only removes (a local alias is followed by the body check)", where)
                elif fname == "__contains__":
                    rep.check(use == "read", RULE, inst, "__contains__ only reads", where)
                elif fname == "__init__":
                    rep.check(use in ("store", "read"), RULE, inst, "", where)
                else:
                    rep.ok(RULE, inst, "owner method", where)
            elif cname == "BlockSeries" and dotted(node) == f"self.{MEMO_ATTR}":
                rep.check(use == "read", RULE, inst,
                          "the memo may be mutated or aliased only inside BlockSeries.__init__/__getitem__/pop", where)
            else:
                rep.fail(RULE, inst + ": the memo of a series is accessed outside BlockSeries",
                         "what has been evaluated so far becomes an input of the computation (results depend on the request history), or the memo "
                         "is changed behind the series' back; use series[index] / `index in series`", where)
    rep.floor(RULE, "accesses of the memo attribute", n_sites, 4)
    # T5b: the element function of a series is called by BlockSeries.__getitem__ only -- that call is the one whose result is
    # memoised; `X.eval(...)` anywhere else computes the element again on every request and leaves no trace in the memo
    n_calls = 0
    for mod, tree in repo.all_trees().items():
        for node in ast.walk(tree):
            if not (isinstance(node, ast.Call) and isinstance(node.func, ast.Attribute) and node.func.attr == "eval"):
                continue
            f, cls = None, None
            p = node
            while hasattr(p, "_parent"):
                p = p._parent
                if f is None and isinstance(p, (ast.FunctionDef, ast.Lambda)):
                    f = p
                if isinstance(p, ast.ClassDef):
                    cls = p
                    break
            recv = norm(node.func.value)
            if recv in ("sympy", "ast") or recv.startswith("sympy."):
                continue
            n_calls += 1
            where = repo.loc(mod, node) if mod in repo.trees else f"pymablock/{mod}.py:{node.lineno}"
            owner = cls is not None and cls.name == "BlockSeries" and getattr(f, "name", "") == "__getitem__" and recv == "self"
            if not owner and cls is not None and cls.name == "BlockSeries" and recv == "self" and isinstance(f, ast.FunctionDef) and f.name.startswith("_") \
                    and not f.name.startswith("__"):
                # a private helper method of BlockSeries: part of __getitem__ when __getitem__ (or another such helper) is its only caller
                callers = set()
                for t_ in repo.all_trees().values():
                    for c_ in ast.walk(t_):
                        if isinstance(c_, ast.Call) and isinstance(c_.func, ast.Attribute) and c_.func.attr == f.name:
                            h_ = c_
                            while hasattr(h_, "_parent") and not isinstance(h_, ast.FunctionDef):
                                h_ = h_._parent
                            callers.add((norm(c_.func.value), getattr(h_, "name", "?")))
                if callers and all(rv_ == "self" and nm_ == "__getitem__" for rv_, nm_ in callers):
                    # whether the memo protocol around the call is intact is the typestate rule's question (it reports `cannot decide` when
                    # the store of the in-flight marker and the call are no longer in one function)
                    raise AnalysisError(RULE, f"series::BlockSeries.{f.name} calls `self.eval` on behalf of __getitem__ (its only caller): "
                                              "the memo protocol is split over two methods, not understood")
            rep.check(owner, RULE, f"{mod}::{getattr(f, 'name', '<module>')} T5b call `{norm(node)[:50]}` of a series' element function",
                      "only BlockSeries.__getitem__ may call `.eval`: its result is what the memo stores (exactly-once evaluation)", where)
    rep.floor(RULE, "calls of a series' element function", n_calls, 1)
    # T6: __init__ stores a copy of the caller's dict
    init = repo.find("series::BlockSeries::__init__", RULE)
    stores = [n for n in own_nodes(init) if isinstance(n, ast.Assign)
              and any(dotted(t) == f"self.{MEMO_ATTR}" for t in n.targets)]
    if len(stores) != 1:
        raise AnalysisError(RULE, f"BlockSeries.__init__: expected one store to self.{MEMO_ATTR}, found {len(stores)}")
    ok = _all_arms_fresh(stores[0].value, {"data"})
    rep.check(ok, RULE, f"series::BlockSeries.__init__ T6 `{norm(stores[0])}` stores a copy",
              "the caller's `data` dict must not be aliased by the memo", repo.loc("series", stores[0]))
    popf = repo.find("series::BlockSeries::pop", RULE)
    from .sem import outcomes as _oc
    paths = _oc(popf.body, None, env={}, expand=False)
    ok = len(paths) == 1 and paths[0].kind == "return" and isinstance(paths[0].value, ast.Call) \
        and dotted(paths[0].value.func) == f"self.{MEMO_ATTR}.pop" and not paths[0].events
    rep.check(ok, RULE, "series::BlockSeries.pop T5 body is a single removal", norm(paths[0].value)[:80] if paths and paths[0].value is not None else "",
              repo.loc("series", popf))


def _all_arms_fresh(value: ast.AST, params: set[str]) -> bool:
    if isinstance(value, ast.IfExp):
        return _all_arms_fresh(value.body, params) and _all_arms_fresh(value.orelse, params)
    if isinstance(value, ast.Dict):
        return True
    if isinstance(value, ast.Call):
        name = call_name(value)
        if name in ("dict", "copy", "copy.copy", "copy.deepcopy", "deepcopy"):
            return True
        if isinstance(value.func, ast.Attribute) and value.func.attr == "copy":
            return True
    if isinstance(value, ast.DictComp):
        return True
    return False


def _use_kind(node: ast.Attribute) -> str:
    p = node._parent
    if isinstance(node.ctx, (ast.Store, ast.Del)):
        return "store"
    if isinstance(p, ast.Attribute) and p.value is node:
        gp = p._parent
        if isinstance(gp, ast.Call) and gp.func is p:
            if p.attr in READ_ONLY_METHODS:
                return "read"
            if p.attr == "pop":
                return "pop"
            return f"mutating-call:{p.attr}"
        return "read"
    if isinstance(p, ast.Subscript) and p.value is node:
        return "read" if isinstance(p.ctx, ast.Load) else "item-store"
    if isinstance(p, ast.Compare):
        return "read"
    if isinstance(p, ast.Call) and node in p.args and call_name(p) in ("len", "dict", "list", "sorted", "set", "tuple"):
        return "read"
    return "alias"


# ---------------------------------------------------------------------------
# C11: an exception raised while an element is being computed reaches the caller
# ---------------------------------------------------------------------------

# handlers that absorb an exception (do not re-raise on every path): (module, function qualname, caught types) -> reason
ABSORBING_HANDLERS = {
    ("algorithm_parsing", "_EvalType.from_condition", "KeyError"): "compile-time lookup of a condition name; no evaluation happens inside the try",
    ("algorithm_parsing", "_safe_divide", "TypeError"): "fallback of the element division: the same quotient is recomputed as numerator * (1 / denominator); "
                                                       "the try body is one arithmetic operation on two already computed values",
    ("linalg", "direct_greens_function", "ImportError"): "optional dependency (mumps); the fallback factorises the same matrix with scipy",
}


_BUILTINS = {"max", "min", "len", "tuple", "list", "isinstance", "sum", "any", "all", "sorted", "set", "dict", "range", "zip", "enumerate",
             "int", "float", "str", "bool", "abs", "frozenset", "type", "getattr", "hasattr"}
_LIBS = {"np", "numpy", "sympy", "sparse", "scipy", "math", "itertools", "functools"}


def _pure_library_block(stmts) -> bool:
    """No series element can be evaluated inside: only imports, assignments and expressions whose calls go to library modules or
    builtins, and no subscript of a name (which could be a series)."""
    for s in stmts:
        if isinstance(s, (ast.Import, ast.ImportFrom)):
            continue
        if not isinstance(s, (ast.Assign, ast.AnnAssign, ast.Expr, ast.Return)):
            return False
        for n in ast.walk(s):
            if isinstance(n, ast.Call):
                root = n.func
                while isinstance(root, ast.Attribute):
                    root = root.value
                if isinstance(root, ast.Call):
                    continue  # method of a library result: decided by the inner call
                if not (isinstance(root, ast.Name) and (root.id in _LIBS or (root.id in _BUILTINS and isinstance(n.func, ast.Name)))):
                    return False
            if isinstance(n, ast.Subscript) and isinstance(n.ctx, ast.Load) and isinstance(n.value, (ast.Name, ast.Attribute)):
                return False
            if isinstance(n, (ast.Yield, ast.YieldFrom, ast.Await, ast.BinOp)) and isinstance(n, ast.BinOp) and isinstance(n.op, (ast.MatMult,)):
                return False
    return True


def rule_exceptions_propagate(rep: Report, repo: Repo):
    """Every `try` of the evaluation modules: each handler either re-raises on all of its paths (bare `raise`, or
    `raise X from e`) or is one of the listed absorbing handlers.  A handler that absorbs an exception on the evaluation
    path returns a value computed from a partial evaluation, which is then cached."""
    from .sem import outcomes
    R = "E3.propagate"
    n = 0
    for mod in ("series", "algorithm_parsing", "block_diagonalization", "linalg", "kpm", "second_quantization"):
        tree = repo.trees[mod]
        for t in [x for x in ast.walk(tree) if isinstance(x, ast.Try)]:
            fn = t
            parts = []
            while fn is not None:
                if isinstance(fn, (ast.FunctionDef, ast.ClassDef)):
                    parts.append(fn.name)
                fn = getattr(fn, "_parent", None)
            q = ".".join(reversed(parts)) or "<module>"
            for h in t.handlers:
                n += 1
                types = norm(h.type) if h.type is not None else "<bare>"
                outs = outcomes(h.body, None, env={}, expand=False)
                reraises = bool(outs) and all(o.kind == "raise" for o in outs)
                inst = f"{mod}::{q} handler `except {types}`"
                where = f"pymablock/{mod}.py:{h.lineno}"
                if reraises:
                    rep.ok(R, inst + " re-raises on every path", "", where)
                elif _pure_library_block(t.body):
                    rep.ok(R, inst + " absorbs an exception of a pure library computation", "the try body reads no series element and calls "
                           "nothing but library functions and builtins: no element evaluation can be interrupted there", where)
                elif (mod, q, types) in ABSORBING_HANDLERS:
                    rep.ok(R, inst + " (listed absorbing handler)", ABSORBING_HANDLERS[(mod, q, types)], where)
                else:
                    kinds = sorted({o.kind for o in outs})
                    rep.fail(R, f"{mod}::{q} handler `except {types}` absorbs the exception (paths end with {kinds})",
                             "an exception raised while an element is being computed (Hamiltonian term, Sylvester solver, multiplication) must "
                             "reach the caller; here the computation goes on with a partial value, which the series then caches", where)
            if t.finalbody:
                for s in t.finalbody:
                    for x in ast.walk(s):
                        if isinstance(x, (ast.Return, ast.Break, ast.Continue)):
                            rep.fail(R, f"{mod}::{q} `finally` block leaves with `{norm(x)[:30]}`", "this discards an exception in flight", f"pymablock/{mod}.py:{x.lineno}")
    rep.floor(R, "exception handlers inspected", n, 4)
