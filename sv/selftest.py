"""Sensitivity self-test of the checkers (thorough tier).

Each variant is one textual edit of one module of a scratch copy of the package
(temp dir, removed before returning).  `fire` lists the properties whose quick
check must report a VIOLATION on the variant; variants with `fire == []` are
behaviour-preserving rewrites on which every check that reads that module must
stay silent.  A variant whose anchor text is not present exactly once in the tree
under analysis is skipped and counted (the tree may have been edited).
A missed seeded variant or an alarm on a benign one makes the thorough run fail
as ANALYSIS-ERROR: the checker itself is under test on every thorough run.
"""

from __future__ import annotations

import ast
import io
import os
import shutil
import tempfile
from concurrent.futures import ProcessPoolExecutor
from contextlib import redirect_stdout
from pathlib import Path

V = []


def v(id, mod, old, new, fire, note="", extra=()):
    """`extra`: further (module, old, new) edits applied together with the first one (cooperating sites)."""
    V.append(dict(id=id, mod=mod, old=old, new=new, fire=fire, note=note, extra=list(extra)))


# --------------------------------------------------------------------------- algorithms.py
A = "algorithms"
v("alg-htilde-yadj-sign", A, '                - "Yadj"\n', '                + "Yadj"\n', ["C01", "C07", "C04"])
v("alg-w-offdiag-dropped", A, 'zero if two_block_optimized else "U\'† @ U\'" / -2', "zero", ["C01", "C07", "C02"])
v("alg-b-masked-term-dropped", A, 'zero if commuting_blocks[index[0]] else "V @ H\'_diag" + "V @ H\'_diag".adj', "zero", ["C01", "C07"])
v("alg-yadj-diag-dropped", A, 'zero if commuting_blocks[index[0]] else ("X".adj + "X") / 2', "zero", ["C01", "C07"])
v("alg-b-offdiag-sign", A, '            -"U\'† @ B"\n', '            "U\'† @ B"\n', ["C01", "C07", "C04"])
v("alg-uprime-dagger-sign", A, '"W" - "V"', '"W" + "V"', ["C01", "C07", "C02", "C03"])
v("alg-false-hermitian-product", A, 'with "H\'_offdiag @ U\'":\n        pass\n\n    with "U\'† @ B"', 'with "H\'_offdiag @ U\'":\n        hermitian\n\n    with "U\'† @ B"', ["C02", "C18"])
v("alg-b-diag-coefficient", A, '+ "H\'_offdiag @ U\'".adj) / -2', '+ "H\'_offdiag @ U\'".adj) / 2', ["C01", "C07"])
v("alg-v-sylvester-sign", A, '-solve_sylvester("Yadj".adj', 'solve_sylvester("Yadj".adj', ["C01", "C07", "C03"])
v("alg-w-marked-antihermitian", A, '    with "W":\n        start = 0\n        hermitian', '    with "W":\n        start = 0\n        antihermitian', ["C02"])
v("alg-commuting-flag-inverted", A, 'zero if commuting_blocks[index[0]] else ("X".adj + "X") / 2', 'zero if not commuting_blocks[index[0]] else ("X".adj + "X") / 2', ["C01", "C07"])
v("alg-v-gets-kept-part", A, '        antihermitian\n        if offdiagonal:\n            -solve_sylvester(', '        antihermitian\n        if diagonal:\n            "Yadj" / 2\n        if offdiagonal:\n            -solve_sylvester(', ["C03", "C01", "C07"])
v("alg-x-missing-term", A, '"B" + "H\'_offdiag" + "H\'_offdiag @ U\'"\n\n    with "B":\n        start = 0\n        if diagonal:', '"B" + "H\'_offdiag"\n\n    with "B":\n        start = 0\n        if diagonal:', ["C01", "C07"])
v("alg-htilde-half", A, '+ ("U\'† @ B" + "U\'† @ B".adj) / -2', '+ ("U\'† @ B" + "U\'† @ B".adj) / -4', ["C01", "C07", "C04"])
v("alg-nh-uprime-diag-coefficient", A, '"U_inv\' @ U\'" / -2', '"U_inv\' @ U\'" / 2', ["C05"])
v("alg-nh-uinv-sign", A, '-"U\'" - "U_inv\' @ U\'"', '-"U\'" + "U_inv\' @ U\'"', ["C05"])
v("alg-nh-htilde-term", A, '"H\'_diag" + "B" + "U_inv\' @ B"', '"H\'_diag" + "B" - "U_inv\' @ B"', ["C05"])
v("alg-nh-sylvester-rhs", A, 'solve_sylvester("X" - "H\'_diag @ U\'" + "U\' @ H\'_diag")', 'solve_sylvester("X" + "H\'_diag @ U\'" - "U\' @ H\'_diag")', ["C05"])
# benign
v("ok-alg-yadj-twoblock-no-adj", A, '"X".adj if two_block_optimized else', '"X" if two_block_optimized else', [], "R[X] is Hermitian in two-block mode")
v("ok-alg-product-flag-removed", A, 'with "U\'† @ U\'":\n        hermitian', 'with "U\'† @ U\'":\n        pass', [], "dropping the shortcut only costs time")
v("ok-alg-v-rhs-no-adj", A, 'solve_sylvester("Yadj".adj -', 'solve_sylvester("Yadj" -', [], "Yadj is Hermitian")
v("ok-alg-divide-rewritten", A, '            "U\'† @ U\'" / -2\n        if offdiagonal:', '            -"U\'† @ U\'" / 2\n        if offdiagonal:', [])
v("ok-alg-sum-reordered", A, '"B" + "H\'_offdiag" + "H\'_offdiag @ U\'"\n\n    with "B":\n        start = 0\n        if diagonal:', '"H\'_offdiag @ U\'" + "B" + "H\'_offdiag"\n\n    with "B":\n        start = 0\n        if diagonal:', [])
v("alg-yadj-shortcut-by-any-commuting-block", A, 'zero if commuting_blocks[index[0]] else ("X".adj + "X") / 2', 'zero if True in commuting_blocks else ("X".adj + "X") / 2', ["C01", "C03", "C07"],
  note="round-10 seed: per-block shortcut hoisted into an any() over all blocks")
v("ok-alg-yadj-shortcut-only-if-all-commute", A, 'zero if commuting_blocks[index[0]] else ("X".adj + "X") / 2', 'zero if False not in commuting_blocks else ("X".adj + "X") / 2', [],
  note="the shortcut is only lost for some blocks: the general arm is valid for a commuting block too")
v("ok-alg-herm-part-split", A, 'zero if commuting_blocks[index[0]] else ("X".adj + "X") / 2', 'zero if commuting_blocks[index[0]] else "X".adj / 2 + "X" / 2', [])

# --------------------------------------------------------------------------- series.py
S = "series"
v("ser-cauchy-small-product-becomes-zero", S, "        return product_by_order(\n            index,\n            first,\n            second,\n            operator=operator,\n            hermitian=hermitian,\n        )\n\n    product.eval = eval",
  "        result = product_by_order(\n            index,\n            first,\n            second,\n            operator=operator,\n            hermitian=hermitian,\n        )\n        if isinstance(result, np.ndarray) and np.allclose(result, 0):\n            return zero\n        return result\n\n    product.eval = eval",
  ["C18", "C01", "C09"], "seed C18-r6: an absolute 1e-8 threshold turns small products into the absent-term sentinel")
v("ser-cauchy-result-through-local", S, "        return product_by_order(\n            index,\n            first,\n            second,\n            operator=operator,\n            hermitian=hermitian,\n        )\n\n    product.eval = eval",
  "        result = product_by_order(\n            index,\n            first,\n            second,\n            operator=operator,\n            hermitian=hermitian,\n        )\n        return result\n\n    product.eval = eval",
  [], "same value through a local")
v("ser-order-box-short", S, "range(dim + 1) for dim in orders", "range(dim) for dim in orders", ["C12", "C13", "C18", "C01"])
v("ser-order-box-long", S, "range(dim + 1) for dim in orders", "range(dim + 2) for dim in orders", ["C12", "C18"])
v("ser-order-box-from-one", S, "range(dim + 1) for dim in orders", "range(1, dim + 1) for dim in orders", ["C12", "C18"])
v("ser-halfsum-skip-equal", S, "if hermitian and orders_1st > orders_2nd:", "if hermitian and orders_1st >= orders_2nd:", ["C02", "C18"])
v("ser-halfsum-double-equal", S, "if not hermitian or orders_1st == orders_2nd:", "if not hermitian:", ["C02", "C18"])
v("ser-halfsum-offdiagonal-blocks", S, "    hermitian = hermitian and start == end\n", "    hermitian = bool(hermitian)\n", ["C02", "C18"])
v("ser-operator-order-swapped", S, "term = operator(values[0], values[1])", "term = operator(values[1], values[0])", ["C18"])
v("ser-presence-test-one-sided", S, "if (first_index not in first) or (second_index not in second):", "if first_index not in first:", ["C12", "C18"])
v("ser-complementary-orders", S, "tuple(i - j for i, j in zip(orders, orders_1st))", "tuple(i - j for i, j in zip(orders_1st, orders))", ["C18", "C13"])
v("ser-second-index-wiring", S, "second_index = (middle, end, *orders_2nd)", "second_index = (middle, end, *orders_1st)", ["C18", "C13"])
v("ser-cleanup-misses-interrupt", S, "                except BaseException:\n", "                except Exception:\n", ["C11"])
v("ser-runtimeerror-handler-leaks", S, "                    data.pop(index, None)\n                    raise RuntimeError(f\"Failed", "                    raise RuntimeError(f\"Failed", ["C11"])
v("ser-handler-swallows", S, "                    data.pop(index, None)\n                    raise\n", "                    data.pop(index, None)\n", ["C11"])
v("ser-memo-aliases-caller-dict", S, "self._data = {} if data is None else data.copy()", "self._data = {} if data is None else data", ["C10", "C11"])
v("ser-inplace-accumulation", S, "result = result + term  # No += to avoid mutating data.", "result += term", ["C10", "C18"])
v("ser-fill-on-diagonal", S, "        if index[0] > index[1] and hermitian:\n            return Dagger(product[(index[1], index[0], *index[2:])])\n        return product_by_order(",
  "        if index[0] >= index[1] and hermitian:\n            return Dagger(product[(index[1], index[0], *index[2:])])\n        return product_by_order(", ["C02", "C18"])
v("ser-fill-without-adjoint", S, "            if index[0] > index[1]:\n                return Dagger(product[(index[1], index[0], *index[2:])])", "            if index[0] > index[1]:\n                return product[(index[1], index[0], *index[2:])]", ["C02", "C18"])
v("ser-partial-product-hermitian", S, "cauchy_dot_product(*series[:2], operator=operator),", "cauchy_dot_product(*series[:2], operator=operator, hermitian=hermitian),", ["C18"])
v("ser-negative-orders-accepted", S, "            elif np.min(order, initial=0) < 0:\n                raise IndexError(\"Cannot evaluate negative order\")\n", "", ["C19"])
v("ser-pending-returned", S, "            if data[index] is PENDING:\n                raise RuntimeError(f\"Infinite recursion loop detected in {self}[{index}]\")\n", "", ["C11", "C19"])
v("ser-evaluate-always", S, "            if index not in data:\n                # Calling eval", "            if index not in data or True:\n                # Calling eval", ["C11", "C12", "C19"])
v("ser-validation-after-eval", S, "        self._check_finite(item[n_finite:])\n        self._check_number_perturbations(item)\n", "", ["C19"])
v("ser-zero-factor-not-skipped", S, "            if (first_value := first[first_index]) is zero:\n                continue\n            if (second_value := second[second_index]) is zero:\n                continue\n        else:",
  "            if (first_value := first[first_index]) is zero:\n                pass\n            if (second_value := second[second_index]) is zero:\n                continue\n        else:", ["C18"])
# benign
v("ok-ser-presence-demorgan", S, "if (first_index not in first) or (second_index not in second):", "if not (first_index in first and second_index in second):", [])
v("ok-ser-skip-mirrored", S, "if hermitian and orders_1st > orders_2nd:", "if hermitian and orders_2nd < orders_1st:", [])
v("ok-ser-accumulate-swapped-arms", S, "        if not hermitian or orders_1st == orders_2nd:\n            result = result + term  # No += to avoid mutating data.\n        else:\n            result = result + term + Dagger(term)\n",
  "        if hermitian and orders_1st != orders_2nd:\n            result = result + term + Dagger(term)\n        else:\n            result = result + term\n", [])
v("ok-ser-handler-del", S, "                except BaseException:\n                    # Catching BaseException to clean up also after keyboard interrupt\n                    data.pop(index, None)\n",
  "                except BaseException:\n                    del data[index]\n", [])
v("ok-ser-range-explicit-start", S, "range(dim + 1) for dim in orders", "range(0, dim + 1) for dim in orders", [])

v("se-trial-extent-one-short-for-slices", S, "order.stop if isinstance(order, slice) else np.max(order, initial=0) + 1", "order.stop - 1 if isinstance(order, slice) else np.max(order, initial=0) + 1", ["C19"], "after seed C19-r5")
v("ok-se-trial-extent-generous", S, "order.stop if isinstance(order, slice) else np.max(order, initial=0) + 1", "order.stop + 1 if isinstance(order, slice) else np.max(order, initial=0) + 2", [])
# --------------------------------------------------------------------------- block_diagonalization.py
B = "block_diagonalization"
v("bd-energy-differences-by-subtract-outer", B, "            energy_differences = eigs_A.reshape(-1, 1) - eigs_B\n", "            energy_differences = np.subtract.outer(eigs_A, eigs_B)\n", ["C01", "C16"],
  "seed C01-r9: one-dimensional for the 0-d energies of a vanishing column block")
v("bd-symbolic-denominators-resized", B, "                np.broadcast_to(\n                    1 / (array_eigs_a.reshape(-1, 1) - array_eigs_b), Y.shape\n                )", "                np.resize(1 / (array_eigs_a.reshape(-1, 1) - array_eigs_b), Y.shape)", ["C01", "C16"],
  "fixed defect F11: np.resize tiles the column of denominators when the column block has scalar zero energies")
v("bd-symbols-sorted-on-the-way", B, "        return _sympy_to_BlockSeries(\n            operator,\n            symbols,\n", "        return _sympy_to_BlockSeries(\n            operator,\n            sorted(symbols, key=str),\n", ["C14", "C13"],
  "seed C14-r7: the order of the caller's symbols is API")
v("bd-symbols-as-list", B, "        return _sympy_to_BlockSeries(\n            operator,\n            symbols,\n", "        return _sympy_to_BlockSeries(\n            operator,\n            list(symbols),\n", [],
  "an order-preserving copy")
v("bd-unpack-blocks-hermitian-fill-default", B, "def _unpack_blocks(operator: BlockSeries, atol: float = 1e-12) -> BlockSeries:\n",
  "def _unpack_blocks(operator: BlockSeries, atol: float = 1e-12, hermitian: bool = True) -> BlockSeries:\n", ["C05", "C14"],
  "seed C05-r6: the new flag defaults to True and block_diagonalize's own call does not pass it",
  extra=[(B, "    def op_eval(*index):\n        h = _convert_if_zero(operator[index[2:]], atol=atol)\n        if h is zero:\n            return zero\n        try:\n",
          "    def op_eval(*index):\n        if index[0] > index[1] and hermitian:\n            return Dagger(op[(index[1], index[0], *index[2:])])\n        h = _convert_if_zero(operator[index[2:]], atol=atol)\n        if h is zero:\n            return zero\n        try:\n")])
v("bd-taylor-termination-recorded-in-closure", B, "    def op_eval(*index):\n        expr = operator_derivatives[index].subs({n: 0 for n in symbols})\n",
  "    exhausted = []\n\n    def op_eval(*index):\n        if any(all(i >= j for i, j in zip(index, end)) for end in exhausted):\n            return zero\n        expr = operator_derivatives[index].subs({n: 0 for n in symbols})\n        if _convert_if_zero(expr) is zero:\n            exhausted.append(index)\n",
  ["C12", "C10", "C11"], "seed C12-r6: a vanishing Taylor COEFFICIENT is recorded as the end of the expansion; later requests above it return zero")
v("bd-dense-orientation", B, "            energy_differences = eigs_A.reshape(-1, 1) - eigs_B\n", "            energy_differences = eigs_B.reshape(-1, 1) - eigs_A\n", ["C16", "C01"])
v("bd-dense-guard-inverted", B, "np.abs(energy_differences) > atol, 1 / energy_differences, 0\n                )\n            return Y * energy_denominators", "np.abs(energy_differences) < atol, 1 / energy_differences, 0\n                )\n            return Y * energy_denominators", ["C16", "C20"])
v("bd-sparse-guard-removed", B, "            energy_differences = eigs_A_select - eigs_B_select\n            with np.errstate(divide=\"ignore\", invalid=\"ignore\"):\n                energy_denominators = np.where(\n                    np.abs(energy_differences) > atol, 1 / energy_differences, 0\n                )\n",
  "            energy_denominators = 1 / (eigs_A_select - eigs_B_select)\n", ["C16", "C01", "C20"])
v("bd-sparse-column-energies", B, "eigs_B if not eigs_B.shape else eigs_B[Y_coo.col]", "eigs_B if not eigs_B.shape else eigs_B[Y_coo.row]", ["C16"])
v("bd-sympy-guard-removed", B, ").subs(sympy.zoo, sympy.S.Zero)  # Take care of diagonal elements", ")", ["C16", "C20"])
v("bd-solver-negated", B, "            return Y * energy_denominators\n", "            return -Y * energy_denominators\n", ["C16", "C01"])
v("bd-masks-not-complementary", B, "to_keep = {i: 1 - eliminate for i, eliminate in to_eliminate.items()}", "to_keep = {i: eliminate for i, eliminate in to_eliminate.items()}", ["C01", "C04"])
v("bd-operator-mask-polarity", B, "                return second_quantization.apply_mask_to_operator(\n                    x, fully_diagonalize[index[0]], keep=False\n                )", "                return second_quantization.apply_mask_to_operator(\n                    x, fully_diagonalize[index[0]], keep=True\n                )", ["C01"])
v("bd-offdiag-outside-keyset", B, "        def offdiag(x, index):\n            if index[0] not in to_keep:\n                return zero\n", "        def offdiag(x, index):\n            if index[0] not in to_keep:\n                return x[index] if isinstance(x, BlockSeries) else x\n", ["C01"])
v("bd-checked-before-check", B, "        if index[0] != index[1] and index[:2] not in index_checked:\n            compare =", "        if index[0] != index[1] and index[:2] not in index_checked:\n            index_checked.add(index[:2])\n            compare =", ["C11", "C20"])
v("bd-h0-check-upper-only", B, "            if i == j or (hermitian and i > j):\n                continue", "            if i >= j:\n                continue", ["C20"])
v("bd-h0-check-ignores-blocks", B, "            if block is not zero:\n                if isinstance(block, (sympy.MatrixBase, sympy.Expr)):", "            if block is not zero and i == 0:\n                if isinstance(block, (sympy.MatrixBase, sympy.Expr)):", ["C20"])
v("bd-biorthonormality-unchecked", B, "        _check_biorthonormality(right_subspaces, left_subspaces, atol=atol)\n", "", ["C20"])
v("bd-biorthonormality-polarity", B, "if not np.allclose(overlap, np.eye(all_right.shape[1]), atol=atol):", "if np.allclose(overlap, np.eye(all_right.shape[1]), atol=atol):", ["C20"])
v("bd-mask-symmetry-unchecked", B, "                if hermitian and not (to_eliminate == to_eliminate.T).all():", "                if hermitian and not (to_eliminate == to_eliminate).all():", ["C20"])
v("bd-degenerate-elimination-unchecked", B, "                if (to_eliminate & equal_eigs[i]).any():", "                if (to_eliminate & equal_eigs[i]).all():", ["C20"])
v("bd-custom-solver-conflict-dropped", B, "    if solve_sylvester is not None and fully_diagonalize:\n        raise NotImplementedError(", "    if solve_sylvester is not None and fully_diagonalize and hermitian:\n        raise NotImplementedError(", ["C20"])
v("bd-two-block-flag-too-wide", B, '"two_block_optimized": H.shape[0] == 2 and not fully_diagonalize,', '"two_block_optimized": H.shape[0] == 2,', ["C01"])
v("bd-commuting-flag-too-wide", B, "        commuting_blocks = [i not in fully_diagonalize for i in range(H.shape[0])]", "        commuting_blocks = [True for i in range(H.shape[0])]", ["C01"])
v("bd-projection-sides-swapped", B, "left_projectors[left] @ original @ right_projectors[right],", "left_projectors[right] @ original @ right_projectors[left],", ["C14"])
v("bd-opeval-fill-without-adjoint", B, "            return Dagger(op[(right, left, *tuple(index[2:]))])", "            return op[(right, left, *tuple(index[2:]))]", ["C02", "C14"])
v("bd-projector-arguments-swapped", B, "        implicit_projector = ComplementProjector(\n            np.hstack(right_subspaces),\n            np.hstack(left_subspaces),\n        )", "        implicit_projector = ComplementProjector(\n            np.hstack(left_subspaces),\n            np.hstack(right_subspaces),\n        )", ["C06", "C14"])
v("bd-left-implicit-sign", B, "[-gf(vec) for gf, vec in zip(greens_functions_left[index[1]], Y.T)]", "[gf(vec) for gf, vec in zip(greens_functions_left[index[1]], Y.T)]", ["C16", "C06"])
v("bd-right-implicit-transpose", B, "    greens_functions_right = grouped_greens_functions(\n        h_0.T,", "    greens_functions_right = grouped_greens_functions(\n        h_0,", ["C16", "C06"])
v("bd-right-implicit-unprojected", B, "        return result @ projector\n", "        return result\n", ["C16", "C06"])
v("bd-caller-dict-mutated", B, "    operator = copy(operator)\n    key_types", "    key_types", ["C10"])
v("bd-heval-falls-through", B, "            raise TypeError(f\"Unsupported Hamiltonian term type: {type(result)}.\")\n", "", ["C20", "C14"])
v("bd-eager-first-order", B, "    zero_order = (0,) * H.n_infinite\n", "    zero_order = (0,) * H.n_infinite\n    _probe = H[(0, 0) + (1,) * H.n_infinite]\n", ["C12"])
v("bd-taylor-divisor-dropped", B, "            operator_derivatives[tuple(previous_index)].diff(symbols[symbol_number])\n            / order\n", "            operator_derivatives[tuple(previous_index)].diff(symbols[symbol_number])\n", ["C14"])
v("bd-list-perturbation-order", B, "for order, perturbation in zip(np.eye(n_infinite, dtype=int), operator[1:])", "for order, perturbation in zip(np.eye(n_infinite, dtype=int)[::-1], operator[1:])", ["C13", "C14"])
v("bd-hermiticity-check-skipped", B, "if check_hermitian and expr.is_hermitian is False and not expr.atoms(Operator):", "if check_hermitian and expr.is_hermitian is False and expr.atoms(Operator):", ["C20"])
v("bd-implicit-flag-not-passed", B, "        implicit=use_implicit,\n", "        implicit=False,\n", ["C06"])
v("bd-linear-operator-block-misplaced", B, "        use_linear_operator[-1, -1] = True\n", "        use_linear_operator[0, 0] = True\n", ["C06"])
# benign
v("ok-bd-h0-check-demorgan", B, "            if i == j or (hermitian and i > j):\n                continue", "            if not (i != j and (not hermitian or i <= j)):\n                continue", [])
v("ok-bd-mask-guard-nested", B, "                if hermitian and not (to_eliminate == to_eliminate.T).all():\n                    raise ValueError(", "                if hermitian:\n                  if not (to_eliminate == to_eliminate.T).all():\n                    raise ValueError(", [])
v("ok-bd-conflict-demorgan", B, "    if solve_sylvester is not None and fully_diagonalize:\n        raise NotImplementedError(", "    if not (solve_sylvester is None or not fully_diagonalize):\n        raise NotImplementedError(", [])
v("ok-bd-dense-guard-mirrored", B, "np.abs(energy_differences) > atol, 1 / energy_differences, 0\n                )\n            return Y * energy_denominators", "np.abs(energy_differences) <= atol, 0, 1 / energy_differences\n                )\n            return Y * energy_denominators", [])

v("bd-heval-converts-first-entry-only", B, "                return result.applyfunc(\n                    lambda x: NumberOrderedForm.from_expr(x, operators)\n                )", "                return result.applyfunc(\n                    lambda x: NumberOrderedForm.from_expr(result[0, 0], operators)\n                )", ["C07"])
v("bd-operator-problem-gets-numeric-solver", B, "            solve_sylvester = second_quantization.solve_sylvester_2nd_quant(diagonal)", "            solve_sylvester = solve_sylvester_diagonal(diagonal, atol=atol)", ["C07"])
v("bd-postprocessing-unwraps-matrix-problems", B, "                if (\n                    scalar_input\n                    and isinstance(result, sympy.MatrixBase)\n                    and result.shape == (1, 1)\n                ):", "                if (\n                    isinstance(result, sympy.MatrixBase)\n                    and result.shape == (1, 1)\n                ):", ["C07"])
v("bd-postprocessing-order-swapped", B, 'create_postprocessing_eval(outputs[name]) for name in ["H_tilde", "U", "U†"]', 'create_postprocessing_eval(outputs[name]) for name in ["H_tilde", "U†", "U"]', ["C07", "C01"])
v("bd-diagonal-from-unconverted-h", B, "        diagonal = _extract_diagonal(H, atol, use_implicit, operators)", "        diagonal = _extract_diagonal(H, atol, use_implicit)", ["C07"])
v("ok-bd-diag-reads-series-by-statement", B, "        def diag(x, index):\n            x = x[index] if isinstance(x, BlockSeries) else x\n            if index[0] not in to_keep:\n                return x\n",
  "        def diag(x, index):\n            if isinstance(x, BlockSeries):\n                x = x[index]\n            if index[0] not in to_keep:\n                return x\n", [])
v("bd-diag-reads-transposed-block", B, "        def diag(x, index):\n            x = x[index] if isinstance(x, BlockSeries) else x\n            if index[0] not in to_keep:\n                return x\n",
  "        def diag(x, index):\n            if isinstance(x, BlockSeries):\n                x = x[(index[1], index[0], *index[2:])]\n            if index[0] not in to_keep:\n                return x\n", ["C01"])
v("bd-diag-returns-series-itself", B, "        def diag(x, index):\n            x = x[index] if isinstance(x, BlockSeries) else x\n            if index[0] not in to_keep:\n                return x\n",
  "        def diag(x, index):\n            if index[0] not in to_keep:\n                return x\n            x = x[index] if isinstance(x, BlockSeries) else x\n", ["C01"])
v("ok-bd-diag-parameters-renamed", B, "        def diag(x, index):\n            x = x[index] if isinstance(x, BlockSeries) else x\n            if index[0] not in to_keep:\n                return x\n            if isinstance(x, sympy.MatrixBase):\n                return x.multiply_elementwise(to_keep[index[0]])\n            if sparse.issparse(x):\n                return x.multiply(to_keep[index[0]])\n            return x * to_keep[index[0]]\n",
  "        def diag(value, idx):\n            value = value[idx] if isinstance(value, BlockSeries) else value\n            if idx[0] not in to_keep:\n                return value\n            if isinstance(value, sympy.MatrixBase):\n                return value.multiply_elementwise(to_keep[idx[0]])\n            if sparse.issparse(value):\n                return value.multiply(to_keep[idx[0]])\n            return value * to_keep[idx[0]]\n", [])
v("bd-diag-parameters-renamed-wrong-mask", B, "        def diag(x, index):\n            x = x[index] if isinstance(x, BlockSeries) else x\n            if index[0] not in to_keep:\n                return x\n            if isinstance(x, sympy.MatrixBase):\n                return x.multiply_elementwise(to_keep[index[0]])\n            if sparse.issparse(x):\n                return x.multiply(to_keep[index[0]])\n            return x * to_keep[index[0]]\n",
  "        def diag(value, idx):\n            value = value[idx] if isinstance(value, BlockSeries) else value\n            if idx[0] not in to_keep:\n                return value\n            if isinstance(value, sympy.MatrixBase):\n                return value.multiply_elementwise(to_keep[idx[0]])\n            if sparse.issparse(value):\n                return value.multiply(to_eliminate[idx[0]])\n            return value * to_keep[idx[0]]\n", ["C01"])
v("ok-bd-h-eval-vararg-renamed", B, "        def H_eval(*index):\n            result = H_orig[index]\n", "        def H_eval(*key):\n            result = H_orig[key]\n", [])
v("bd-unpack-bypasses-the-memo", B, "        h = _convert_if_zero(operator[index[2:]], atol=atol)\n", "        h = _convert_if_zero(operator.eval(*index[2:]), atol=atol)\n", ["C12", "C10"], "seed C12-r4")
v("bd-diag-sparse-branch-dropped", B, "            if sparse.issparse(x):\n                return x.multiply(to_keep[index[0]])\n", "", ["C14", "C01", "C13"], "seed C14-r4",
  extra=[(B, "            if sparse.issparse(x):\n                return x.multiply(to_eliminate[index[0]])\n", "")])
v("bd-sparse-mask-memo-without-block", B, "            if sparse.issparse(x):\n                return x.multiply(to_keep[index[0]])\n",
  "            if sparse.issparse(x):\n                return x.multiply(sparse_mask(to_keep, index, x.shape))\n", ["C10", "C05"], "seed C05-r4",
  extra=[(B, "        def diag(x, index):\n            x = x[index] if isinstance(x, BlockSeries) else x\n            if index[0] not in to_keep:\n                return x\n",
          "        sparse_masks = {}\n\n        def sparse_mask(masks, index, shape):\n            key = (masks is to_keep, shape)\n            if key not in sparse_masks:\n                sparse_masks[key] = sparse.csr_array(np.broadcast_to(masks[index[0]], shape))\n            return sparse_masks[key]\n\n        def diag(x, index):\n            x = x[index] if isinstance(x, BlockSeries) else x\n            if index[0] not in to_keep:\n                return x\n"),
         (B, "            if sparse.issparse(x):\n                return x.multiply(to_eliminate[index[0]])\n", "            if sparse.issparse(x):\n                return x.multiply(sparse_mask(to_eliminate, index, x.shape))\n")])
v("bd-taylor-cut-at-first-symbol-degree", B, "    def op_eval(*index):\n        expr = operator_derivatives[index].subs({n: 0 for n in symbols})\n",
  "    degree = max(sympy.Poly(entry, *symbols).degree() for entry in operator)\n\n    def op_eval(*index):\n        if sum(index) > degree:\n            return zero\n        expr = operator_derivatives[index].subs({n: 0 for n in symbols})\n", ["C13", "C14"], "seed C13-r4")
v("ok-bd-taylor-cut-at-total-degree", B, "    def op_eval(*index):\n        expr = operator_derivatives[index].subs({n: 0 for n in symbols})\n",
  "    degree = max(sympy.Poly(entry, *symbols).total_degree() for entry in operator)\n\n    def op_eval(*index):\n        if sum(index) > degree:\n            return zero\n        expr = operator_derivatives[index].subs({n: 0 for n in symbols})\n", [])
v("bd-kpm-auxiliary-part-inlined", B, "            return solve_sylvester_kpm(Y, index) + solve_sylvester_explicit(Y, index)",
  "            return solve_sylvester_kpm(Y, index) + ((Y @ aux_vectors) / (eigs[index[0]].reshape(-1, 1) - eigs[-1])) @ Dagger(aux_vectors)", ["C20", "C16"], "after seed C20-r5")
v("bd-dense-inverse-in-inherited-dtype-buffer", B, """            with np.errstate(divide="ignore", invalid="ignore"):
                energy_denominators = np.where(
                    np.abs(energy_differences) > atol, 1 / energy_differences, 0
                )
            return Y * energy_denominators
        if sparse.issparse(Y):""", """            energy_denominators = np.zeros_like(energy_differences)
            nonzero = np.abs(energy_differences) > atol
            energy_denominators[nonzero] = 1 / energy_differences[nonzero]
            return Y * energy_denominators
        if sparse.issparse(Y):""", ["C16", "C01"], "after seed C16-r5")
v("bd-derivative-reads-the-memo", B, "        previous_index = list(index)\n        previous_index[symbol_number] -= 1\n",
  "        previous_index = list(index)\n        previous_index[symbol_number] -= 1\n        if tuple(previous_index) not in operator_derivatives._data:\n            pass\n", ["C10", "C12"], "after seed C10-r5")
v("bd-subspace-positions-by-unstable-argsort", B, "        eigvecs[:, np.compress(subspace_indices == block, np.arange(dim))]", "        eigvecs[:, np.argsort(subspace_indices)[np.sort(subspace_indices) == block]]", ["C14", "C05", "C01"], "after seed C05-r5")
v("ok-bd-index-checked-annotated", B, "    index_checked = set()\n", "    index_checked: set[tuple[int, ...]] = set()\n", [])
v("ok-bd-last-block-named", B, "        if H.shape[0] - 1 in fully_diagonalize:\n", "        last_block = H.shape[0] - 1\n        if last_block in fully_diagonalize:\n", [])
v("bd-last-block-off-by-one", B, "        if H.shape[0] - 1 in fully_diagonalize:\n", "        last_block = H.shape[0]\n        if last_block in fully_diagonalize:\n", ["C20"])
# --------------------------------------------------------------------------- linalg.py
L = "linalg"
v("la-is-diagonal-one-triangle", L, "        offdiagonal = A.reshape(-1)[:-1].reshape(len(A) - 1, len(A) + 1)[:, 1:]\n", "        offdiagonal = A[np.triu_indices_from(A, k=1)]\n", ["C20", "C14"],
  "seed C20-r9: entries below the diagonal are not looked at")
v("la-dot-shortcut-projector-squared", L, "    _rmatvec = _rmatmat = _apply_left\n", "    _rmatvec = _rmatmat = _apply_left\n\n    def dot(self, x):\n        if isinstance(x, ComplementProjector) and x._vecs is self._vecs and x._left_vecs is self._left_vecs:\n            return self\n        return super().dot(x)\n", ["C17"],
  "seed C17-r9: P . P = P only for biorthonormal vectors")
v("la-rmatvec-through-transpose", L, "        return v - self._left_vecs @ (self._vecs.conj().T @ v)\n", "        return self._transpose()._apply(v)\n", ["C17", "C14"],
  "seed C14-r9: P^T instead of P^H")
v("la-rmatvec-transpose", L, "return v - self._left_vecs @ (self._vecs.conj().T @ v)", "return v - self._left_vecs.conj() @ (self._vecs.T @ v)", ["C17", "C06"])
v("la-base-state-uninitialised", L, "        super().__init__(\n            dtype=np.result_type(self._vecs.dtype, self._left_vecs.dtype),\n            shape=(vecs.shape[0], vecs.shape[0]),\n        )\n",
  "        self.dtype = np.result_type(self._vecs.dtype, self._left_vecs.dtype)\n        self.shape = (vecs.shape[0], vecs.shape[0])\n", ["C17", "C06"])
v("la-adjoint-not-swapped", L, "                vecs=self._left_vecs,\n                left_vecs=self._vecs,\n", "                vecs=self._vecs,\n                left_vecs=self._left_vecs,\n", ["C17"])
v("la-conjugate-left-unconjugated", L, "left_vecs = vecs if self._hermitian else self._left_vecs.conj()", "left_vecs = vecs if self._hermitian else self._left_vecs", ["C17"])
v("la-transpose-nonhermitian", L, "self.conjugate() if self._hermitian else self.conjugate()._adjoint()", "self.conjugate() if self._hermitian else self.conjugate()", ["C17"])
v("la-matvec-left-right-mixed", L, "return v - self._vecs @ (self._left_vecs.conj().T @ v)", "return v - self._left_vecs @ (self._vecs.conj().T @ v)", ["C17", "C16"])
v("la-transpose-real-nonhermitian-skips-adjoint", L, "                self.conjugate() if self._hermitian else self.conjugate()._adjoint()\n",
  "                self.conjugate() if self._hermitian or not np.issubdtype(self.dtype, np.complexfloating) else self.conjugate()._adjoint()\n", ["C17"],
  "for a real non-Hermitian projector conj(P) = P, and P is not its own transpose")
v("la-transpose-benign-dtype-branch", L, "                self.conjugate() if self._hermitian else self.conjugate()._adjoint()\n",
  "                self.conjugate() if self._hermitian else (self._adjoint() if not np.issubdtype(self.dtype, np.complexfloating) else self.conjugate()._adjoint())\n", [],
  "for real vectors conj(P)^H = P^H: same operator")
v("la-crosslink-wrong-slot", L, "                self._conjugate_operator._transpose_operator = self\n", "                self._conjugate_operator._adjoint_operator = self\n", ["C17"])
v("la-greens-unprojected-result", L, "        return kernel_projector @ result\n", "        return result\n", ["C16", "C06"])
v("la-greens-pivots-not-zeroed", L, "        vec[pivot_rows] = 0\n", "", ["C16"])
v("la-greens-unprojected-rhs", L, "        vec = kernel_projector @ vec\n        vec[pivot_rows] = 0\n", "        vec = vec.copy()\n        vec[pivot_rows] = 0\n", ["C16"])
v("la-greens-recombination-sign", L, "result = sol[0] if len(sol) == 1 else sol[0] + 1j * sol[1]", "result = sol[0] if len(sol) == 1 else sol[0] - 1j * sol[1]", ["C16"])
v("la-greens-split-for-complex-factorisation", L, "if np.iscomplexobj(vec) and not is_complex:", "if np.iscomplexobj(vec) and is_complex:", ["C16"])
v("la-greens-imag-dropped", L, "result = sol[0] if len(sol) == 1 else sol[0] + 1j * sol[1]", "result = sol[0]", ["C16"])
v("la-greens-zero-before-projection", L, "        vec = kernel_projector @ vec\n        vec[pivot_rows] = 0\n", "        vec = vec.copy()\n        vec[pivot_rows] = 0\n        vec = kernel_projector @ vec\n", ["C16"])
v("la-constrain-mask-not-inverted", L, "keep = ~pivot_mask[constrained_coo.row]", "keep = pivot_mask[constrained_coo.row]", ["C16"])
v("ok-la-greens-early-return", L, "        if np.iscomplexobj(vec) and not is_complex:\n            vec = (vec.real, vec.imag)\n        else:\n            vec = (vec,)\n\n        sol = []\n        for v in vec:\n            sol.append(solve(v))\n        result = sol[0] if len(sol) == 1 else sol[0] + 1j * sol[1]\n        return kernel_projector @ result\n",
  "        if is_complex or not np.iscomplexobj(vec):\n            return kernel_projector @ solve(vec)\n        real_sol = solve(vec.real)\n        imag_sol = solve(vec.imag)\n        return kernel_projector @ (real_sol + 1j * imag_sol)\n", [])
v("ok-la-greens-comprehension", L, "        sol = []\n        for v in vec:\n            sol.append(solve(v))\n", "        sol = [solve(v) for v in vec]\n", [])
v("ok-la-constrain-complement-mask", L, "    pivot_mask = np.zeros(constrained.shape[0], dtype=bool)\n    pivot_mask[pivot_rows] = True\n", "    pivot_mask = np.ones(constrained.shape[0], dtype=bool)\n    pivot_mask[pivot_rows] = False\n",
  [], extra=[(L, "keep = ~pivot_mask[constrained_coo.row]", "keep = pivot_mask[constrained_coo.row]")])
v("la-pivots-by-row-norm", L, '    _, _, pivots = qr(kernel_vectors.T, mode="economic", pivoting=True)\n    return np.sort(pivots[: kernel_vectors.shape[1]])\n',
  "    weights = np.linalg.norm(kernel_vectors, axis=1)\n    return np.sort(np.argsort(weights)[-kernel_vectors.shape[1] :])\n", ["C16", "C06", "C01"], "seed C01-r4")
v("la-pivot-single-vector-largest-component", L, '    _, _, pivots = qr(kernel_vectors.T, mode="economic", pivoting=True)\n',
  '    if kernel_vectors.shape[1] == 1:\n        return np.array([np.argmax(kernel_vectors[:, 0])], dtype=int)\n    _, _, pivots = qr(kernel_vectors.T, mode="economic", pivoting=True)\n', ["C16", "C06"], "seed C06-r4")
v("ok-la-pivot-single-vector-largest-magnitude", L, '    _, _, pivots = qr(kernel_vectors.T, mode="economic", pivoting=True)\n',
  '    if kernel_vectors.shape[1] == 1:\n        return np.array([np.argmax(np.abs(kernel_vectors[:, 0]))], dtype=int)\n    _, _, pivots = qr(kernel_vectors.T, mode="economic", pivoting=True)\n', [])
v("la-pivots-qr-of-untransposed-kernel", L, 'qr(kernel_vectors.T, mode="economic", pivoting=True)', 'qr(kernel_vectors, mode="economic", pivoting=True)', ["C16"])
v("ok-la-pivots-qr-indexed", L, '    _, _, pivots = qr(kernel_vectors.T, mode="economic", pivoting=True)\n', '    pivots = qr(kernel_vectors.T, mode="economic", pivoting=True)[2]\n', [])
v("la-greens-split-latched-on-first-call", L, "        if np.iscomplexobj(vec) and not is_complex:\n            vec = (vec.real, vec.imag)\n",
  "        nonlocal split_complex\n        if split_complex is None:\n            split_complex = np.iscomplexobj(vec) and not is_complex\n        if split_complex:\n            vec = (vec.real, vec.imag)\n", ["C10"], "seed C10-r4",
  extra=[(L, "    def greens_function(vec: np.ndarray) -> np.ndarray:\n", "    split_complex = None\n\n    def greens_function(vec: np.ndarray) -> np.ndarray:\n")])
v("la-hermitian-flag-too-wide", L, "left_vecs is None or left_vecs is vecs or np.array_equal(left_vecs, vecs)", "left_vecs is None or left_vecs is vecs or left_vecs.shape == vecs.shape", ["C17"])
# benign
v("ok-la-matvec-rewritten", L, "return v - self._vecs @ (self._left_vecs.conj().T @ v)", "return v - self._vecs @ (self._left_vecs.T.conj() @ v)", [])
v("ok-la-rmatvec-rewritten", L, "return v - self._left_vecs @ (self._vecs.conj().T @ v)", "return v - self._left_vecs @ (np.conj(self._vecs).T @ v)", [])

v("la-adjoint-inherits-cached-relatives", L, "            self._adjoint_operator._adjoint_operator = self\n", "            self._adjoint_operator._adjoint_operator = self\n            self._adjoint_operator._conjugate_operator = self._conjugate_operator\n", ["C17", "C06"])
# --------------------------------------------------------------------------- kpm.py
KP = "kpm"
v("kpm-threshold-loosened", KP, "    while residue > atol:\n", "    atol = max(atol, 1e-8 * np.linalg.norm(vector))\n    while residue > atol:\n", ["C16", "C06"],
  "seed C16-r8: the loop stops above the requested accuracy, and the convergence warning is tied to max_moments only")
v("kpm-threshold-as-float", KP, "    while residue > atol:\n", "    atol = float(atol)\n    while residue > atol:\n", [], "same threshold")
v("kpm-coefficient-sign", KP, "prefactor = -2 / np.sqrt(1 - energy**2)", "prefactor = 2 / np.sqrt(1 - energy**2)", ["C16"])
v("kpm-zeroth-coefficient-not-halved", KP, "        coef[0] /= 2\n", "", ["C16"])
v("kpm-recurrence-sign", KP, "2 * hamiltonian @ alpha - alpha_prev, alpha", "2 * hamiltonian @ alpha + alpha_prev, alpha", ["C16"])
v("kpm-residual-of-other-equation", KP, "(hamiltonian @ sol - energy * sol) + vector", "(hamiltonian @ sol - energy * sol) - vector", ["C16"])
v("kpm-rescale-in-place", KP, "        rescaled_h = (hamiltonian - b * np.eye(hamiltonian.shape[0])) / a\n",
  "        rescaled_h = np.asarray(hamiltonian, dtype=np.result_type(hamiltonian, a))\n        rescaled_h[np.diag_indices_from(rescaled_h)] -= b\n        rescaled_h /= a\n",
  ["C10", "C04", "C01"], "np.asarray returns its argument when the dtype already matches: the user's h_0 is rescaled in place (reported at block_diagonalize, the end of the caller chain)")
v("kpm-rescale-centre", KP, "    b = (lmax + lmin) / 2.0", "    b = (lmax - lmin) / 2.0", ["C16"])
v("kpm-arcsin-for-arccos", KP, "np.arccos(energy))", "np.arcsin(energy))", ["C16"])
v("ok-kpm-prefactor-factored", KP, "prefactor = -2 / np.sqrt(1 - energy**2)", "prefactor = -2 / np.sqrt((1 - energy) * (1 + energy))", [])
v("ok-kpm-rescale-centre-rewritten", KP, "    b = (lmax + lmin) / 2.0", "    b = 0.5 * (lmin + lmax)", [])
v("ok-kpm-rescale-width-rewritten", KP, "    a = np.abs(lmax - lmin) / (2.0 - eps)", "    a = np.abs(lmin - lmax) / (2 - eps)", [])
# --------------------------------------------------------------------------- number_ordered_form.py
N = "number_ordered_form"
v("nof-expand-contiguous-fast-path", N, "        index_mapping = [\n            self.operators.index(op) if op in self.operators else -1",
  "        if self.operators and self._n_inf_order == len(self.operators):\n            n_front = new_operators.index(self.operators[0])\n            n_back = len(new_operators) - len(self.operators) - n_front\n            front, back = (0,) * n_front, (0,) * n_back\n            return type(self)(new_operators, {(*front, *powers, *back): coeff for powers, coeff in self.args[1]}, validate=False)\n        index_mapping = [\n            self.operators.index(op) if op in self.operators else -1",
  ["C07", "C08"], note="round-10 seed: powers padded front and back instead of placed by operator identity")
v("ok-nof-expand-identity-shortcut", N, "        index_mapping = [\n            self.operators.index(op) if op in self.operators else -1",
  "        if tuple(new_operators) == tuple(self.operators):\n            return self\n        index_mapping = [\n            self.operators.index(op) if op in self.operators else -1",
  [], note="returning self when the operator lists coincide")
v("nof-coefficient-tested-for-number-operator-objects", N, "            if coeff.has(*self._number_operator_placeholders):", "            if coeff.has(NumberOperator):", ["C08", "C07"],
  "seed C08-r7: stored coefficients hold placeholders, the test never finds a NumberOperator")
v("nof-cancel-ladder-number", N, "            for p, op in zip(powers[self._n_inf_order :], binary_ops):\n",
  "            for p, op in zip(powers[self._n_bosons :], self.operators[self._n_bosons :]):\n", ["C16", "C07", "C01"],
  "seed C16-r6: the number operator of a ladder mode is unbounded, it does not vanish next to the ladder operator")
v("nof-cancel-as-filtered-comprehension", N, "            replacements = {}\n            for p, op in zip(powers[self._n_inf_order :], binary_ops):\n                if not p:\n                    continue\n                replacements[_number_operator_to_placeholder(NumberOperator(op))] = Zero\n",
  "            replacements = {\n                _number_operator_to_placeholder(NumberOperator(op)): Zero\n                for p, op in zip(powers, self.operators)\n                if p and not isinstance(op, (BosonOp, LadderOp))\n            }\n", [],
  "same table, selected by class instead of by position")
v("nof-annihilators-ascending", N, "for i, power in reversed(list(enumerate(powers))):", "for i, power in enumerate(powers):", ["C08", "C07"])
v("nof-creators-descending", N, "            for i, power in enumerate(powers):\n                if not power < 0:", "            for i, power in reversed(list(enumerate(powers))):\n                if not power < 0:", ["C08", "C07"])
v("nof-old-coefficient-shifted", N, "                        new_numbers = new_numbers.xreplace(\n                            {n_operator: n_operator + new_power}\n                        )\n                        coeff = coeff * new_numbers\n",
  "                        coeff = (coeff * new_numbers).xreplace(\n                            {n_operator: n_operator + new_power}\n                        )\n", ["C08"])
v("nof-annihilation-shift-sign", N, "coeff = coeff.xreplace({n_operator: n_operator - to_pair})", "coeff = coeff.xreplace({n_operator: n_operator + to_pair})", ["C08", "C07"])
v("nof-falling-factorial-offset", N, "coeff, *(n_operator - i for i in range(to_pair))", "coeff, *(n_operator - i for i in range(1, to_pair + 1))", ["C08", "C07"])
v("nof-crossing-branch-swapped", N, "                    if orig_power == 1 or new_power == 1:", "                    if orig_power == -1 or new_power == -1:", ["C08", "C07"])
v("nof-crossing-misses-higher-creators", N, ") + sum(int(pow == -One) for pow in powers[op_index + 1 :])", ")", ["C08", "C07"])
v("nof-adjoint-keeps-powers", N, "(tuple(-power for power in powers), coeff.adjoint())", "(tuple(power for power in powers), coeff.adjoint())", ["C08", "C07", "C02"])
v("nof-adjoint-coefficient-flips-only-i", N, "(tuple(-power for power in powers), coeff.adjoint())", "(tuple(-power for power in powers), coeff.xreplace({sympy.I: -sympy.I}))", ["C08", "C07", "C02"], "seed C02-r4: complex symbols are not conjugated")
v("nof-number-power-ladder-idempotent", N, 'and self.args[1].name not in ("BosonOp", "LadderOp")', 'and self.args[1].name not in ("BosonOp",)', ["C08", "C07"], "seed C08-r4")
v("nof-number-power-zero-exponent", N, "            exp.is_integer\n            and exp != 0\n            and self.args[1].name", "            exp.is_integer\n            and self.args[1].name", ["C08", "C07"])
v("ok-nof-number-power-positive-list", N, 'and self.args[1].name not in ("BosonOp", "LadderOp")', 'and self.args[1].name in ("FermionOp", "SigmaOpBase")', [])
v("nof-find-operators-other-sort-key", N, "            operators, key=lambda op: (generator_types.index(type(op)), str(op.name))\n", "            operators, key=lambda op: (generator_types.index(type(op)), len(str(op.name)), str(op.name))\n", ["C08", "C07"], "after seed C08-r5")
v("ok-nof-sort-key-parameter-renamed", N, "            operators, key=lambda op: (generator_types.index(type(op)), str(op.name))\n", "            operators, key=lambda o: (generator_types.index(type(o)), str(o.name))\n", [])
v("nof-expr-shift-on-creation", N, "                    if power > 0:\n                        # a * n_a = n_a + 1\n                        replacements[n_i] = n_i + power", "                    if power < 0:\n                        # a * n_a = n_a + 1\n                        replacements[n_i] = n_i + power", ["C08", "C07"])
v("nof-phases-reordered", N, "            # Now multiply by the number part\n            partial = partial._multiply_expr(coeff)\n", "", ["C08", "C07"])
v("ok-nof-reversed-tuple", N, "for i, power in reversed(list(enumerate(powers))):", "for i, power in reversed(tuple(enumerate(powers))):", [])

# --------------------------------------------------------------------------- algorithm_parsing.py
P = "algorithm_parsing"
v("ap-generated-return-in-finally", P, "            if eval_type == _EvalType.lower:\n                nodes[0].body.append(ast.Return(value=result))\n",
  "            if eval_type == _EvalType.lower:\n                nodes[0].body = [ast.Try(body=nodes[0].body, handlers=[], orelse=[], finalbody=[ast.Return(value=result)])]\n",
  ["C11"], "seed C11-r6: the lower-block return of a generated eval sits in a `finally`: an exception of the element computation is discarded")
v("ap-generated-try-finally-noop", P, "            if eval_type == _EvalType.lower:\n                nodes[0].body.append(ast.Return(value=result))\n",
  "            if eval_type == _EvalType.lower:\n                nodes[0].body = [ast.Try(body=nodes[0].body, handlers=[], orelse=[], finalbody=[ast.Pass()]), ast.Return(value=result)]\n",
  [], "a try / finally that changes nothing")
v("ap-zero-sum-accumulates-in-place", P, "    return sum((term for term in terms if term is not zero), start=zero)\n",
  "    total = zero\n    for term in terms:\n        if term is zero:\n            continue\n        if total is zero:\n            total = term\n        elif isinstance(total, np.ndarray) and isinstance(term, np.ndarray):\n            total += term\n        else:\n            total = total + term\n    return total\n",
  ["C10", "C09"], "the first non-zero term may be a stored series element: the running sum is accumulated INTO it (seed C09-r6)")
v("ap-adjoint-index-not-swapped", P, 'ast.parse("(index[1], index[0], *index[2:])")', 'ast.parse("(index[0], index[1], *index[2:])")', ["C09", "C02"])
v("ap-antihermitian-sign-lost", P, "                term = ast.UnaryOp(op=ast.USub(), operand=term)\n", "                pass\n", ["C09"])
v("ap-subtraction-not-negated", P, "        if isinstance(node.op, ast.Sub):\n            right_args = [self._negate(arg) for arg in right_args]\n", "", ["C09"])
v("ap-divide-arguments-swapped", P, "args=[node.left, node.right],", "args=[node.right, node.left],", ["C09"])
v("ap-lower-includes-diagonal", P, '    lower = ("index[0] > index[1]",)', '    lower = ("index[0] >= index[1]",)', ["C09", "C02"])
v("ap-offdiag-duplicate-condition", P, 'ast.parse("offdiag is not None")', 'ast.parse("offdiag is None")', ["C09"])
v("ap-start-one-pins-zero", P, '        case 1:\n            return "identity_data"', '        case 1:\n            return "zero_data"', ["C09"])
v("ap-inputs-deletable", P, "    delete_blacklist = terms_in_products | inputs | set(outputs)", "    delete_blacklist = terms_in_products | set(outputs)", ["C09", "C12"])
v("ap-diag-wrapper-dropped", P, "            if eval_type == _EvalType.diagonal:\n                node.body[0] = ast.Expr(", "            if eval_type == _EvalType.lower:\n                node.body[0] = ast.Expr(", ["C09"])
v("ap-lower-falls-through", P, "            if eval_type == _EvalType.lower:\n                nodes[0].body.append(ast.Return(value=result))\n", "", ["C09"])
v("ap-products-differ-between-families", P, "                hermitian=product.hermitian,\n            )", "                hermitian=product.hermitian and which is series,\n            )", ["C06"])
v("ap-del-pops-start-values", P, "        if index in start_values.get(series_name, ()):\n            return\n", "", ["C09", "C10"], "re-introduces F10")
v("ap-start-table-not-filled", P, "        start_values[term.name] = series_data or {}\n", "        start_values[term.name] = {}\n", ["C09", "C10"])
v("ok-ap-del-guard-positive", P, "        if index in start_values.get(series_name, ()):\n            return\n        series[series_name].pop(index, None)\n        linear_operator_series[series_name].pop(index, None)", "        if index not in start_values.get(series_name, ()):\n            series[series_name].pop(index, None)\n            linear_operator_series[series_name].pop(index, None)", [])
v("ok-ap-safe-divide-named-quotient", P, "    try:\n        return numerator / denominator\n    except TypeError:\n        return numerator * (1 / denominator)\n",
  "    try:\n        quotient = numerator / denominator\n    except TypeError:\n        inverse = 1 / denominator\n        return numerator * inverse\n    return quotient\n", [])
v("ap-safe-divide-fallback-inverted", P, "        return numerator * (1 / denominator)\n", "        return denominator * (1 / numerator)\n", ["C09"])
v("ok-ap-identity-data-written-out", P, "    identity_data = {block + zeroth_order: one for block in diagonal}", "    identity_data = {(row, row) + zeroth_order: one for row in range(shape[0])}", [])
v("ap-identity-data-offdiagonal", P, "    identity_data = {block + zeroth_order: one for block in diagonal}", "    identity_data = {(row, col) + zeroth_order: one for row in range(shape[0]) for col in range(shape[1])}", ["C09"])
v("ok-ap-input-data-by-loop", P, """        **{
            f"{name}{suffix}_data": {
                block + zeroth_order: series[block + zeroth_order] for block in all_blocks
            }
            for name, series in series.items()
            for suffix in ("_0", "")
        },
    }
""", """    }
    for name, input_series in series.items():
        for suffix in ("_0", ""):
            data[f"{name}{suffix}_data"] = {
                block + zeroth_order: input_series[block + zeroth_order] for block in all_blocks
            }
""", [])
v("ap-input-data-by-loop-suffix-lost", P, """        **{
            f"{name}{suffix}_data": {
                block + zeroth_order: series[block + zeroth_order] for block in all_blocks
            }
            for name, series in series.items()
            for suffix in ("_0", "")
        },
    }
""", """    }
    for name, input_series in series.items():
        for suffix in ("_1",):
            data[f"{name}{suffix}_data"] = {
                block + zeroth_order: input_series[block + zeroth_order] for block in all_blocks
            }
""", ["C09"])
v("ap-parse-memo-keyed-by-name", P, "@cache\ndef _parse_algorithm(", "_parsed_algorithms = {}\n\n\ndef _parse_algorithm(", ["C09", "C10", "C01"], "seed C09-r4",
  extra=[(P, "    source = ast.parse(inspect.getsource(func))\n    series, products, outputs = _preprocess_algorithm(source.body[0])\n",
          "    name = f\"{func.__module__}.{func.__qualname__}\"\n    if name in _parsed_algorithms:\n        return _parsed_algorithms[name]\n    source = ast.parse(inspect.getsource(func))\n    series, products, outputs = _preprocess_algorithm(source.body[0])\n"),
         (P, "        term.definition = _EvalTransformer(to_delete[term.name]).visit(term.definition)\n\n    return series, products, outputs\n",
          "        term.definition = _EvalTransformer(to_delete[term.name]).visit(term.definition)\n\n    _parsed_algorithms[name] = series, products, outputs\n    return series, products, outputs\n")])
v("ok-ap-parse-memo-keyed-by-function", P, "@cache\ndef _parse_algorithm(", "_parsed_algorithms = {}\n\n\ndef _parse_algorithm(", [], "a hand-written memo with the key functools.cache uses",
  extra=[(P, "    source = ast.parse(inspect.getsource(func))\n    series, products, outputs = _preprocess_algorithm(source.body[0])\n",
          "    if func in _parsed_algorithms:\n        return _parsed_algorithms[func]\n    source = ast.parse(inspect.getsource(func))\n    series, products, outputs = _preprocess_algorithm(source.body[0])\n"),
         (P, "        term.definition = _EvalTransformer(to_delete[term.name]).visit(term.definition)\n\n    return series, products, outputs\n",
          "        term.definition = _EvalTransformer(to_delete[term.name]).visit(term.definition)\n\n    _parsed_algorithms[func] = series, products, outputs\n    return series, products, outputs\n")])
v("ap-del-single-cache", P, "        series[series_name].pop(index, None)\n        linear_operator_series[series_name].pop(index, None)", "        series[series_name].pop(index, None)", ["C06"])
v("ok-ap-diagonal-adjoint-index", P, "slice=ast.Index(value=self._index(adjoint and (not self.diagonal))),", "slice=ast.Index(value=self._index(adjoint)),", [], "on diagonal blocks the swapped index equals the index")

# --------------------------------------------------------------------------- second_quantization.py
Q = "second_quantization"
v("sq-fill-adjacent-pairs-only", Q, "                if index[0] == index[1] and i < j:\n                    result[i, j] = -result[j, i].adjoint()",
  "                if index[0] == index[1] and j == i + 1:\n                    result[i, j] = -result[j, i].adjoint()", ["C16", "C07", "C02", "C01"],
  "elements two or more places above the diagonal stay zero: visible only on matrices of 3 x 3 or more")
v("sq-fill-loop-as-combinations", Q, "        for i in range(Y.rows):\n            for j in range(Y.cols):\n                # Fill the lower triangle with minus conjugate transpose\n                if index[0] == index[1] and i < j:\n                    result[i, j] = -result[j, i].adjoint()",
  "        for i, j in itertools.combinations(range(Y.rows), 2):\n            if index[0] == index[1]:\n                result[i, j] = -result[j, i].adjoint()", [],
  "same positions through itertools.combinations")
v("sq-shift-direction", Q, "_number_operator_to_placeholder(NumberOperator(op)) + delta", "_number_operator_to_placeholder(NumberOperator(op)) - delta", ["C16", "C07"])
v("sq-denominator-one-sided", Q, "            denominator = shifted_H_jj - shifted_H_ii", "            denominator = shifted_H_ii - shifted_H_jj", ["C16", "C07"])
v("sq-mask-shared-with-caller", B, "                key: np.array(sympy.sympify(value).applyfunc(NumberOrderedForm.from_expr))", "                key: sympy.sympify(value).applyfunc(NumberOrderedForm.from_expr)", ["C10"])


# variants distilled from the independently seeded changes of rounds 2 and 3 (cooperating sites use `extra`)
v("ser-runtimeerror-swallowed-in-product", S, "        if cost(orders_1st) <= cost(orders_2nd):\n", "        try:\n            first[first_index]\n        except RuntimeError:\n            continue\n        if cost(orders_1st) <= cost(orders_2nd):\n", ["C11"])
v("ap-dagger-bound-to-sparse-transpose", P, '        "Dagger": Dagger,\n', '        "Dagger": _adjoint,\n', ["C01", "C02", "C09", "C07"],
  extra=[(P, "def _safe_divide(numerator, denominator):", "def _adjoint(value):\n    if hasattr(value, \"tocsr\"):\n        return value.T.tocsr()\n    return Dagger(value)\n\n\ndef _safe_divide(numerator, denominator):")])
v("ok-ap-dagger-bound-to-wrapper", P, '        "Dagger": Dagger,\n', '        "Dagger": _adjoint,\n', [],
  extra=[(P, "def _safe_divide(numerator, denominator):", "def _adjoint(value):\n    return Dagger(value)\n\n\ndef _safe_divide(numerator, denominator):")])
v("ap-start-data-skips-absent-blocks", P, "                block + zeroth_order: series[block + zeroth_order] for block in all_blocks\n", "                block + zeroth_order: series[block + zeroth_order] for block in all_blocks\n                if series[block + zeroth_order] is not zero\n", ["C09"])
v("bd-hermiticity-tested-after-monomial", B, "        expr = operator_derivatives[index].subs({n: 0 for n in symbols})\n", "        expr = operator_derivatives[index].subs({n: 0 for n in symbols}) * reduce(mul, [n**i for n, i in zip(symbols, index)], 1)\n", ["C20"],
  extra=[(B, "        expr = expr * reduce(mul, [n**i for n, i in zip(symbols, index)], 1)\n        return _convert_if_zero(expr)", "        return _convert_if_zero(expr)")])
v("bd-op-eval-drops-implicit-offdiagonal-zeroth-order", B, "        if original is zero:\n            return zero\n        if implicit and left == right == n_blocks - 1:", "        if original is zero:\n            return zero\n        if implicit and left != right and not any(index[2:]):\n            return zero\n        if implicit and left == right == n_blocks - 1:", ["C14", "C06"])
v("bd-op-eval-helper-peeks-first-orders", B, "        original = operator[index[2:]]\n        if original is zero:\n            return zero\n        if implicit and left == right == n_blocks - 1:", "        original = operator[index[2:]]\n        if original is zero:\n            return zero\n        if all_first_orders_sparse():\n            pass\n        if implicit and left == right == n_blocks - 1:", ["C12"],
  extra=[(B, "    def op_eval(*index):\n        left, right = index[:2]\n        if left > right and hermitian:", "    def all_first_orders_sparse():\n        return all(sparse.issparse(operator[tuple(order)]) for order in np.eye(operator.n_infinite, dtype=int))\n\n    def op_eval(*index):\n        left, right = index[:2]\n        if left > right and hermitian:")])


def _copy_tree(root: Path) -> Path:
    d = Path(tempfile.mkdtemp(prefix="sv-selftest-"))
    shutil.copytree(root / "pymablock", d / "pymablock", ignore=shutil.ignore_patterns("tests", "__pycache__", "*.pyc"))
    return d


def _run_variant(args):
    variant, prop, root = args
    from .__main__ import run_property

    src_path = Path(root) / "pymablock" / f"{variant['mod']}.py"
    src = src_path.read_text()
    if src.count(variant["old"]) != 1:
        return variant["id"], prop, "skipped", ""
    new_src = src.replace(variant["old"], variant["new"], 1)
    try:
        ast.parse(new_src)
    except SyntaxError as e:
        return variant["id"], prop, "broken-variant", str(e)
    extra_src = {}
    for emod, eold, enew in variant.get("extra", []):
        base_src = new_src if emod == variant["mod"] else extra_src.get(emod, (Path(root) / "pymablock" / f"{emod}.py").read_text())
        if base_src.count(eold) != 1:
            return variant["id"], prop, "skipped", ""
        edited = base_src.replace(eold, enew, 1)
        try:
            ast.parse(edited)
        except SyntaxError as e:
            return variant["id"], prop, "broken-variant", str(e)
        if emod == variant["mod"]:
            new_src = edited
        else:
            extra_src[emod] = edited
    d = _copy_tree(Path(root))
    try:
        (d / "pymablock" / f"{variant['mod']}.py").write_text(new_src)
        for emod, esrc in extra_src.items():
            (d / "pymablock" / f"{emod}.py").write_text(esrc)
        buf = io.StringIO()
        with redirect_stdout(buf):
            code = run_property(prop, "quick", d, write=False, quiet=True)
        out = buf.getvalue()
        lines = [l for l in out.splitlines() if l.startswith("[sv] VIOLATED") or l.startswith("ANALYSIS-ERROR")]
        return variant["id"], prop, {0: "silent", 1: "violation", 2: "analysis-error"}[code], "; ".join(lines)[:400]
    finally:
        shutil.rmtree(d, ignore_errors=True)


def run_selftest(prop: str, spec: dict, repo, seed: int = 0) -> dict:
    mods = set(spec.get("selftest") or [])
    jobs = []
    for var in V:
        if prop in var["fire"]:
            jobs.append((var, prop, str(repo.root)))
        elif not var["fire"] and var["mod"] in mods:
            jobs.append((var, prop, str(repo.root)))
    res = {"must_fire": 0, "killed": 0, "must_stay_silent": 0, "silent": 0, "skipped": 0, "broken": [], "details": []}
    if not jobs:
        return res
    workers = min(16, os.cpu_count() or 4, len(jobs))
    with ProcessPoolExecutor(max_workers=workers) as ex:
        results = list(ex.map(_run_variant, jobs))
    for (var, _p, _r), (vid, _prop, outcome, info) in zip(jobs, results):
        must_fire = bool(var["fire"])
        if outcome == "skipped":
            res["skipped"] += 1
            continue
        if outcome == "broken-variant":
            res["broken"].append(f"variant {vid} does not parse: {info}")
            continue
        if must_fire:
            res["must_fire"] += 1
            if outcome == "violation":
                res["killed"] += 1
            else:
                res["broken"].append(f"seeded variant {vid} ({var['mod']}.py) not reported by {prop}: outcome {outcome} {info}")
        else:
            res["must_stay_silent"] += 1
            if outcome == "silent":
                res["silent"] += 1
            else:
                res["broken"].append(f"benign variant {vid} ({var['mod']}.py) raised an alarm in {prop}: {outcome} {info}")
        res["details"].append({"variant": vid, "module": var["mod"], "expected": "violation" if must_fire else "silent",
                               "outcome": outcome, "report": info[:200]})
    return res
