"""E10 -- structural necessary conditions of NumberOrderedForm's faithfulness (C08).

(i)   operator-order agreement between ``as_expr`` (the denotation of a term) and
      ``__mul__`` (the order in which the right operand's operators are applied)
(iv)  fermionic crossing sets of ``_multiply_op`` agree with that order
(ii)  shift-effect table of the boson/ladder branch of ``_multiply_op`` and of
      ``_multiply_expr`` (from a f(N) = f(N+1) a and a a† = N + 1)
(iii) adjoint / add / neg / sub structure
"""

from __future__ import annotations

import ast
from fractions import Fraction as Fr

from .absval import Interp
from .core import AnalysisError, Repo, Report, call_name, norm, own_nodes
from .e2 import affine, range_interval

RULE = "E10"
CLS = "number_ordered_form::NumberOrderedForm"
MOD = "number_ordered_form"


# ---------------------------------------------------------------------------
# helpers
# ---------------------------------------------------------------------------


def _resolve(name: str, func) -> ast.AST | None:
    vals = [n.value for n in own_nodes(func) if isinstance(n, ast.Assign) and len(n.targets) == 1
            and isinstance(n.targets[0], ast.Name) and n.targets[0].id == name]
    return vals[0] if len(vals) == 1 else None


def seq_direction(e: ast.AST, func, depth=0) -> str | None:
    """'asc' / 'desc' iteration order over the operator list, else None."""
    if depth > 12:
        return None
    if isinstance(e, ast.Name):
        r = _resolve(e.id, func)
        if r is not None:
            return seq_direction(r, func, depth + 1)
        return "asc"  # a plain sequence (powers, operators ...)
    if isinstance(e, ast.Attribute):
        return "asc"
    if isinstance(e, ast.Subscript):
        return "asc" if norm(e.slice) in ("1", "0") or True else None
    if isinstance(e, ast.Call):
        name = call_name(e)
        if name in ("list", "tuple") and len(e.args) == 1:
            return seq_direction(e.args[0], func, depth + 1)
        if name == "reversed" and len(e.args) == 1:
            d = seq_direction(e.args[0], func, depth + 1)
            return {"asc": "desc", "desc": "asc"}.get(d)
        if name == "enumerate" and len(e.args) == 1:
            d = seq_direction(e.args[0], func, depth + 1)
            return d if d == "asc" else None  # enumerate(reversed(x)) mislabels indices
        if name == "zip":
            ds = {seq_direction(a, func, depth + 1) for a in e.args}
            return ds.pop() if len(ds) == 1 else None
        if name == "range":
            a = e.args
            if len(a) == 1:
                return "asc"
            if len(a) == 3 and norm(a[2]) == "-1" and norm(a[1]) == "-1":
                return "desc"
            if len(a) == 2:
                return "asc"
    return None


def loop_names(loop: ast.For):
    """(index name, power name, number of leading statements that only bind the power) for the operator loops
        for i, power in enumerate(powers): ...            ->  (i, power, 0)
        for i in <index range>: power = powers[i]; ...    ->  (i, power, 1)
    else None."""
    if isinstance(loop.target, ast.Tuple) and len(loop.target.elts) == 2 and all(isinstance(e, ast.Name) for e in loop.target.elts):
        return loop.target.elts[0].id, loop.target.elts[1].id, 0
    if isinstance(loop.target, ast.Name) and loop.body and isinstance(loop.body[0], ast.Assign) and len(loop.body[0].targets) == 1 \
            and isinstance(loop.body[0].targets[0], ast.Name) and isinstance(loop.body[0].value, ast.Subscript) \
            and norm(loop.body[0].value.slice) == loop.target.id:
        return loop.target.id, loop.body[0].targets[0].id, 1
    return None


def guard_kind(loop: ast.For, power_name: str, skip: int = 0) -> str | None:
    """'annihilation' if the loop body runs only for power > 0, 'creation' if only for power < 0.
    Accepted guards: `if <skip test>: continue` first in the body, or the whole body under `if <run test>:`."""
    body = loop.body[skip:]
    if not body or not isinstance(body[0], ast.If):
        return None
    g = body[0]
    if g.orelse:
        return None
    if g.body and isinstance(g.body[0], ast.Continue):
        negate = True
    elif len(body) == 1:
        negate = False
    else:
        return None
    runs = {}
    for v in (1, -1, 0):
        it = Interp({power_name: v, "Zero": 0, "One": 1}, RULE)
        t = bool(it.ev(g.test))
        runs[v] = (not t) if negate else t
    if runs == {1: True, -1: False, 0: False}:
        return "annihilation"
    if runs == {1: False, -1: True, 0: False}:
        return "creation"
    return None


def guarded_body(loop: ast.For, skip: int = 0) -> list:
    """The statements that run for the selected powers (see guard_kind)."""
    body = loop.body[skip:]
    g = body[0]
    if isinstance(g, ast.If) and g.body and isinstance(g.body[0], ast.Continue):
        return body[1:]
    if isinstance(g, ast.If) and len(body) == 1:
        return g.body
    return body


def lin(e: ast.AST, syms=("to_pair", "op_power", "orig_power", "new_power", "power")):
    """Linear form {sym: coef, 1: const} of an integer expression; None if not linear."""
    if isinstance(e, ast.Call) and call_name(e) in ("sympy.S", "S", "sympy.Integer", "int") and len(e.args) == 1:
        return lin(e.args[0], syms)
    if isinstance(e, ast.Constant) and isinstance(e.value, int):
        return {1: Fr(e.value)} if e.value else {}
    if isinstance(e, ast.Name):
        if e.id in syms:
            return {e.id: Fr(1)}
        if e.id == "One":
            return {1: Fr(1)}
        if e.id == "Zero":
            return {}
        return None
    if isinstance(e, ast.UnaryOp) and isinstance(e.op, ast.USub):
        r = lin(e.operand, syms)
        return None if r is None else {k: -v for k, v in r.items()}
    if isinstance(e, ast.BinOp) and isinstance(e.op, (ast.Add, ast.Sub)):
        l, r = lin(e.left, syms), lin(e.right, syms)
        if l is None or r is None:
            return None
        s = 1 if isinstance(e.op, ast.Add) else -1
        out = dict(l)
        for k, v in r.items():
            out[k] = out.get(k, 0) + s * v
        return {k: v for k, v in out.items() if v}
    return None


def shift_of(call: ast.Call, nname: str):
    """coeff.xreplace({n: n + d}) -> linear form of d, else None."""
    if not (isinstance(call, ast.Call) and isinstance(call.func, ast.Attribute) and call.func.attr == "xreplace"
            and len(call.args) == 1 and isinstance(call.args[0], ast.Dict) and len(call.args[0].keys) == 1):
        return None
    k, v = call.args[0].keys[0], call.args[0].values[0]
    if norm(k) != nname:
        return None
    full = lin(v, syms=("to_pair", "op_power", "orig_power", "new_power", "power", nname))
    if full is None or full.get(nname) != 1:
        return None
    return {kk: vv for kk, vv in full.items() if kk != nname}


def show_lin(l) -> str:
    if l is None:
        return "?"
    if not l:
        return "0"
    return " + ".join(f"{v}*{k}" if k != 1 else f"{v}" for k, v in sorted(l.items(), key=lambda kv: str(kv[0])))


# ---------------------------------------------------------------------------
# (i) operator order agreement
# ---------------------------------------------------------------------------


def term_orders_as_expr(repo: Repo):
    f = repo.find(f"{CLS}::as_expr", RULE)
    outer = [n for n in own_nodes(f) if isinstance(n, ast.For) and "self.args[1]" in norm(n.iter) or
             (isinstance(n, ast.For) and "self.terms" in norm(n.iter))]
    if len(outer) != 1:
        raise AnalysisError(RULE, "as_expr: loop over terms not found")
    loops = [n for n in outer[0].body if isinstance(n, ast.For)]
    orders = {}
    for lp in loops:
        names = [norm(e) for e in lp.target.elts] if isinstance(lp.target, ast.Tuple) else []
        if len(names) != 2:
            raise AnalysisError(RULE, f"as_expr: loop target `{norm(lp.target)}`")
        kind = guard_kind(lp, names[1])
        if kind is None:
            raise AnalysisError(RULE, f"as_expr: cannot classify the loop at line {lp.lineno}")
        d = seq_direction(lp.iter, f)
        if d is None:
            raise AnalysisError(RULE, f"as_expr: iteration order of `{norm(lp.iter)}` not understood")
        # the running product of one term: the local that is rebound to itself times an operator power
        upd = [s for s in guarded_body(lp) if isinstance(s, ast.Assign) and isinstance(s.targets[0], ast.Name)
               and isinstance(s.value, ast.BinOp) and isinstance(s.value.op, ast.Mult)
               and norm(s.targets[0]) in (norm(s.value.left), norm(s.value.right))]
        if len(upd) != 1:
            raise AnalysisError(RULE, "as_expr: term update not understood")
        v = upd[0].value
        TERM = norm(upd[0].targets[0])
        if norm(v.left) == TERM:
            mode = "append"
        elif norm(v.right) == TERM:
            mode = "prepend"
        else:
            raise AnalysisError(RULE, f"as_expr: update `{norm(upd[0])}`")
        # creation operators must be adjoints, annihilation plain
        other = v.right if mode == "append" else v.left
        is_adj = "adjoint()" in norm(other) or "Dagger(" in norm(other)
        orders[kind] = {"ltr": d if mode == "append" else {"asc": "desc", "desc": "asc"}[d], "side": mode, "adjoint": is_adj, "node": lp}
    if set(orders) != {"creation", "annihilation"}:
        raise AnalysisError(RULE, f"as_expr: loops found for {sorted(orders)}")
    return f, orders


def rule_operator_order(rep: Report, repo: Repo):
    f, orders = term_orders_as_expr(repo)
    loc = lambda n: repo.loc(MOD, n)
    C, A = orders["creation"], orders["annihilation"]
    rep.check(C["side"] == "prepend" and C["adjoint"] and A["side"] == "append" and not A["adjoint"], RULE,
              f"{CLS}.as_expr writes creation operators left of the coefficient and annihilation operators right of it",
              f"creation {C['side']}, annihilation {A['side']}", loc(f))
    rep.ok(RULE, f"{CLS}.as_expr term denotation", f"creation operators {C['ltr']}ending left-to-right, coefficient, "
           f"annihilation operators {A['ltr']}ending left-to-right", loc(f))
    m = repo.find(f"{CLS}::__mul__", RULE)
    if not any(isinstance(c, ast.Call) and isinstance(c.func, ast.Attribute) and c.func.attr == "_multiply_op" for c in ast.walk(m)):
        # the phases may have been moved into an extracted helper: look at __mul__ with such helpers seen through
        m = repo.find_expanded(f"{CLS}::__mul__", RULE)
    outer = [n for n in own_nodes(m) if isinstance(n, ast.For) and "args[1]" in norm(n.iter)]
    if len(outer) != 1:
        raise AnalysisError(RULE, "__mul__: loop over the right operand's terms not found")
    # the running product: the name that is rebound to its own `_multiply_op` / `_multiply_expr`
    accs = {norm(c.func.value) for c in ast.walk(outer[0]) if isinstance(c, ast.Call) and isinstance(c.func, ast.Attribute)
            and c.func.attr in ("_multiply_op", "_multiply_expr") and isinstance(getattr(c, "_parent", None), ast.Assign)
            and norm(c._parent.targets[0]) == norm(c.func.value)}
    if len(accs) != 1:
        raise AnalysisError(RULE, f"__mul__: the running product of one term is not one local rebound to its own _multiply_op / _multiply_expr ({sorted(accs)})")
    ACC = accs.pop()
    phases = []
    for s in outer[0].body:
        if isinstance(s, ast.For):
            ln = loop_names(s)
            if ln is None:
                raise AnalysisError(RULE, f"__mul__: loop target `{norm(s.target)}`")
            names = [ln[0], ln[1]]
            kind = guard_kind(s, names[1], ln[2])
            d = seq_direction(s.iter, m)
            if ln[2] and d is not None:
                # an index loop: the iterable must be a range over all positions of the same power tuple
                base = s.iter
                while isinstance(base, ast.Call) and call_name(base) in ("reversed", "list", "tuple") and len(base.args) == 1:
                    base = base.args[0]
                if not (isinstance(base, ast.Call) and call_name(base) == "range" and len(base.args) == 1
                        and norm(base.args[0]) == f"len({norm(s.body[0].value.value)})"):
                    d = None
            calls = [c for c in ast.walk(s) if isinstance(c, ast.Call) and isinstance(c.func, ast.Attribute) and c.func.attr == "_multiply_op"]
            ok_call = len(calls) == 1 and [norm(a) for a in calls[0].args] == names and norm(calls[0].func.value) == ACC
            if kind is None or d is None or not ok_call:
                raise AnalysisError(RULE, f"__mul__: operator loop at line {s.lineno} not understood")
            phases.append((kind, d, s))
        elif isinstance(s, ast.Assign) and isinstance(s.value, ast.Call) and isinstance(s.value.func, ast.Attribute) \
                and s.value.func.attr == "_multiply_expr":
            phases.append(("numbers", None, s))
    seq = [p[0] for p in phases]
    # every application of an operator must belong to a recognised phase: a `_multiply_op` somewhere else (a helper, a cache,
    # a nested block) is a form this rule does not follow, not a verdict
    in_phase = {id(c) for _k, _d, st in phases if isinstance(st, ast.For) for c in ast.walk(st)}
    stray = [c for c in ast.walk(outer[0]) if isinstance(c, ast.Call) and isinstance(c.func, ast.Attribute) and c.func.attr == "_multiply_op"
             and id(c) not in in_phase]
    if stray:
        raise AnalysisError(RULE, f"__mul__: `{norm(stray[0])[:60]}` is applied outside a recognised creation / annihilation loop")
    rep.check(seq == ["creation", "numbers", "annihilation"], RULE,
              f"{CLS}.__mul__ right-multiplies by creation operators, then the number part, then annihilation operators",
              f"phases {seq}", loc(m))
    for kind, d, node in phases:
        if kind == "numbers":
            continue
        want = orders[kind]["ltr"]
        inst = f"{CLS}.__mul__ applies the right operand's {kind} operators in {want}ending order"
        if d == want:
            rep.ok(RULE, inst, f"iteration `{norm(node.iter)}` is {d}ending = the order as_expr denotes", loc(node))
        else:
            rep.fail(RULE, f"{CLS}.__mul__ applies {kind} operators in {d}ending order but as_expr denotes them {want}ending",
                     f"`for ... in {norm(node.iter)}` right-multiplies operator 0 first; a term c_i c_j of the right operand is "
                     "applied in the wrong order (fermionic sign error)", loc(node))
    return orders


# ---------------------------------------------------------------------------
# (iv) fermionic crossing sets
# ---------------------------------------------------------------------------


def _count_descr(e: ast.AST):
    """sum(int(pow == K) for pow in powers[a:b]) (+ ...) -> set of (kind, range)."""
    out = set()
    parts = []
    def flat(x):
        if isinstance(x, ast.BinOp) and isinstance(x.op, ast.Add):
            flat(x.left); flat(x.right)
        else:
            parts.append(x)
    flat(e)
    for p in parts:
        if not (isinstance(p, ast.Call) and call_name(p) == "sum" and len(p.args) == 1 and isinstance(p.args[0], (ast.GeneratorExp, ast.ListComp))):
            return None
        g = p.args[0]
        gen = g.generators[0]
        elt = g.elt
        if isinstance(elt, ast.Call) and call_name(elt) == "int" and len(elt.args) == 1:
            elt = elt.args[0]
        if not (isinstance(elt, ast.Compare) and len(elt.ops) == 1 and isinstance(elt.ops[0], ast.Eq) and norm(elt.left) == norm(gen.target)):
            return None
        k = norm(elt.comparators[0])
        kind = {"1": "ann", "One": "ann", "-1": "cre", "-One": "cre"}.get(k)
        it = gen.iter
        if kind is None or not (isinstance(it, ast.Subscript) and norm(it.value) == "powers" and isinstance(it.slice, ast.Slice)):
            return None
        lo = norm(it.slice.lower) if it.slice.lower else ""
        hi = norm(it.slice.upper) if it.slice.upper else ""
        # operators are ordered bosons | ladders | spins | fermions
        starts = {"-self._n_fermions": "fermions", "len(powers) - self._n_fermions": "fermions",
                  "self._n_inf_order + self._n_spins": "fermions", "self._n_inf_order": "spins+fermions",
                  "self._n_bosons + self._n_ladders": "spins+fermions", "": "all", "0": "all"}
        if hi == "op_index" and lo in starts:
            rng = "lower" if starts[lo] == "fermions" else f"lower (from the first of {starts[lo]})"
        elif hi == "" and lo in starts:
            rng = "all" if starts[lo] == "fermions" else f"all of {starts[lo]}"
        elif (lo, hi) == ("op_index + 1", ""):
            rng = "higher"
        elif (lo, hi) == ("op_index", ""):
            rng = "higher-or-self"
        elif hi == "op_index + 1" and lo in starts and starts[lo] == "fermions":
            rng = "lower-or-self"
        else:
            return None
        out.add((kind, rng))
    return out


def rule_fermion_crossing(rep: Report, repo: Repo, orders=None):
    if orders is None:
        _f, orders = term_orders_as_expr(repo)
    f = repo.find_expanded(f"{CLS}::_multiply_op", RULE)  # helpers extracted from it are seen through
    loc = lambda n: repo.loc(MOD, n)
    from .resolve import env_at, resolved, rtext, run_block
    blk = [n for n in own_nodes(f) if isinstance(n, ast.If)
           and rtext(_flag_value(n.test), env_at(n, f)) == "isinstance(self.operators[op_index], FermionOp)"]
    if len(blk) != 1:
        raise AnalysisError(RULE, "_multiply_op: fermionic sign block not found")
    inner = [s for s in blk[0].body if isinstance(s, ast.If) and any(isinstance(x, ast.Assign) and norm(x.targets[0]) == "preceding_fermions"
                                                                     for x in s.body)]
    if len(inner) != 1 or not inner[0].orelse:
        raise AnalysisError(RULE, "_multiply_op: crossing-count branches not found")
    br = inner[0]
    def descr(stmts):
        a = [x for x in stmts if isinstance(x, ast.Assign) and norm(x.targets[0]) == "preceding_fermions"]
        d = _count_descr(resolved(a[0].value, run_block(stmts[:stmts.index(a[0])]))) if len(a) == 1 else None
        if d is None:
            raise AnalysisError(RULE, f"_multiply_op: counting expression `{norm(a[0].value) if a else ''}` not understood")
        return d, a[0]
    d_true, n_true = descr(br.body)
    d_false, n_false = descr(br.orelse)
    rA = "lower" if orders["annihilation"]["ltr"] == "desc" else "higher"
    rC = "higher" if orders["creation"]["ltr"] == "asc" else "lower"
    expected = {
        (0, 1): {("ann", rA)},
        (1, -1): {("ann", rA)},
        (0, -1): {("ann", "all"), ("cre", rC)},
        (-1, 1): {("ann", "all"), ("cre", rC)},
    }
    names = {(0, 1): "nothing . c", (1, -1): "c . c†", (0, -1): "nothing . c†", (-1, 1): "c† . c"}
    for (orig, op), want in expected.items():
        it = Interp({"orig_power": orig, "op_power": op, "new_power": orig + op, "One": 1, "Zero": 0}, RULE)
        taken = bool(it.ev(br.test))
        got = d_true if taken else d_false
        node = n_true if taken else n_false
        inst = f"{CLS}._multiply_op fermionic sign for {names[(orig, op)]}: operators crossed"
        if got == want:
            rep.ok(RULE, inst, f"{sorted(got)} = the set implied by as_expr's order", loc(node))
        else:
            rep.fail(RULE, f"{CLS}._multiply_op fermionic sign for {names[(orig, op)]} counts {sorted(got)}",
                     f"as_expr's order (creation {orders['creation']['ltr']}, annihilation {orders['annihilation']['ltr']}) "
                     f"implies the new operator is commuted through {sorted(want)}", loc(node))
    par = [s for s in blk[0].body if isinstance(s, ast.If) and norm(s.test) in ("preceding_fermions % 2", "preceding_fermions % 2 == 1")]
    ok = len(par) == 1 and norm(par[0].body[0]) == "coeff = -coeff"
    rep.check(ok, RULE, f"{CLS}._multiply_op flips the sign for an odd number of crossed fermions", "", loc(blk[0]))


# ---------------------------------------------------------------------------
# (ii) shift-effect table
# ---------------------------------------------------------------------------


def _paths_boson_branch(f):
    """Yield (kind, new_power_positive, statements executed) for the boson/ladder branch."""
    top = [n for n in own_nodes(f) if isinstance(n, ast.If) and norm(n.test) == "op_index < self._n_inf_order"]
    if len(top) != 1:
        raise AnalysisError(RULE, "_multiply_op: boson/ladder branch not found")
    loop = [s for s in top[0].body if isinstance(s, ast.For)]
    if len(loop) != 1:
        raise AnalysisError(RULE, "_multiply_op: term loop not found")
    sel = [s for s in loop[0].body if isinstance(s, ast.If) and norm(s.test) in ("op_power > 0", "op_power < 0")]
    if len(sel) != 1 or not sel[0].orelse:
        raise AnalysisError(RULE, "_multiply_op: annihilation/creation split not found")
    ann, cre = (sel[0].body, sel[0].orelse) if norm(sel[0].test) == "op_power > 0" else (sel[0].orelse, sel[0].body)
    return loop[0], ann, cre


def _flag_value(test: ast.AST) -> ast.AST:
    """A bare local flag with a single boolean-valued assignment in the enclosing function stands for that expression."""
    if not isinstance(test, ast.Name):
        return test
    p = getattr(test, "_parent", None)
    while p is not None and not isinstance(p, ast.FunctionDef):
        p = getattr(p, "_parent", None)
    if p is None:
        return test
    vals = [n.value for n in own_nodes(p) if isinstance(n, ast.Assign) and len(n.targets) == 1 and isinstance(n.targets[0], ast.Name)
            and n.targets[0].id == test.id]
    if len(vals) == 1 and isinstance(vals[0], (ast.Compare, ast.BoolOp)):
        return vals[0]
    return test


def _run_coeff(stmts, env_flags, nname, is_boson):
    """Abstractly run statements tracking shifts of the OLD coefficient and of NEW factor families.
    state: old shift (linear form), families: {name: shift}, pending families in named variables."""
    old = {}
    fam_in_coeff = {}  # family id -> shift
    variables = {}  # name -> dict(family -> shift)  (values not yet multiplied into coeff)
    defs = {}
    def add(a, b):
        out = dict(a)
        for k, v in b.items():
            out[k] = out.get(k, 0) + v
        return {k: v for k, v in out.items() if v}
    def run(stmts):
        nonlocal old, fam_in_coeff
        for s in stmts:
            if isinstance(s, ast.If):
                t = norm(_flag_value(s.test))
                if t in ("op_index < self._n_bosons",):
                    run(s.body if is_boson else s.orelse)
                elif t in ("new_power > 0",):
                    run(s.body if env_flags["new_power_pos"] else s.orelse)
                elif t in ("new_power <= 0", "not new_power > 0"):
                    run(s.orelse if env_flags["new_power_pos"] else s.body)
                else:
                    raise AnalysisError(RULE, f"_multiply_op: condition `{t}` not understood")
                continue
            if isinstance(s, ast.Assign) and len(s.targets) == 1 and isinstance(s.targets[0], ast.Name):
                tgt, v = s.targets[0].id, s.value
                if tgt == "to_pair":
                    defs["to_pair"] = v
                    continue
                # family definitions
                fam = _family(v, nname)
                if fam is not None:
                    if tgt == "coeff":
                        raise AnalysisError(RULE, "coefficient replaced by a factor family")
                    variables[tgt] = {fam: {}}
                    continue
                if isinstance(v, ast.Name) and v.id in ("One",):
                    variables[tgt] = {}
                    continue
                # coeff = sympy.Mul(coeff, *family)
                if tgt == "coeff" and isinstance(v, ast.Call) and call_name(v) in ("sympy.Mul", "Mul") and v.args and norm(v.args[0]) == "coeff":
                    for a in v.args[1:]:
                        inner = a.value if isinstance(a, ast.Starred) else a
                        fam = _family(ast.Call(func=ast.Name(id="sympy.Mul"), args=[ast.Starred(value=inner)], keywords=[]), nname) \
                            if isinstance(a, ast.Starred) else None
                        if fam is None:
                            raise AnalysisError(RULE, f"_multiply_op: factor `{norm(a)}` not understood")
                        fam_in_coeff[fam] = {}
                    continue
                # shifts / products
                target_state = None
                expr = v
                sh = None
                if isinstance(expr, ast.Call) and isinstance(expr.func, ast.Attribute) and expr.func.attr == "xreplace":
                    sh = shift_of(expr, nname)
                    if sh is None:
                        raise AnalysisError(RULE, f"_multiply_op: substitution `{norm(expr)}` not understood")
                    expr = expr.func.value
                comps = _product_components(expr)
                if comps is None:
                    raise AnalysisError(RULE, f"_multiply_op: statement `{norm(s)}` not understood")
                new_old = None
                new_fams = {}
                for c in comps:
                    if c == "coeff":
                        new_old = dict(old)
                        for k2, v2 in fam_in_coeff.items():
                            new_fams[k2] = dict(v2)
                    elif c in variables:
                        for k2, v2 in variables[c].items():
                            new_fams[k2] = dict(v2)
                    else:
                        raise AnalysisError(RULE, f"_multiply_op: factor `{c}` not understood")
                if sh is not None:
                    if new_old is not None:
                        new_old = add(new_old, sh)
                    new_fams = {k2: add(v2, sh) for k2, v2 in new_fams.items()}
                if tgt == "coeff":
                    if new_old is None:
                        raise AnalysisError(RULE, "old coefficient dropped")
                    old, fam_in_coeff = new_old, new_fams
                else:
                    if new_old is not None:
                        raise AnalysisError(RULE, f"old coefficient copied into `{tgt}`")
                    variables[tgt] = new_fams
                continue
            raise AnalysisError(RULE, f"_multiply_op: statement `{norm(s)[:60]}` not understood")
    run(stmts)
    return old, fam_in_coeff, defs


def _product_components(e):
    if isinstance(e, ast.Name):
        return [e.id]
    if isinstance(e, ast.BinOp) and isinstance(e.op, ast.Mult):
        l, r = _product_components(e.left), _product_components(e.right)
        return None if l is None or r is None else l + r
    return None


def _family(v, nname):
    """sympy.Mul(*(n - i for i in range(s)))  -> 'falling'   (N)(N-1)...(N-s+1)
       sympy.Mul(*[n + i for i in range(1, s+1)]) -> 'rising'  (N+1)...(N+s)"""
    if not (isinstance(v, ast.Call) and call_name(v) in ("sympy.Mul", "Mul") and len(v.args) == 1 and isinstance(v.args[0], ast.Starred)):
        return None
    g = v.args[0].value
    if not isinstance(g, (ast.GeneratorExp, ast.ListComp)) or len(g.generators) != 1:
        return None
    gen = g.generators[0]
    if not isinstance(gen.target, ast.Name):
        return None
    i = gen.target.id
    iv = None
    if isinstance(gen.iter, ast.Call) and call_name(gen.iter) == "range":
        a = gen.iter.args
        if len(a) == 1:
            lo, stop = {}, lin(a[0])
        elif len(a) == 2:
            lo, stop = lin(a[0]), lin(a[1])
        else:
            return None
        if lo is None or stop is None:
            return None
        hi = dict(stop)
        hi[1] = hi.get(1, 0) - 1
        hi = {k: x for k, x in hi.items() if x}
        iv = (lo, hi)
    elt = lin(g.elt, syms=(i, nname))
    if iv is None or elt is None or elt.get(nname) != 1:
        return None
    ci = elt.get(i, 0)
    const = elt.get(1, 0)
    if const != 0:
        return None
    if ci == -1 and iv == ({}, {"to_pair": Fr(1), 1: Fr(-1)}):
        return "falling N(N-1)...(N-to_pair+1)"
    if ci == 1 and iv == ({1: Fr(1)}, {"to_pair": Fr(1)}):
        return "rising (N+1)...(N+to_pair)"
    return f"unrecognised family {norm(v)}"


def rule_shift_table(rep: Report, repo: Repo):
    f = repo.find_expanded(f"{CLS}::_multiply_op", RULE)  # helpers extracted from it are seen through
    loc = lambda n: repo.loc(MOD, n)
    nn = [n for n in own_nodes(f) if isinstance(n, ast.Assign) and norm(n.targets[0]) == "n_operator"]
    if len(nn) != 1:
        raise AnalysisError(RULE, "_multiply_op: n_operator not found")
    nname = "n_operator"
    loop, ann, cre = _paths_boson_branch(f)
    # new_power = orig_power + op_power ; new_powers replaces only position op_index
    np_ = [s for s in loop.body if isinstance(s, ast.Assign) and norm(s.targets[0]) == "new_power"]
    rep.check(len(np_) == 1 and lin(np_[0].value) == {"orig_power": Fr(1), "op_power": Fr(1)}, RULE,
              f"{CLS}._multiply_op new power = old power + operator power", norm(np_[0].value) if np_ else "", loc(loop))
    cases = []
    for boson in (True, False):
        cases.append(("annihilation", boson, None, ann))
        for npos in (True, False):
            cases.append(("creation", boson, npos, cre))
    ZERO = {}
    for kind, boson, npos, stmts in cases:
        old, fams, defs = _run_coeff(stmts, {"new_power_pos": bool(npos)}, nname, boson)
        tp = defs.get("to_pair")
        who = "boson" if boson else "ladder"
        tag = f"{kind}/{who}" + ("" if npos is None else ("/annihilators remain" if npos else "/no annihilators remain"))
        # to_pair definition
        want_tp = {"annihilation": ("min(op_power, max(-orig_power, 0))", "min(max(-orig_power, 0), op_power)"),
                   "creation": ("min(-op_power, max(orig_power, 0))", "min(max(orig_power, 0), -op_power)")}[kind]
        rep.check(tp is not None and norm(tp) in want_tp, RULE, f"{CLS}._multiply_op [{tag}] number of pairs formed",
                  norm(tp) if tp is not None else "missing", loc(loop))
        if kind == "annihilation":
            want_old = {"to_pair": Fr(-1)}
            want_f = {"falling N(N-1)...(N-to_pair+1)": ZERO} if boson else {}
            law = "(a†)^s f(N) a^s = f(N - s) N(N-1)...(N-s+1)"
        elif npos:
            want_old = ZERO
            want_f = {"rising (N+1)...(N+to_pair)": {"new_power": Fr(1)}} if boson else {}
            law = "f(N) a^p (a†)^t = f(N) g(N + p - t) a^(p-t),  g = (N+1)...(N+t):  only g is commuted through the remaining annihilators"
        else:
            sh = {"op_power": Fr(-1), "to_pair": Fr(-1)}
            want_old = sh
            want_f = {"rising (N+1)...(N+to_pair)": sh} if boson else {}
            law = "h(N) (a†)^r = (a†)^r h(N + r),  r = t - s"
        ok = old == want_old and fams == want_f
        inst = f"{CLS}._multiply_op [{tag}] shift of the old coefficient / of the new number factors"
        got_txt = f"old: N -> N + ({show_lin(old)}); new factors: " + (", ".join(f"{k} shifted by {show_lin(v)}" for k, v in fams.items()) or "none")
        want_txt = f"old: N -> N + ({show_lin(want_old)}); new factors: " + (", ".join(f"{k} shifted by {show_lin(v)}" for k, v in want_f.items()) or "none")
        if ok:
            rep.ok(RULE, inst, got_txt + f"   [{law}]", loc(loop))
        else:
            rep.fail(RULE, f"{CLS}._multiply_op [{tag}] applies {got_txt}", f"required {want_txt}   [{law}]", loc(loop))
    # _multiply_expr replacement table
    g = repo.find_expanded(f"{CLS}::_multiply_expr", RULE)
    # the per-term replacement table, normalised to one dict comprehension over (i, power) and evaluated per case
    from .e7b import _pick_ifexp
    from .paths import eval_bool
    from .sem import canon, dict_filled_by_loop
    term_loops = [n for n in g.body if isinstance(n, ast.For)]
    if len(term_loops) != 1:
        raise AnalysisError(RULE, "_multiply_expr: loop over the terms not found")
    xr = [c for c in ast.walk(term_loops[0]) if isinstance(c, ast.Call) and isinstance(c.func, ast.Attribute) and c.func.attr == "xreplace"
          and len(c.args) == 1 and isinstance(c.args[0], ast.Name)]
    if len(xr) != 1:
        raise AnalysisError(RULE, "_multiply_expr: `expr.xreplace(<replacements>)` not found")
    from .resolve import env_at as _env_at
    cs = dict_filled_by_loop(term_loops[0].body, xr[0].args[0].id, env=_env_at(term_loops[0], g), cases=True)
    if cs is None:
        raise AnalysisError(RULE, "_multiply_expr: the replacement dictionary is not filled by one loop over (i, power)")
    ltarget, liter, lkey, lcases = cs
    if not (isinstance(ltarget, ast.Tuple) and len(ltarget.elts) == 2 and norm(liter) == "enumerate(powers)"):
        raise AnalysisError(RULE, f"_multiply_expr: replacement loop iterates `{norm(liter)[:50]}`")
    iv, pv = (norm(e) for e in ltarget.elts)
    NKEY = f"self._number_operator_placeholders[{iv}]"
    table = {}
    for inf in (True, False):
        for sign in (1, -1, 0):
            def atom(n, inf=inf, sign=sign):
                t = norm(canon(n))
                m = {f"{iv} < self._n_inf_order": inf, f"self._n_inf_order <= {iv}": not inf,
                     f"0 < {pv}": sign > 0, f"{pv} < 0": sign < 0, f"{pv} == 0": sign == 0, f"0 == {pv}": sign == 0,
                     f"{pv} != 0": sign != 0, f"{pv} <= 0": sign <= 0, f"0 <= {pv}": sign >= 0, pv: sign != 0}
                return m.get(t)
            key = ("boson/ladder" if inf else "fermion/spin", {1: "annihilation", -1: "creation", 0: "no"}[sign])
            hits = []
            for conds, val in lcases:
                vals = [eval_bool(c, atom) for c in conds]
                if None in vals:
                    raise AnalysisError(RULE, f"_multiply_expr: condition `{norm(conds[vals.index(None)])[:50]}` not understood")
                if all(vals):
                    v = _pick_ifexp(val, atom)
                    if isinstance(v, ast.IfExp):
                        raise AnalysisError(RULE, f"_multiply_expr: replacement value `{norm(v)[:60]}` depends on an unknown condition")
                    hits.append(norm(v).replace(NKEY, "n_i"))
            if len(set(hits)) > 1:
                raise AnalysisError(RULE, f"_multiply_expr: several replacements for one operator in case {key}: {hits}")
            if hits:
                table[key] = hits[0]
    if norm(lkey) not in (NKEY, "n_i"):
        raise AnalysisError(RULE, f"_multiply_expr: replaced symbol `{norm(lkey)[:50]}` is not the placeholder of operator {iv}")
    want = {("boson/ladder", "annihilation"): ("n_i + power", "power + n_i", f"n_i + {pv}"), ("fermion/spin", "creation"): ("Zero", "0", "sympy.S.Zero"),
            ("fermion/spin", "annihilation"): ("One", "1", "sympy.S.One")}
    for k, vals in want.items():
        rep.check(table.get(k) in vals, RULE, f"{CLS}._multiply_expr [{k[0]}, term with {k[1]} operators] N -> {vals[0]}",
                  f"found {table.get(k)!r}", repo.loc(MOD, g))
    rep.check(("boson/ladder", "creation") not in table, RULE,
              f"{CLS}._multiply_expr [boson/ladder, term with creation operators] N unchanged", f"{table.get(('boson/ladder', 'creation'))!r}", repo.loc(MOD, g))
    rep.check(("boson/ladder", "no") not in table and ("fermion/spin", "no") not in table, RULE,
              f"{CLS}._multiply_expr operators absent from the term leave N unchanged", "", repo.loc(MOD, g))
    st = [n for n in own_nodes(g) if isinstance(n, ast.Assign) and norm(n.targets[0]) == "new_terms[powers]"]
    rep.check(len(st) == 1 and norm(st[0].value) in ("coeff * expr.xreplace(replacements)",), RULE,
              f"{CLS}._multiply_expr multiplies the coefficient by the shifted expression on the right", norm(st[0].value) if st else "", repo.loc(MOD, g))


# ---------------------------------------------------------------------------
# (iii) adjoint / add / neg / sub
# ---------------------------------------------------------------------------


def rule_linear_structure(rep: Report, repo: Repo):
    loc = lambda n: repo.loc(MOD, n)
    f = repo.find(f"{CLS}::_eval_adjoint", RULE)
    comp = [n for n in ast.walk(f) if isinstance(n, (ast.GeneratorExp, ast.ListComp)) and "self.args[1]" in norm(n.generators[0].iter)]
    ok = False
    if comp:
        e = comp[0].elt
        names = [norm(x) for x in comp[0].generators[0].target.elts] if isinstance(comp[0].generators[0].target, ast.Tuple) else []
    else:
        # the same map written as a loop that appends one entry per term
        from .sem import list_built_by_loop
        built = None
        for acc in {norm(c.func.value) for c in ast.walk(f) if isinstance(c, ast.Call) and isinstance(c.func, ast.Attribute) and c.func.attr == "append"}:
            built = list_built_by_loop(f.body, acc) or built
        if built is None or len(built[2]) != 1 or built[2][0][0] or "self.args[1]" not in norm(built[1]):
            raise AnalysisError(RULE, "_eval_adjoint: map over the terms not found (comprehension or appending loop)")
        e = built[2][0][1]
        names = [norm(x) for x in built[0].elts] if isinstance(built[0], ast.Tuple) else []
    if isinstance(e, ast.Tuple) and len(e.elts) == 2 and len(names) == 2:
        p, c = e.elts
        while isinstance(p, ast.Call) and call_name(p) in ("tuple", "list") and len(p.args) == 1:
            p = p.args[0]
        neg_each = isinstance(p, (ast.GeneratorExp, ast.ListComp)) and len(p.generators) == 1 and not p.generators[0].ifs \
            and norm(p.generators[0].iter) == names[0] and isinstance(p.elt, ast.UnaryOp) and isinstance(p.elt.op, ast.USub) \
            and norm(p.elt.operand) == norm(p.generators[0].target)
        ok = neg_each and norm(c) in (f"{names[1]}.adjoint()", f"Dagger({names[1]})", f"sympy.adjoint({names[1]})")
    else:
        raise AnalysisError(RULE, f"_eval_adjoint: term form `{norm(e)[:60]}` not understood")
    rep.check(ok, RULE, f"{CLS}._eval_adjoint negates every power and takes the adjoint of every coefficient", norm(e)[:100], loc(f))
    f = repo.find(f"{CLS}::__neg__", RULE)
    comp = [n for n in ast.walk(f) if isinstance(n, (ast.GeneratorExp, ast.ListComp, ast.DictComp)) and "self.args[1]" in norm(n.generators[0].iter)]
    if len(comp) != 1 or not isinstance(comp[0].generators[0].target, ast.Tuple) or len(comp[0].generators[0].target.elts) != 2:
        raise AnalysisError(RULE, "__neg__: map over the terms (powers, coeff) of self not found")
    pw, cf = (norm(x) for x in comp[0].generators[0].target.elts)
    elt = comp[0].elt if not isinstance(comp[0], ast.DictComp) else ast.Tuple(elts=[comp[0].key, comp[0].value], ctx=ast.Load())
    while isinstance(elt, ast.Call) and call_name(elt) in ("Tuple", "tuple", "sympy.Tuple") and len(elt.args) in (1, 2):
        # Tuple(powers, -coeff) / tuple((powers, -coeff)): the same pair in another container
        elt = ast.Tuple(elts=list(elt.args), ctx=ast.Load()) if len(elt.args) == 2 else elt.args[0]
    if not (isinstance(elt, ast.Tuple) and len(elt.elts) == 2):
        raise AnalysisError(RULE, f"__neg__: term form `{norm(comp[0].elt)[:60]}` not understood")
    ok = norm(elt.elts[0]) == pw and norm(elt.elts[1]) in (f"-{cf}", f"-1 * {cf}", f"{cf} * -1", f"-One * {cf}", f"{cf}.__neg__()")
    rep.check(ok, RULE, f"{CLS}.__neg__ negates every coefficient and keeps the powers", norm(elt)[:80], loc(f))
    f = repo.find(f"{CLS}::__sub__", RULE)
    rets = [n for n in own_nodes(f) if isinstance(n, ast.Return) and norm(n.value) != "NotImplemented"]
    rep.check(len(rets) == 1 and norm(rets[0].value) in ("self + -other", "self + (-other)"), RULE, f"{CLS}.__sub__ is self + (-other)", "", loc(f))
    f = repo.find(f"{CLS}::__add__", RULE)
    # merging loops: `for K, C in <src>.args[1]: D[K] += C`; <src> may itself be a loop variable over a tuple of operands
    un = [n for n in own_nodes(f) if isinstance(n, ast.Assign) and norm(n.value) == "self._combine_operators(other)"
          and isinstance(n.targets[0], ast.Tuple) and len(n.targets[0].elts) == 2]
    if len(un) != 1:
        raise AnalysisError(RULE, "__add__: `a, b = self._combine_operators(other)` not found")
    operands = sorted(norm(e_) for e_ in un[0].targets[0].elts)
    sources, dicts, bad_body = [], set(), False
    for l in own_nodes(f):
        if not (isinstance(l, ast.For) and isinstance(l.target, ast.Tuple) and len(l.target.elts) == 2):
            continue
        k_, c_ = (norm(x) for x in l.target.elts)
        st0 = l.body[0] if len(l.body) == 1 else None
        aug = isinstance(st0, ast.AugAssign) and isinstance(st0.op, ast.Add) and isinstance(st0.target, ast.Subscript) \
            and norm(st0.target.slice) == k_ and norm(st0.value) == c_
        # D[K] = D[K] + C is the same accumulation
        plain = isinstance(st0, ast.Assign) and isinstance(st0.targets[0], ast.Subscript) and norm(st0.targets[0].slice) == k_ \
            and isinstance(st0.value, ast.BinOp) and isinstance(st0.value.op, ast.Add) \
            and sorted([norm(st0.value.left), norm(st0.value.right)]) == sorted([norm(st0.targets[0]), c_])
        if not (aug or plain):
            bad_body = True
            continue
        dicts.add(norm((st0.target if aug else st0.targets[0]).value))
        its = [l.iter]
        if isinstance(l.iter, ast.Call) and call_name(l.iter) in ("chain", "itertools.chain") and not l.iter.keywords:
            its = list(l.iter.args)  # one sweep over the concatenation of the operands' terms
        for it in its:
            if not (isinstance(it, ast.Subscript) and norm(it.slice) == "1" and isinstance(it.value, ast.Attribute) and it.value.attr == "args"):
                raise AnalysisError(RULE, f"__add__: merge loop iterates `{norm(it)[:50]}`")
            src = it.value.value
            par = getattr(l, "_parent", None)
            if isinstance(src, ast.Name) and isinstance(par, ast.For) and isinstance(par.target, ast.Name) and par.target.id == src.id \
                    and isinstance(par.iter, (ast.Tuple, ast.List)):
                sources += [norm(x) for x in par.iter.elts]
            else:
                sources.append(norm(src))
    if not sources:
        raise AnalysisError(RULE, "__add__: merge loops not found")
    ok = not bad_body and sorted(sources) == operands and len(dicts) == 1
    rep.check(ok, RULE, f"{CLS}.__add__ merges the terms of both operands by power key",
              f"coefficients of {sorted(sources)} are accumulated into {sorted(dicts)} by power key; operands {operands}", loc(f))
    comb = [n for n in own_nodes(f) if isinstance(n, ast.Assign) and norm(n.value) == "self._combine_operators(other)"]
    rep.check(len(comb) == 1, RULE, f"{CLS}.__add__ brings both operands to a common operator list first", "", loc(f))
    m = repo.find(f"{CLS}::__mul__", RULE)
    comb = [n for n in own_nodes(m) if isinstance(n, ast.Assign) and norm(n.value) == "self._combine_operators(other)"]
    # accumulation `R = R + X` / `R += X` (NumberOrderedForm defines no __iadd__: both build a new object) inside the loop over
    # the right operand's terms, with R the returned name
    rets = [n for n in own_nodes(m) if isinstance(n, ast.Return) and isinstance(n.value, ast.Name)]
    rname = rets[-1].value.id if rets else None
    acc = [n for n in own_nodes(m) if (isinstance(n, ast.Assign) and norm(n.targets[0]) == rname and isinstance(n.value, ast.BinOp)
                                      and isinstance(n.value.op, ast.Add) and norm(n.value.left) == rname)
           or (isinstance(n, ast.AugAssign) and isinstance(n.op, ast.Add) and norm(n.target) == rname)]
    acc = [n for n in acc if isinstance(getattr(n, "_parent", None), ast.For)]
    if rname is None:
        raise AnalysisError(RULE, "__mul__: returned accumulator not found")
    rep.check(len(comb) == 1 and len(acc) == 1, RULE, f"{CLS}.__mul__ distributes over the right operand's terms on a common operator list", "", loc(m))
    # fermion / spin coefficient rules of _multiply_op, per (annihilation | creation) x (slot occupied | empty), on resolved paths
    from .sem import canon as _canon10, outcomes as _outcomes10
    f = repo.find_expanded(f"{CLS}::_multiply_op", RULE)  # helpers extracted from it are seen through
    sel = [n for n in own_nodes(f) if isinstance(n, ast.If) and any(isinstance(x, ast.Attribute) and x.attr == "xreplace" for x in ast.walk(n))
           and norm(_canon10(n.test)) in ("op_power is One", "op_power == One", "op_power == 1", "op_power is not One", "op_power != One", "op_power != 1",
                                        "op_power is -One", "op_power == -One", "op_power == -1")]
    if len(sel) != 1:
        raise AnalysisError(RULE, "_multiply_op: fermion / spin coefficient rules (branch on op_power) not found")
    table = {}
    for ann in (True, False):
        for occupied in (True, False):
            def atom(n, ann=ann, occupied=occupied):
                t = norm(_canon10(n))
                if t in ("op_power is One", "op_power == One", "op_power == 1"):
                    return ann
                if t in ("op_power is not One", "op_power != One", "op_power != 1", "op_power is -One", "op_power == -One", "op_power == -1"):
                    return not ann
                if t in ("orig_power", "orig_power != 0", "orig_power != Zero"):
                    return occupied
                if t in ("orig_power == 0", "orig_power == Zero", "not orig_power"):
                    return not occupied
                return None
            outs = _outcomes10([sel[0]], None, env={}, atom=atom, expand=False, opaque=("coeff",))
            if len(outs) != 1:
                raise AnalysisError(RULE, "_multiply_op: fermion / spin coefficient rules depend on a condition that is not understood")
            steps = [norm(rv) for kind, st, rv in outs[0].seq if kind == "assign" and isinstance(st, ast.Assign) and norm(st.targets[0]) == "coeff"]
            table[(ann, occupied)] = steps
    N = "n_operator"
    want = {(True, False): [[f"coeff.xreplace({{{N}: Zero}})"]],
            (True, True): [[f"coeff.xreplace({{{N}: Zero}})", f"{N} * coeff"]],
            (False, False): [[f"coeff.xreplace({{{N}: One}})"]],
            (False, True): [[f"coeff.xreplace({{{N}: One}})", f"(One - {N}) * coeff"], [f"coeff.xreplace({{{N}: One}})", f"(1 - {N}) * coeff"]]}
    ok = all(table[k] in want[k] for k in want)
    rep.check(ok, RULE, f"{CLS}._multiply_op fermion/spin rules: f(n) c = f(0) c, c† c = n;  f(n) c† = f(1) c†, c c† = 1 - n",
              f"(annihilation, slot occupied) -> coefficient updates: {table}", loc(f))
    nil = [n for n in own_nodes(f) if isinstance(n, ast.If) and norm(n.test) in ("abs(new_power) > One", "abs(new_power) > 1")]
    rep.check(len(nil) == 1 and isinstance(nil[0].body[0], ast.Continue), RULE, f"{CLS}._multiply_op drops nilpotent fermion/spin powers", "", loc(f))


# ---------------------------------------------------------------------------
# powers of a number operator: N**k = N only where N is a projector (fermion and spin modes)
# ---------------------------------------------------------------------------


def rule_number_operator_power(rep: Report, repo: Repo):
    """`NumberOperator._eval_power` collapses N**k to N for integer k != 0.  That is an identity of the algebra only for modes
    whose number operator is idempotent: fermions and spins.  For boson and ladder modes the power must be left to sympy.
    Decided on the grid (operator type) x (exponent integer?) x (exponent zero?)."""
    from .paths import eval_bool
    from .sem import canon, outcomes
    R = "E10"
    MODN = "number_ordered_form"
    tree = repo.trees[MODN]
    f = repo.find(f"{MODN}::NumberOperator::_eval_power", R)
    loc = repo.loc(MODN, f)
    params = [a.arg for a in f.args.args]
    if len(params) != 2:
        raise AnalysisError(R, "NumberOperator._eval_power: signature is not (self, exp)")
    E = params[1]
    ot = [n for n in tree.body if isinstance(n, ast.Assign) and norm(n.targets[0]) == "operator_types" and isinstance(n.value, ast.Tuple)]
    if len(ot) != 1:
        raise AnalysisError(R, "number_ordered_form.operator_types not found")
    TYPES = [norm(e).split(".")[-1] for e in ot[0].value.elts]  # BosonOp, LadderOp, SigmaOpBase, FermionOp
    IDEMPOTENT = {"SigmaOpBase", "FermionOp"}
    if set(TYPES) != {"BosonOp", "LadderOp", "SigmaOpBase", "FermionOp"}:
        raise AnalysisError(R, f"operator_types = {TYPES}: the table of idempotent number operators of this rule does not cover it")
    # local class hierarchy (classes defined in the module); sympy's BosonOp / FermionOp / SigmaOpBase are unrelated to each other
    bases = {n.name: [norm(b).split(".")[-1] for b in n.bases] for n in tree.body if isinstance(n, ast.ClassDef)}

    def subclass(t, c):
        seen, todo = set(), [t]
        while todo:
            x = todo.pop()
            if x == c:
                return True
            if x in seen:
                continue
            seen.add(x)
            todo += bases.get(x, [])
        return False
    TYPE_TEXTS = ("self.args[1].name", "str(self.args[1])", "self.args[1].name")
    table = {}
    for T in TYPES:
        for is_int in (True, False):
            for is_zero in (True, False):
                if is_zero and not is_int:
                    continue

                def atom(n, T=T, is_int=is_int, is_zero=is_zero):
                    n = canon(n)
                    t = norm(n)
                    if t == f"{E}.is_integer":
                        return is_int
                    if t in (f"{E} == 0", f"0 == {E}", f"{E}.is_zero"):
                        return is_zero
                    if t in (f"{E} != 0", f"0 != {E}"):
                        return not is_zero
                    if isinstance(n, ast.Compare) and len(n.ops) == 1 and norm(n.left) in TYPE_TEXTS:
                        r = n.comparators[0]
                        if isinstance(n.ops[0], (ast.In, ast.NotIn)) and isinstance(r, (ast.Tuple, ast.List, ast.Set)) \
                                and all(isinstance(x, ast.Constant) and isinstance(x.value, str) for x in r.elts):
                            inside = T in [x.value for x in r.elts]
                            return inside if isinstance(n.ops[0], ast.In) else not inside
                        if isinstance(n.ops[0], (ast.Eq, ast.NotEq)) and isinstance(r, ast.Constant) and isinstance(r.value, str):
                            return (T == r.value) if isinstance(n.ops[0], ast.Eq) else (T != r.value)
                    if isinstance(n, ast.Call) and call_name(n) == "issubclass" and len(n.args) == 2 \
                            and norm(n.args[0]) == "operator_type_by_name[self.args[1]]":
                        cs = n.args[1].elts if isinstance(n.args[1], ast.Tuple) else [n.args[1]]
                        return any(subclass(T, norm(c).split(".")[-1]) for c in cs)
                    return None
                got = set()
                for o in outcomes(f.body, None, env={}, atom=atom, expand=False):
                    und = [norm(t_)[:60] for t_, _p in o.conds if eval_bool(t_, atom) is None]
                    if und:
                        raise AnalysisError(R, f"NumberOperator._eval_power: condition `{und[0]}` not understood")
                    if o.kind != "return":
                        raise AnalysisError(R, "NumberOperator._eval_power: path without return")
                    v = norm(o.value)
                    got.add("N" if v == "self" else ("generic" if v in (f"super()._eval_power({E})", f"super(NumberOperator, self)._eval_power({E})",
                                                                        "None") else "other:" + v[:40]))
                table[(T, is_int, is_zero)] = sorted(got)
    unknown = {k: v for k, v in table.items() if any(x.startswith("other:") for x in v)}
    if unknown:
        raise AnalysisError(R, f"NumberOperator._eval_power returns {unknown}")
    bad = {k: v for k, v in table.items() if v != (["N"] if (k[0] in IDEMPOTENT and k[1] and not k[2]) else ["generic"])
           and not (k[0] in IDEMPOTENT and v == ["generic"])}  # leaving an idempotent power to sympy is correct, only less simplified
    rep.check(not bad, R, "number_ordered_form::NumberOperator._eval_power collapses N**k to N only for fermion and spin modes (integer k != 0)",
              f"(operator type, exponent integer, exponent zero) -> result; wrong: {bad}" if bad else f"{len(table)} cases", loc)



# ---------------------------------------------------------------------------
# one ordering of the operators everywhere
# ---------------------------------------------------------------------------


def rule_operator_sort_consistency(rep: Report, repo: Repo):
    """The position of an operator in a NumberOrderedForm decides the signs of fermionic products and the meaning of every power
    tuple.  The forms built by from_expr / find_operators and the forms merged by _combine_operators (checked by _validate_operators)
    agree only if every site sorts operators by the SAME key.  All sort keys over operators are collected (lambda or named function,
    in number_ordered_form.py and block_diagonalization.py) and compared after alpha-renaming."""
    from .resolve import resolved
    from .sem import Scope, expression_body
    R = "E10"
    keys = []
    for mod in ("number_ordered_form", "block_diagonalization"):
        tree = repo.trees[mod]
        for c in ast.walk(tree):
            if not isinstance(c, ast.Call):
                continue
            is_sort = call_name(c) == "sorted" or (isinstance(c.func, ast.Attribute) and c.func.attr == "sort")
            kw = {k.arg: k.value for k in c.keywords}
            if not is_sort or "key" not in kw:
                continue
            k = kw["key"]
            fn = None
            if isinstance(k, ast.Lambda) and len(k.args.args) == 1:
                par, body = k.args.args[0].arg, k.body
            else:
                if isinstance(k, ast.Name):
                    enc = Scope(tree, c)
                    fn = enc.get(k.id)
                if fn is None or len(fn.args.args) != 1:
                    continue
                body = expression_body(fn)
                if body is None:
                    # a key written as statements: straight-line evaluation to one expression
                    from .straight import run as _run
                    try:
                        body = _run(fn, lambda n_: None, R)
                    except AnalysisError:
                        raise AnalysisError(R, f"{mod}: sort key `{k.id}` is not a single expression")
                par = fn.args.args[0].arg
            txt = norm(resolved(body, {par: ast.Name(id="_OP_", ctx=ast.Load())}))
            if "generator_types" not in txt and not (mod == "number_ordered_form" and "_OP_" in txt and "name" in txt):
                continue  # not a sort of operators (in block_diagonalization.py other things are sorted too, e.g. symbols by name)
            keys.append((mod, c, txt))
    if len(keys) < 3:
        raise AnalysisError(R, f"only {len(keys)} sorts of operators found (find_operators, _validate_operators, _combine_operators, block_diagonalize expected)")
    distinct = sorted({t for _m, _c, t in keys})
    if len(distinct) == 1:
        rep.ok(R, "number_ordered_form every sort of operators uses the same key", f"{len(keys)} sites: {distinct[0][:80]}", repo.loc(keys[0][0], keys[0][1]))
    else:
        odd = min(distinct, key=lambda t: sum(1 for _m, _c, t2 in keys if t2 == t))
        site = next((m_, c_) for m_, c_, t in keys if t == odd)
        rep.fail(R, "number_ordered_form sorts of operators use different keys",
                 f"{[(t[:70], sum(1 for _m, _c, t2 in keys if t2 == t)) for t in distinct]}: forms built at one site and merged at another disagree "
                 "about the order of the operators (fermionic signs, meaning of the power tuples)", repo.loc(*site))


# ---------------------------------------------------------------------------
# (vi) cancellation of number operators of binary (spin / fermion) modes
# ---------------------------------------------------------------------------


def operator_classes(repo: Repo, rule: str):
    """(class tags in the order of `generator_types`, tags of the infinite-order classes): read from the module-level tuple and
    from how `_n_inf_order` is counted."""
    tree = repo.trees[MOD]
    gts = [n for n in tree.body if isinstance(n, ast.Assign) and norm(n.targets[0]) == "generator_types" and isinstance(n.value, ast.Tuple)]
    if len(gts) != 1:
        raise AnalysisError(rule, "module-level tuple `generator_types` not found")
    tags = [norm(e).split(".")[-1] for e in gts[0].value.elts]
    cls = repo.find(CLS, rule)
    # how the instance counts its operators: the statements around the assignment of `_n_inf_order` are evaluated on models with one
    # operator of a single class each; the classes for which `_n_inf_order` comes out as 1 are the infinite-order ones
    from .concrete import Model, Obj
    host = None
    for fn in ast.walk(cls):
        if isinstance(fn, ast.FunctionDef) and any(isinstance(n, ast.Assign) and isinstance(n.targets[0], ast.Attribute) and n.targets[0].attr == "_n_inf_order"
                                                   for n in own_nodes(fn)):
            host = fn
    if host is None:
        raise AnalysisError(rule, "the assignment of `_n_inf_order` was not found")
    stmts = [st for st in host.body if isinstance(st, ast.FunctionDef) or (isinstance(st, ast.Assign) and (
        isinstance(st.targets[0], ast.Name) or (isinstance(st.targets[0], ast.Attribute) and st.targets[0].attr.startswith("_n_"))))]
    counts = {}
    inf = set()
    for t in tags:
        m = Model(rule, "operator counts", names={"operators": (Obj(t, t),), "__classes__": tuple(tags) + ("SigmaPlus", "SigmaOpBase")},
                  subclasses={"SigmaOpBase": {"SigmaMinus", "SigmaPlus"}})
        env = {}
        for st in stmts:
            try:
                m._block([st], env)
            except AnalysisError:
                continue  # a statement about something else (terms, placeholders, ...)
        vals = {k.split(".", 1)[1]: v for k, v in m.paths.items() if "._n_" in k and isinstance(v, int)}
        if "_n_inf_order" not in vals:
            raise AnalysisError(rule, "how `_n_inf_order` counts the operator classes is not understood")
        if vals["_n_inf_order"] == 1:
            inf.add(t)
        elif vals["_n_inf_order"] != 0:
            raise AnalysisError(rule, f"`_n_inf_order` counts one {t} as {vals['_n_inf_order']}")
        for a, v in vals.items():
            if a != "_n_inf_order" and v == 1:
                counts[a] = t
    inf_attrs = []
    if not inf <= set(tags) or tags[:len(inf)] != [t for t in tags if t in inf]:
        raise AnalysisError(rule, f"infinite-order classes {sorted(inf)} are not the leading entries of generator_types {tags}")
    return tags, inf, counts


def rule_binary_number_cancellation(rep: Report, repo: Repo):
    """`_cancel_binary_operator_numbers` (used by the second-quantised Sylvester solver on its denominators) may set N_op to 0 in the
    coefficient of a term exactly for the spin / fermion operators that occur in that term (n_f f = 0 by nilpotence).  The number
    operator of a boson or ladder mode is unbounded and must stay.  Decided by evaluating the construction of the replacement table
    on models with one operator of each class (and with some classes absent) for power patterns that tell the positions apart."""
    from .concrete import Model, Obj
    R = "E10.cancel"
    f = repo.find(f"{CLS}::_cancel_binary_operator_numbers", R)
    loc = lambda n: repo.loc(MOD, n)
    tags, inf, counts = operator_classes(repo, R)
    loops = [s for s in f.body if isinstance(s, ast.For) and isinstance(s.target, ast.Tuple) and len(s.target.elts) == 2
             and any(t in norm(s.iter) for t in ("self.args[1]", "self.terms"))]
    if len(loops) != 1:
        raise AnalysisError(R, "_cancel_binary_operator_numbers: loop over the terms (powers, coeff) not found")
    loop = loops[0]
    PW, CF = (norm(x) for x in loop.target.elts)
    # the statement that applies the table
    idx_x, xarg = None, None
    for i, s in enumerate(loop.body):
        xs = [c for c in ast.walk(s) if isinstance(c, ast.Call) and isinstance(c.func, ast.Attribute) and c.func.attr in ("xreplace", "subs")
              and len(c.args) == 1]
        if xs:
            if idx_x is not None or len(xs) != 1 or norm(xs[0].func.value) != CF:
                raise AnalysisError(R, "_cancel_binary_operator_numbers: more than one substitution into the coefficient")
            idx_x, xarg = i, xs[0].args[0]
    if idx_x is None:
        raise AnalysisError(R, "_cancel_binary_operator_numbers: `coeff.xreplace(<table>)` not found")
    pre_loop = f.body[:f.body.index(loop)]
    n_cases = 0
    bad = []
    model_sets = [tags, [t for t in tags if t in inf], [t for t in tags if t not in inf], [tags[len(inf) - 1], tags[-1]], [tags[0], tags[len(inf)]]]
    for present in model_sets:
        ops = tuple(Obj(t, f"{t}#{k}") for k, t in enumerate(present))
        paths = {"self.operators": ops, "self.args[0]": ops, "self._n_inf_order": sum(1 for o in ops if o.cls in inf),
                 "self._number_operator_placeholders": tuple(("N", o.label) for o in ops), "sympy.S.Zero": "ZERO", "S.Zero": "ZERO",
                 "sympy.S.One": "ONE", "S.One": "ONE", "generator_types": tuple(tags), "operator_types": tuple(tags)}
        for attr, t in counts.items():
            paths[f"self.{attr}"] = sum(1 for o in ops if o.cls == t)
        funcs = {"NumberOperator": lambda op: ("Nop", op), "_number_operator_to_placeholder": lambda x: ("N", x[1].label),
                 "self._number_operator_to_placeholder": lambda x: ("N", x[1].label)}
        names = {"Zero": "ZERO", "One": "ONE", "__classes__": tuple(tags) + ("SigmaPlus", "SigmaOpBase")}
        sub = {"SigmaOpBase": {"SigmaMinus", "SigmaPlus"}}
        patterns = [tuple(range(1, len(ops) + 1)), (0,) * len(ops)] + [tuple((sgn if j == i else 0) for j in range(len(ops))) for i in range(len(ops)) for sgn in (1, -1)]
        m = Model(R, "_cancel_binary_operator_numbers", names=names, paths=paths, funcs=funcs, subclasses=sub)
        env0 = {}
        early = False
        for s in pre_loop:
            if isinstance(s, ast.Expr) and isinstance(s.value, ast.Constant):
                continue
            if isinstance(s, ast.If) and not s.orelse and len(s.body) == 1 and isinstance(s.body[0], ast.Return) and norm(s.body[0].value) == "self":
                if m.truth(m.ev(s.test, env0)):
                    early = True
                    break
                continue
            if isinstance(s, ast.Assign):
                m.run([s], env0)
                continue
            raise AnalysisError(R, f"_cancel_binary_operator_numbers: statement `{norm(s)[:60]}` before the term loop not understood")
        for pat in patterns:
            n_cases += 1
            want = {("N", o.label): "ZERO" for o, p in zip(ops, pat) if p != 0 and o.cls not in inf}
            if early:
                got = {}
            else:
                env = dict(env0)
                env[PW], env[CF] = pat, Obj("coeff", "coeff")
                m.budget = 20000
                m._block(loop.body[:idx_x], env)
                # statements of the applying statement that precede the call are part of it only as sub-expressions: evaluate the table
                got = m.ev(xarg, env)
                if not isinstance(got, dict):
                    raise AnalysisError(R, "_cancel_binary_operator_numbers: the substitution argument is not a table on the model")
            if got != want:
                bad.append((present, pat, got, want, early))
    if bad:
        present, pat, got, want, early = bad[0]
        show = lambda d: "{" + ", ".join(f"N[{k[1].split('#')[0]}] -> {v}" for k, v in sorted(d.items(), key=repr)) + "}"
        rep.fail(R, f"{CLS}._cancel_binary_operator_numbers replaces {show(got)} in a term with powers {pat} over operators {list(present)}"
                 + (" (early return)" if early else ""),
                 f"required {show(want)}: N_op vanishes next to op / op† only for the binary (spin, fermion) classes {sorted(set(tags) - inf)}; "
                 f"the number operator of {sorted(inf)} is unbounded. {len(bad)} of {n_cases} model cases differ", loc(f))
    else:
        rep.ok(R, f"{CLS}._cancel_binary_operator_numbers sets N_op to 0 exactly for the spin / fermion operators present in a term",
               f"{n_cases} model cases (operator sets x power patterns); infinite-order classes {sorted(inf)}", loc(f))


# ---------------------------------------------------------------------------
# (vii) stored coefficients hold placeholders, not NumberOperator objects
# ---------------------------------------------------------------------------


def rule_placeholder_tests(rep: Report, repo: Repo):
    """Inside a NumberOrderedForm the coefficients of `args[1]` / `terms` are written over placeholder symbols
    (`_number_operator_placeholders`); NumberOperator objects appear only after `xreplace(self._placeholder_to_number_operator)`.
    A test `coeff.has(NumberOperator)` / `coeff.atoms(NumberOperator)` on a stored coefficient is therefore always negative: whatever it
    guards ("the coefficient does not depend on N, so ...") is taken for every coefficient."""
    R = "E10.placeholders"
    cls = repo.find(CLS, R)
    n_methods = n_tests = 0
    for fn in [m for m in cls.body if isinstance(m, ast.FunctionDef)]:
        n_methods += 1
        stored = set()
        for n in ast.walk(fn):
            src = None
            if isinstance(n, (ast.For, ast.comprehension)) and isinstance(n.target, ast.Tuple) and len(n.target.elts) == 2:
                src, tgt = n.iter, n.target
            elif isinstance(n, ast.Assign) and len(n.targets) == 1:
                tgt = n.targets[0]
                while isinstance(tgt, (ast.Tuple, ast.List)) and len(tgt.elts) == 1:
                    tgt = tgt.elts[0]
                if isinstance(tgt, ast.Tuple) and len(tgt.elts) == 2:
                    src = n.value
            if src is not None and any(t in norm(src) for t in ("self.args[1]", "self.terms")) and isinstance(tgt.elts[1], ast.Name):
                stored.add(tgt.elts[1].id)
        converted = {n.targets[0].id for n in ast.walk(fn) if isinstance(n, ast.Assign) and len(n.targets) == 1 and isinstance(n.targets[0], ast.Name)
                     and "_placeholder_to_number_operator" in norm(n.value)}
        for c in ast.walk(fn):
            if isinstance(c, ast.Call) and isinstance(c.func, ast.Attribute) and c.func.attr in ("has", "atoms", "find") \
                    and isinstance(c.func.value, ast.Name) and c.func.value.id in stored:
                n_tests += 1
                args = [norm(a) for a in c.args]
                inst = f"{CLS}.{fn.name} `{norm(c)[:60]}` on a stored coefficient"
                if "NumberOperator" in args and c.func.value.id not in converted:
                    rep.fail(R, f"{inst} looks for NumberOperator objects", "stored coefficients are written over placeholder symbols "
                             "(self._number_operator_placeholders): the test never finds anything, so the branch it guards is taken for "
                             "number-dependent coefficients too", repo.loc(MOD, c))
                else:
                    rep.ok(R, inst, "tests the placeholders (or a coefficient converted back to NumberOperator objects)", repo.loc(MOD, c))
    rep.floor(R, "methods of NumberOrderedForm inspected", n_methods, 20)
    rep.ok(R, f"{CLS}: dependence tests on stored coefficients", f"{n_tests} tests in {n_methods} methods", repo.rel(MOD))


# ---------------------------------------------------------------------------
# (viii) _expand_operators places every power by the identity of its operator
# ---------------------------------------------------------------------------


def rule_expand_by_identity(rep: Report, repo: Repo):
    """`_expand_operators(new_operators)` re-expresses a form over a longer, sorted operator list (masks and energies are merged with
    the Hamiltonian's operators this way).  A mode that is foreign to the form may sort BETWEEN two of its own modes, so the position
    of each power in the new tuple has to come from a per-operator lookup (`self.operators.index(op)` for op in new_operators, or the
    converse).  A return path that copies the raw power tuple contiguously (`(*front, *powers, *back)`, `front + powers + back`) is
    right only when the own modes are adjacent in new_operators -- a fact about new_operators, which a guard that does not read
    new_operators cannot establish.  Decided per return statement from its def-use closure; other shapes are reported as undecided."""
    R = "E10.expand"
    f = repo.find(f"{CLS}::_expand_operators", R)
    if len(f.args.args) < 2:
        raise AnalysisError(R, "_expand_operators takes no operator list")
    NEW = f.args.args[1].arg
    parent = {}
    for n in ast.walk(f):
        for c in ast.iter_child_nodes(n):
            parent[c] = n
    names = lambda e: {x.id for x in ast.walk(e) if isinstance(x, ast.Name)}
    # def-use edges: name -> expressions it is computed from
    deps: dict[str, list[ast.AST]] = {}
    for n in own_nodes(f):
        if isinstance(n, (ast.Assign, ast.AnnAssign, ast.AugAssign)) and getattr(n, "value", None) is not None:
            tgts = n.targets if isinstance(n, ast.Assign) else [n.target]
            for t in tgts:
                for x in ast.walk(t):
                    if isinstance(x, ast.Name):
                        deps.setdefault(x.id, []).append(n.value)
                    if isinstance(x, ast.Subscript):
                        for y in names(x.value):
                            deps.setdefault(y, []).append(x.slice)
        elif isinstance(n, ast.For):
            for x in names(n.target):
                deps.setdefault(x, []).append(n.iter)
        elif isinstance(n, ast.Expr) and isinstance(n.value, ast.Call) and isinstance(n.value.func, ast.Attribute):
            for y in names(n.value.func.value):
                deps.setdefault(y, []).extend(n.value.args)
    tainted = set()
    changed = True
    while changed:
        changed = False
        for k, es in deps.items():
            if k not in tainted and any(NEW in names(e) or names(e) & tainted for e in es):
                tainted.add(k)
                changed = True

    def binders(exprs):
        """loop variables -> norm of the iterated expression, for comprehensions inside `exprs` and for-loops of the function"""
        out = {}
        gens = [g for e in exprs for x in ast.walk(e) for g in getattr(x, "generators", [])]
        loops = [(n.target, n.iter) for n in own_nodes(f) if isinstance(n, ast.For)] + [(g.target, g.iter) for g in gens]
        for tgt, it in loops:
            src = it
            if isinstance(src, ast.Call) and call_name(src) == "enumerate" and src.args:
                src = src.args[0]
            for x in names(tgt):
                out[x] = norm(src)
        return out

    returns = [n for n in own_nodes(f) if isinstance(n, ast.Return) and n.value is not None]
    if not returns:
        raise AnalysisError(R, "_expand_operators has no return statement")
    OWN = ("self.operators", "self.args[0]")
    TERMS = ("self.args[1]", "self.terms", "self.args[1].items()", "self.terms.items()")
    for r in returns:
        closure_exprs, seen, todo = [r.value], set(), list(names(r.value))
        while todo:
            v = todo.pop()
            if v in seen:
                continue
            seen.add(v)
            for e in deps.get(v, []):
                closure_exprs.append(e)
                todo += list(names(e))
        bound = binders(closure_exprs)
        op_vars = {v for v, src in bound.items() if src == NEW or src in OWN}
        raw_powers = set()
        for e in closure_exprs:
            for x in ast.walk(e):
                for g in getattr(x, "generators", []):
                    if norm(g.iter) in TERMS and isinstance(g.target, ast.Tuple) and isinstance(g.target.elts[0], ast.Name):
                        raw_powers.add(g.target.elts[0].id)
        for n in own_nodes(f):
            if isinstance(n, ast.For) and norm(n.iter) in TERMS and isinstance(n.target, ast.Tuple) and isinstance(n.target.elts[0], ast.Name):
                raw_powers.add(n.target.elts[0].id)
        lookup = copy = None
        for e in closure_exprs:
            for x in ast.walk(e):
                if isinstance(x, ast.Call) and isinstance(x.func, ast.Attribute) and x.func.attr in ("index", "get") and x.args \
                        and isinstance(x.args[0], ast.Name) and x.args[0].id in op_vars:
                    lookup = lookup or x
                if isinstance(x, ast.Subscript) and isinstance(x.slice, ast.Name) and x.slice.id in op_vars:
                    lookup = lookup or x
                if isinstance(x, ast.Compare) and isinstance(x.left, ast.Name) and x.left.id in op_vars \
                        and isinstance(x.ops[0], (ast.Eq, ast.Is)) and len(x.comparators) == 1 and names(x.comparators[0]) & op_vars:
                    lookup = lookup or x  # nested scan `if a == b` over both lists
                if isinstance(x, ast.Starred) and isinstance(x.value, ast.Name) and x.value.id in raw_powers:
                    copy = copy or x
                if isinstance(x, ast.BinOp) and isinstance(x.op, ast.Add) and any(
                        (isinstance(s, ast.Name) and s.id in raw_powers) or
                        (isinstance(s, ast.Call) and call_name(s) in ("tuple", "list") and s.args and isinstance(s.args[0], ast.Name) and s.args[0].id in raw_powers)
                        for s in (x.left, x.right)):
                    copy = copy or x
        guards, p = [], r
        while p in parent and parent[p] is not f:
            p = parent[p]
            if isinstance(p, (ast.If, ast.While)):
                guards.append(p.test)
        guard_reads_new = any(NEW in names(g) or names(g) & tainted for g in guards)
        where = repo.loc("number_ordered_form", r)
        inst = f"{CLS}._expand_operators return at line {r.lineno}"
        if lookup is not None and copy is None:
            rep.ok(R, inst, f"powers placed by the per-operator lookup `{norm(lookup)[:60]}`", where)
        elif copy is not None and lookup is None:
            if guard_reads_new:
                raise AnalysisError(R, f"{inst}: contiguous copy `{norm(copy)}` under a guard that reads {NEW}; not decided")
            rep.fail(R, f"{CLS}._expand_operators copies the power tuple contiguously (`{norm(copy)[:60]}`)",
                     f"no per-operator lookup on this return path and no guard on {NEW}: "
                     f"a foreign mode sorting between two own modes shifts the powers to the wrong operator "
                     f"(guards: {[norm(g)[:60] for g in guards] or 'none'})", where)
        elif norm(r.value) == "self" and guard_reads_new:
            rep.ok(R, inst, "returns self under a guard on the new operator list", where)
        else:
            raise AnalysisError(R, f"{inst}: neither a per-operator lookup nor a contiguous copy recognised "
                                   f"(lookup={norm(lookup) if lookup else None}, copy={norm(copy) if copy else None})")
    rep.floor(R, "return paths of _expand_operators", len(returns), 1)
