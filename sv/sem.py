"""Semantic normalisation helpers shared by the rules (make them insensitive to
behaviour-preserving rewrites):

* ``Canon`` / ``ctext``  -- canonical form of equivalent idioms (mirrored comparisons,
  De Morgan inside any/all, list-comprehension vs generator, ``.T.conj()`` vs ``.conj().T`` ...)
* ``Scope`` / ``inline``  -- inlining of small helper functions whose body is one expression
* ``outcomes``            -- all syntactic paths of a function with flow-sensitive name
  resolution: (conditions, return/raise, resolved value), ``return a if c else b`` split in two,
  ``return helper(...)`` expanded into the helper's own outcomes
"""

from __future__ import annotations

import ast
import copy
from dataclasses import dataclass, field

from .core import AnalysisError, call_name, norm
from .resolve import _assigned_names, clone, resolved

MIRROR = {ast.Gt: ast.Lt, ast.GtE: ast.LtE}


class Canon(ast.NodeTransformer):
    def visit_Compare(self, node: ast.Compare):
        self.generic_visit(node)
        if len(node.ops) == 1 and type(node.ops[0]) in MIRROR:
            return ast.Compare(left=node.comparators[0], ops=[MIRROR[type(node.ops[0])]()], comparators=[node.left])
        return node

    def visit_UnaryOp(self, node: ast.UnaryOp):
        self.generic_visit(node)
        if isinstance(node.op, ast.Not):
            o = node.operand
            if isinstance(o, ast.UnaryOp) and isinstance(o.op, ast.Not):
                return o.operand
            if isinstance(o, ast.Compare) and len(o.ops) == 1:
                flip = {ast.In: ast.NotIn, ast.NotIn: ast.In, ast.Is: ast.IsNot, ast.IsNot: ast.Is, ast.Eq: ast.NotEq, ast.NotEq: ast.Eq}
                if type(o.ops[0]) in flip:
                    return ast.Compare(left=o.left, ops=[flip[type(o.ops[0])]()], comparators=o.comparators)
            # not all(P for ..) -> any(not P for ..) ; not any(P ..) -> all(not P ..)
            if isinstance(o, ast.Call) and call_name(o) in ("all", "any") and len(o.args) == 1 and isinstance(o.args[0], ast.GeneratorExp):
                g = clone(o.args[0])
                g.elt = self.visit(ast.UnaryOp(op=ast.Not(), operand=g.elt))
                return ast.Call(func=ast.Name(id="any" if call_name(o) == "all" else "all", ctx=ast.Load()), args=[g], keywords=[])
        return node

    def visit_Call(self, node: ast.Call):
        self.generic_visit(node)
        name = call_name(node)
        # list comprehension consumed by a reducing builtin -> generator
        if name in ("any", "all", "sum", "tuple", "min", "max", "set", "sorted", "list") and node.args and isinstance(node.args[0], ast.ListComp):
            lc = node.args[0]
            node.args[0] = ast.GeneratorExp(elt=lc.elt, generators=lc.generators)
        if name in ("np.logical_not",) and len(node.args) == 1:
            return self.visit(ast.UnaryOp(op=ast.Not(), operand=node.args[0]))
        # x.T.conj() -> x.conj().T
        if isinstance(node.func, ast.Attribute) and node.func.attr in ("conj", "conjugate") and not node.args \
                and isinstance(node.func.value, ast.Attribute) and node.func.value.attr == "T":
            inner = node.func.value.value
            return ast.Attribute(value=ast.Call(func=ast.Attribute(value=inner, attr="conj", ctx=ast.Load()), args=[], keywords=[]),
                                 attr="T", ctx=ast.Load())
        if isinstance(node.func, ast.Attribute) and node.func.attr == "conjugate" and not node.args:
            node.func.attr = "conj"
        if name == "np.conj" and len(node.args) == 1:
            return ast.Call(func=ast.Attribute(value=node.args[0], attr="conj", ctx=ast.Load()), args=[], keywords=[])
        if name == "tuple" and len(node.args) == 1 and isinstance(node.args[0], ast.Call) and call_name(node.args[0]) == "list":
            node.args[0] = node.args[0].args[0] if node.args[0].args else node.args[0]
        return node

    def visit_BinOp(self, node: ast.BinOp):
        self.generic_visit(node)
        # set difference: A - (B | C)  ->  A - B - C
        if isinstance(node.op, ast.Sub) and isinstance(node.right, ast.BinOp) and isinstance(node.right.op, ast.BitOr) \
                and any(isinstance(x, ast.Set) or (isinstance(x, ast.Call) and isinstance(x.func, ast.Name) and x.func.id in ("set", "frozenset"))
                        for x in (node.right.left, node.right.right)):
            inner = ast.BinOp(left=node.left, op=ast.Sub(), right=node.right.left)
            return self.visit_BinOp(ast.BinOp(left=inner, op=ast.Sub(), right=node.right.right))
        return node

    def visit_Invert(self, node):
        return node


def canon(expr: ast.AST) -> ast.AST:
    return ast.fix_missing_locations(Canon().visit(clone(expr)))


def ctext(expr: ast.AST) -> str:
    return norm(canon(expr))


# ---------------------------------------------------------------------------
# helper inlining
# ---------------------------------------------------------------------------


class Scope:
    """Where helper functions are looked up: nested defs of the enclosing functions, then module level."""

    def __init__(self, module_tree: ast.Module, func: ast.AST | None = None):
        self.defs: dict[str, ast.FunctionDef] = {}
        for n in module_tree.body:
            if isinstance(n, ast.FunctionDef):
                self.defs[n.name] = n
        p = func
        chain = []
        while p is not None:
            if isinstance(p, ast.FunctionDef):
                chain.append(p)
            p = getattr(p, "_parent", None)
        for f in reversed(chain):
            for n in ast.walk(f):
                if isinstance(n, ast.FunctionDef) and n is not f and getattr(n, "_parent", None) is not None:
                    # only directly nested helper defs
                    self.defs.setdefault(n.name, n)

    def get(self, name: str):
        return self.defs.get(name)


def bind_args(func: ast.FunctionDef, call: ast.Call):
    """param name -> argument AST for a call (positional, keyword, defaults); None if it cannot be bound."""
    a = func.args
    if a.vararg or a.kwarg or any(isinstance(x, ast.Starred) for x in call.args) or any(k.arg is None for k in call.keywords):
        return None
    params = [x.arg for x in [*a.posonlyargs, *a.args]]
    if len(call.args) > len(params):
        return None
    env = {}
    for name, val in zip(params, call.args):
        env[name] = val
    kwonly = [x.arg for x in a.kwonlyargs]
    for k in call.keywords:
        if k.arg in env or (k.arg not in params and k.arg not in kwonly):
            return None
        env[k.arg] = k.value
    defaults = dict(zip(params[len(params) - len(a.defaults):], a.defaults))
    for x, d in zip(a.kwonlyargs, a.kw_defaults):
        if d is not None:
            defaults[x.arg] = d
    for name in params + kwonly:
        if name not in env:
            if name not in defaults:
                return None
            env[name] = defaults[name]
    return env


def _strip(body):
    out = []
    for s in body:
        if isinstance(s, ast.Expr) and isinstance(s.value, ast.Constant):
            continue
        if isinstance(s, ast.With):
            out += _strip(s.body)
        else:
            out.append(s)
    return out


def expression_body(func: ast.FunctionDef):
    """If the function is `simple assignments; return <expr>` return that expr with locals resolved, else None."""
    from .resolve import run_block

    body = _strip(func.body)
    if not body or not isinstance(body[-1], ast.Return) or body[-1].value is None:
        return None
    if not all(isinstance(s, (ast.Assign, ast.AnnAssign)) for s in body[:-1]):
        return None
    env = run_block(body[:-1])
    return resolved(body[-1].value, env)


class _Inline(ast.NodeTransformer):
    def __init__(self, scope: Scope, depth: int):
        self.scope, self.depth = scope, depth

    def visit_Call(self, node: ast.Call):
        self.generic_visit(node)
        if self.depth > 3 or not isinstance(node.func, ast.Name):
            return node
        f = self.scope.get(node.func.id)
        if f is None:
            return node
        e = expression_body(f)
        binding = bind_args(f, node) if e is not None else None
        if e is None or binding is None:
            return node
        out = resolved(e, binding)
        return _Inline(self.scope, self.depth + 1).visit(out)


def inline(expr: ast.AST, scope: Scope) -> ast.AST:
    return _Inline(scope, 0).visit(clone(expr))


# ---------------------------------------------------------------------------
# outcomes
# ---------------------------------------------------------------------------


@dataclass
class Outcome:
    conds: list = field(default_factory=list)  # [(resolved test AST, polarity)]
    kind: str = "fall"  # return | raise | fall | continue | break
    value: ast.AST | None = None  # resolved returned / raised expression
    events: list = field(default_factory=list)  # other statements executed (resolved copies are not made)
    env: dict = field(default_factory=dict)
    node: ast.AST | None = None
    seq: list = field(default_factory=list)  # ordered trace: ('cond', test, pol) | ('assign'|'stmt', stmt, resolved value)

    def cond_texts(self):
        return [(ctext(t), p) for t, p in self.conds]


def outcomes(stmts, scope: Scope | None = None, env: dict | None = None, atom=None, expand: bool = True,
             limit: int = 2000, depth: int = 0, opaque=()) -> list[Outcome]:
    """Enumerate syntactic paths with flow-sensitive resolution.  Names in `opaque` are never substituted."""
    from .paths import eval_bool

    done: list[Outcome] = []

    def res(e, env):
        r = resolved(e, env)
        return inline(r, scope) if scope is not None else r

    def walk(stmts, env, conds, events, cont, seq=()):
        if len(done) > limit:
            raise AnalysisError("sem", "too many paths")
        if not stmts:
            cont(env, conds, events, seq)
            return
        s, rest = stmts[0], stmts[1:]
        if isinstance(s, ast.Expr) and isinstance(s.value, ast.Constant):
            return walk(rest, env, conds, events, cont, seq)
        if isinstance(s, ast.If):
            test = res(s.test, env)
            v = eval_bool(test, atom) if atom is not None else None
            # walrus bindings inside the test
            env2 = dict(env)
            for n in ast.walk(s.test):
                if isinstance(n, ast.NamedExpr):
                    env2[n.target.id] = res(n.value, env)
            for val in ([v] if v is not None else [True, False]):
                walk(s.body if val else s.orelse, dict(env2), conds + [(test, val)], list(events),
                     lambda e, c, ev, sq: walk(rest, e, c, ev, cont, sq), seq + (("cond", test, val),))
            return
        if isinstance(s, ast.Return):
            val = res(s.value, env) if s.value is not None else None
            _finish_return(val, env, conds, events, s, seq)
            return
        if isinstance(s, ast.Raise):
            done.append(Outcome(conds, "raise", res(s.exc, env) if s.exc is not None else None, events, env, s, list(seq)))
            return
        if isinstance(s, (ast.Continue, ast.Break)):
            done.append(Outcome(conds, "continue" if isinstance(s, ast.Continue) else "break", None, events, env, s, list(seq)))
            return
        if isinstance(s, ast.With):
            return walk(list(s.body) + list(rest), env, conds, events + [s.items[0].context_expr], cont,
                        seq + (("stmt", s, None),))
        if isinstance(s, (ast.Assign, ast.AnnAssign)):
            from .resolve import run_block
            env2 = run_block([s], env)
            for nm in opaque:
                env2.pop(nm, None)
            # item / attribute stores are events
            tg = s.targets if isinstance(s, ast.Assign) else [s.target]
            ev2 = events + ([s] if any(not isinstance(t, (ast.Name, ast.Tuple)) for t in tg) else [])
            rv = res(s.value, env) if s.value is not None else None
            return walk(rest, env2, conds, ev2, cont, seq + (("assign", s, rv),))
        if isinstance(s, ast.AugAssign):
            env2 = dict(env)
            if isinstance(s.target, ast.Name):
                env2.pop(s.target.id, None)
            return walk(rest, env2, conds, events + [s], cont, seq + (("stmt", s, res(s.value, env)),))
        if isinstance(s, (ast.For, ast.While, ast.Try, ast.Match)):
            env2 = dict(env)
            for nm in _assigned_names(s):
                env2.pop(nm, None)
            return walk(rest, env2, conds, events + [s], cont, seq + (("stmt", s, None),))
        if isinstance(s, (ast.FunctionDef, ast.ClassDef)):
            env2 = dict(env)
            env2.pop(s.name, None)
            return walk(rest, env2, conds, events + [s], cont, seq + (("stmt", s, None),))
        rv = res(s.value, env) if isinstance(s, ast.Expr) else None
        return walk(rest, env, conds, events + [s], cont, seq + (("stmt", s, rv),))

    def _finish_return(val, env, conds, events, node, seq=()):
        if isinstance(val, ast.IfExp):
            _finish_return(val.body, env, conds + [(val.test, True)], events, node, seq + (("cond", val.test, True),))
            _finish_return(val.orelse, env, conds + [(val.test, False)], events, node, seq + (("cond", val.test, False),))
            return
        if expand and scope is not None and depth < 3 and isinstance(val, ast.Call) and isinstance(val.func, ast.Name):
            f = scope.get(val.func.id)
            if f is not None and expression_body(f) is None:
                binding = bind_args(f, val)
                if binding is not None:
                    for o in outcomes(_strip(f.body), scope, binding, atom, expand, limit, depth + 1, opaque):
                        if o.kind == "fall":
                            o = Outcome(o.conds, "return", ast.Constant(value=None), o.events, o.env, o.node, o.seq)
                        done.append(Outcome(conds + o.conds, o.kind, o.value, events + o.events, o.env, o.node or node,
                                            list(seq) + list(o.seq)))
                    return
        done.append(Outcome(conds, "return", val, events, env, node, list(seq)))

    walk(list(stmts), dict(env or {}), [], [], lambda e, c, ev, sq: done.append(Outcome(c, "fall", None, ev, e, None, list(sq))))
    return done
