"""Semantic normalisation helpers shared by the rules (make them insensitive to
behaviour-preserving rewrites):

* ``Canon`` / ``ctext``  -- canonical form of equivalent idioms (mirrored comparisons,
  De Morgan inside any/all, list-comprehension vs generator, ``.T.conj()`` vs ``.conj().T`` ...)
* ``Scope`` / ``inline``  -- inlining of small helper functions whose body is one expression
* ``outcomes``            -- all syntactic paths of a function with flow-sensitive name
  resolution: (conditions, return/raise, resolved value), ``return a if c else b`` split in two,
  ``return helper(...)`` expanded into the helper's own outcomes
"""

from __future__ import annotations

import ast
import copy
from dataclasses import dataclass, field

from .core import AnalysisError, call_name, norm
from .resolve import _assigned_names, clone, resolved

MIRROR = {ast.Gt: ast.Lt, ast.GtE: ast.LtE}


class Canon(ast.NodeTransformer):
    def visit_Compare(self, node: ast.Compare):
        self.generic_visit(node)
        if len(node.ops) == 1 and type(node.ops[0]) in MIRROR:
            return ast.Compare(left=node.comparators[0], ops=[MIRROR[type(node.ops[0])]()], comparators=[node.left])
        return node

    def visit_UnaryOp(self, node: ast.UnaryOp):
        self.generic_visit(node)
        if isinstance(node.op, ast.Not):
            o = node.operand
            if isinstance(o, ast.UnaryOp) and isinstance(o.op, ast.Not):
                return o.operand
            if isinstance(o, ast.Compare) and len(o.ops) == 1:
                flip = {ast.In: ast.NotIn, ast.NotIn: ast.In, ast.Is: ast.IsNot, ast.IsNot: ast.Is, ast.Eq: ast.NotEq, ast.NotEq: ast.Eq}
                if type(o.ops[0]) in flip:
                    return ast.Compare(left=o.left, ops=[flip[type(o.ops[0])]()], comparators=o.comparators)
            # not all(P for ..) -> any(not P for ..) ; not any(P ..) -> all(not P ..)
            if isinstance(o, ast.Call) and call_name(o) in ("all", "any") and len(o.args) == 1 and isinstance(o.args[0], ast.GeneratorExp):
                g = clone(o.args[0])
                g.elt = self.visit(ast.UnaryOp(op=ast.Not(), operand=g.elt))
                return ast.Call(func=ast.Name(id="any" if call_name(o) == "all" else "all", ctx=ast.Load()), args=[g], keywords=[])
        return node

    def visit_Call(self, node: ast.Call):
        self.generic_visit(node)
        # bool(<comparison / boolean expression>) is that expression
        if isinstance(node.func, ast.Name) and node.func.id == "bool" and len(node.args) == 1 and not node.keywords \
                and isinstance(node.args[0], (ast.Compare, ast.BoolOp)):
            return node.args[0]
        # iterating a dict iterates its keys: tuple(d.keys()) -> tuple(d)
        if isinstance(node.func, ast.Name) and node.func.id in ("tuple", "list", "set", "sorted", "iter") and len(node.args) == 1 \
                and isinstance(node.args[0], ast.Call) and isinstance(node.args[0].func, ast.Attribute) and node.args[0].func.attr == "keys" \
                and not node.args[0].args:
            node.args[0] = node.args[0].func.value
        # dict.fromkeys(ITER, v) is {k: v for k in ITER}
        if isinstance(node.func, ast.Attribute) and node.func.attr == "fromkeys" and isinstance(node.func.value, ast.Name) and node.func.value.id == "dict" \
                and len(node.args) == 2 and not node.keywords:
            it, val = node.args
            if isinstance(it, (ast.GeneratorExp, ast.ListComp)):
                return ast.DictComp(key=it.elt, value=val, generators=it.generators)
            kv = ast.Name(id="_k", ctx=ast.Load())
            return ast.DictComp(key=kv, value=val, generators=[ast.comprehension(target=ast.Name(id="_k", ctx=ast.Store()), iter=it, ifs=[], is_async=0)])
        # d.get(k, None) is d.get(k)
        if isinstance(node.func, ast.Attribute) and node.func.attr == "get" and len(node.args) == 2 and not node.keywords \
                and isinstance(node.args[1], ast.Constant) and node.args[1].value is None:
            node.args = node.args[:1]
        name = call_name(node)
        # list comprehension consumed by a reducing builtin -> generator
        if name in ("any", "all", "sum", "tuple", "min", "max", "set", "sorted", "list") and node.args and isinstance(node.args[0], ast.ListComp):
            lc = node.args[0]
            node.args[0] = ast.GeneratorExp(elt=lc.elt, generators=lc.generators)
        if name in ("np.logical_not",) and len(node.args) == 1:
            return self.visit(ast.UnaryOp(op=ast.Not(), operand=node.args[0]))
        # x.T.conj() -> x.conj().T
        if isinstance(node.func, ast.Attribute) and node.func.attr in ("conj", "conjugate") and not node.args \
                and isinstance(node.func.value, ast.Attribute) and node.func.value.attr == "T":
            inner = node.func.value.value
            return ast.Attribute(value=ast.Call(func=ast.Attribute(value=inner, attr="conj", ctx=ast.Load()), args=[], keywords=[]),
                                 attr="T", ctx=ast.Load())
        if isinstance(node.func, ast.Attribute) and node.func.attr == "conjugate" and not node.args:
            node.func.attr = "conj"
        if name == "np.conj" and len(node.args) == 1:
            return ast.Call(func=ast.Attribute(value=node.args[0], attr="conj", ctx=ast.Load()), args=[], keywords=[])
        if name == "tuple" and len(node.args) == 1 and isinstance(node.args[0], ast.Call) and call_name(node.args[0]) == "list":
            node.args[0] = node.args[0].args[0] if node.args[0].args else node.args[0]
        return node

    def visit_BinOp(self, node: ast.BinOp):
        self.generic_visit(node)
        # tuple concatenation: (a, b) + X  ->  (a, b, *X)
        if isinstance(node.op, ast.Add) and isinstance(node.left, ast.Tuple):
            extra = list(node.right.elts) if isinstance(node.right, ast.Tuple) else [ast.Starred(value=node.right, ctx=ast.Load())]
            return ast.Tuple(elts=list(node.left.elts) + extra, ctx=ast.Load())
        # X + (a, b)  ->  (*X, a, b): only a tuple can be added to a tuple display
        if isinstance(node.op, ast.Add) and isinstance(node.right, ast.Tuple) and not isinstance(node.left, ast.Tuple):
            return ast.Tuple(elts=[ast.Starred(value=node.left, ctx=ast.Load())] + list(node.right.elts), ctx=ast.Load())
        # set difference: A - (B | C)  ->  A - B - C
        if isinstance(node.op, ast.Sub) and isinstance(node.right, ast.BinOp) and isinstance(node.right.op, ast.BitOr) \
                and any(isinstance(x, ast.Set) or (isinstance(x, ast.Call) and isinstance(x.func, ast.Name) and x.func.id in ("set", "frozenset"))
                        for x in (node.right.left, node.right.right)):
            inner = ast.BinOp(left=node.left, op=ast.Sub(), right=node.right.left)
            return self.visit_BinOp(ast.BinOp(left=inner, op=ast.Sub(), right=node.right.right))
        return node

    def visit_IfExp(self, node: ast.IfExp):
        self.generic_visit(node)
        # `True if T else E` is `T or E`; `E if T else False` is `T and E`; `False if T else E` is `not T and E`; `E if T else True` ...
        b, o = node.body, node.orelse
        if isinstance(b, ast.Constant) and b.value is True:
            return ast.BoolOp(op=ast.Or(), values=[node.test, o])
        if isinstance(o, ast.Constant) and o.value is False:
            return ast.BoolOp(op=ast.And(), values=[node.test, b])
        if isinstance(b, ast.Constant) and b.value is False:
            return ast.BoolOp(op=ast.And(), values=[self.visit(ast.UnaryOp(op=ast.Not(), operand=node.test)), o])
        if isinstance(o, ast.Constant) and o.value is True:
            return ast.BoolOp(op=ast.Or(), values=[self.visit(ast.UnaryOp(op=ast.Not(), operand=node.test)), b])
        return node

    def visit_Invert(self, node):
        return node


def canon(expr: ast.AST) -> ast.AST:
    return ast.fix_missing_locations(Canon().visit(clone(expr)))


def ctext(expr: ast.AST) -> str:
    return norm(canon(expr))


# ---------------------------------------------------------------------------
# helper inlining
# ---------------------------------------------------------------------------


class Scope:
    """Where helper functions are looked up: nested defs of the enclosing functions, then module level."""

    def __init__(self, module_tree: ast.Module, func: ast.AST | None = None):
        self.defs: dict[str, ast.FunctionDef] = {}
        for n in module_tree.body:
            if isinstance(n, ast.FunctionDef):
                self.defs[n.name] = n
        p = func
        chain = []
        while p is not None:
            if isinstance(p, ast.FunctionDef):
                chain.append(p)
            p = getattr(p, "_parent", None)
        for f in reversed(chain):
            for n in ast.walk(f):
                if isinstance(n, ast.FunctionDef) and n is not f and getattr(n, "_parent", None) is not None:
                    # only directly nested helper defs
                    self.defs.setdefault(n.name, n)

    def get(self, name: str):
        return self.defs.get(name)


def bind_args(func: ast.FunctionDef, call: ast.Call):
    """param name -> argument AST for a call (positional, keyword, defaults); None if it cannot be bound."""
    a = func.args
    if a.vararg or a.kwarg or any(isinstance(x, ast.Starred) for x in call.args) or any(k.arg is None for k in call.keywords):
        return None
    params = [x.arg for x in [*a.posonlyargs, *a.args]]
    if len(call.args) > len(params):
        return None
    env = {}
    for name, val in zip(params, call.args):
        env[name] = val
    kwonly = [x.arg for x in a.kwonlyargs]
    for k in call.keywords:
        if k.arg in env or (k.arg not in params and k.arg not in kwonly):
            return None
        env[k.arg] = k.value
    defaults = dict(zip(params[len(params) - len(a.defaults):], a.defaults))
    for x, d in zip(a.kwonlyargs, a.kw_defaults):
        if d is not None:
            defaults[x.arg] = d
    for name in params + kwonly:
        if name not in env:
            if name not in defaults:
                return None
            env[name] = defaults[name]
    return env


def _strip(body):
    out = []
    for s in body:
        if isinstance(s, ast.Expr) and isinstance(s.value, ast.Constant):
            continue
        if isinstance(s, ast.With):
            out += _strip(s.body)
        else:
            out.append(s)
    return out


def expression_body(func: ast.FunctionDef):
    """If the function is `simple assignments; return <expr>` return that expr with locals resolved, else None."""
    from .resolve import run_block

    body = _strip(func.body)
    if not body or not isinstance(body[-1], ast.Return) or body[-1].value is None:
        return None
    if not all(isinstance(s, (ast.Assign, ast.AnnAssign)) for s in body[:-1]):
        return None
    env = run_block(body[:-1])
    return resolved(body[-1].value, env)


class _Inline(ast.NodeTransformer):
    def __init__(self, scope: Scope, depth: int):
        self.scope, self.depth = scope, depth

    def visit_Call(self, node: ast.Call):
        self.generic_visit(node)
        if self.depth > 3 or not isinstance(node.func, ast.Name):
            return node
        f = self.scope.get(node.func.id)
        if f is None:
            return node
        e = expression_body(f)
        binding = bind_args(f, node) if e is not None else None
        if e is None or binding is None:
            return node
        out = resolved(e, binding)
        return _Inline(self.scope, self.depth + 1).visit(out)


def inline(expr: ast.AST, scope: Scope) -> ast.AST:
    return _Inline(scope, 0).visit(clone(expr))


class _KwCalls(ast.NodeTransformer):
    def __init__(self, scope: Scope):
        self.scope = scope

    def visit_Call(self, node: ast.Call):
        self.generic_visit(node)
        f = self.scope.get(node.func.id) if isinstance(node.func, ast.Name) else None
        if f is None or f.args.vararg or f.args.posonlyargs or any(isinstance(x, ast.Starred) for x in node.args) \
                or any(k.arg is None for k in node.keywords):
            return node
        params = [x.arg for x in f.args.args]
        if len(node.args) > len(params):
            return node
        given = dict(zip(params, node.args))
        for k in node.keywords:
            if k.arg in given:
                return node
            given[k.arg] = k.value
        order = params + [x.arg for x in f.args.kwonlyargs]
        first = params[:1] if params and params[0] in given else []  # the first argument stays positional: `f(x, atol=atol)`
        node.args = [given[n] for n in first]
        node.keywords = [ast.keyword(arg=n, value=given[n]) for n in order if n in given and n not in first] + \
                        [ast.keyword(arg=n, value=v) for n, v in given.items() if n not in order]
        return node


def kwcalls(expr: ast.AST, scope: Scope) -> ast.AST:
    """Calls of functions known in `scope` in one form: first argument positional, the others by keyword in signature order,
    so that `f(x, atol)` and `f(x, atol=atol)` read the same."""
    return _KwCalls(scope).visit(clone(expr))


# ---------------------------------------------------------------------------
# folding of conditional expressions with what a path already knows
# ---------------------------------------------------------------------------

_POS = {ast.IsNot: ast.Is, ast.NotEq: ast.Eq, ast.NotIn: ast.In}


def _literal(t: ast.AST):
    """-> (positive text, polarity) of a test"""
    pol = True
    while isinstance(t, ast.UnaryOp) and isinstance(t.op, ast.Not):
        t, pol = t.operand, not pol
    if isinstance(t, ast.Compare) and len(t.ops) == 1 and type(t.ops[0]) in _POS:
        t = ast.Compare(left=t.left, ops=[_POS[type(t.ops[0])]()], comparators=t.comparators)
        pol = not pol
    return norm(t), pol


def known_facts(conds) -> dict:
    """Atomic facts implied by the conditions of a path: `A or B` false gives A false and B false, `A and B` true gives both."""
    facts: dict = {}

    def push(t, val):
        t = canon(t)
        if isinstance(t, ast.UnaryOp) and isinstance(t.op, ast.Not):
            return push(t.operand, not val)
        if isinstance(t, ast.BoolOp):
            if isinstance(t.op, ast.Or) and val is False:
                for x in t.values:
                    push(x, False)
            elif isinstance(t.op, ast.And) and val is True:
                for x in t.values:
                    push(x, True)
            return
        txt, pol = _literal(t)
        facts[txt] = val if pol else not val
    for t, val in conds:
        push(t, val)
    return facts


def fold_known(e: ast.AST, conds, atom=None) -> ast.AST:
    """Conditional expressions decided by the path (or by `atom`) are replaced by the chosen arm; a comparison of a conditional
    expression is distributed over its arms, `X is X` of a plain name is True, constant operands of and / or are dropped."""
    from .paths import eval_bool
    facts = known_facts(conds)

    def truth(t):
        txt, pol = _literal(canon(t))
        if txt in facts:
            return facts[txt] if pol else not facts[txt]
        if isinstance(t, ast.Constant) and isinstance(t.value, bool):
            return t.value
        if atom is not None:
            return eval_bool(t, atom)
        return None

    class F(ast.NodeTransformer):
        def visit_IfExp(self, node):
            self.generic_visit(node)
            v = truth(node.test)
            return node if v is None else (node.body if v else node.orelse)

        def visit_Compare(self, node):
            self.generic_visit(node)
            if len(node.ops) == 1 and isinstance(node.left, ast.IfExp):
                ie = node.left
                mk = lambda arm: self.visit(ast.Compare(left=arm, ops=node.ops, comparators=node.comparators))
                yes = ast.BoolOp(op=ast.And(), values=[ie.test, mk(ie.body)])
                no = ast.BoolOp(op=ast.And(), values=[ast.UnaryOp(op=ast.Not(), operand=ie.test), mk(ie.orelse)])
                return self.visit(ast.BoolOp(op=ast.Or(), values=[yes, no]))
            if len(node.ops) == 1 and isinstance(node.ops[0], (ast.Is, ast.IsNot)) and isinstance(node.left, ast.Name) \
                    and isinstance(node.comparators[0], ast.Name) and node.left.id == node.comparators[0].id:
                return ast.Constant(value=isinstance(node.ops[0], ast.Is))
            return node

        def visit_BoolOp(self, node):
            self.generic_visit(node)
            is_or = isinstance(node.op, ast.Or)
            vals = []
            for v in node.values:
                if isinstance(v, ast.Constant) and isinstance(v.value, bool):
                    if v.value == is_or:
                        return ast.Constant(value=is_or)  # absorbing element
                    continue  # neutral element
                vals.append(v)
            # `t or (not t and X)` is `t or X`
            if is_or and len(vals) == 2 and isinstance(vals[1], ast.BoolOp) and isinstance(vals[1].op, ast.And) and len(vals[1].values) == 2:
                a_, (n_, x_) = vals[0], vals[1].values
                if isinstance(n_, ast.UnaryOp) and isinstance(n_.op, ast.Not) and norm(n_.operand) == norm(a_):
                    vals = [a_, x_]
            if not vals:
                return ast.Constant(value=not is_or)
            if len(vals) == 1:
                return vals[0]
            return ast.BoolOp(op=node.op, values=vals)
    return ast.fix_missing_locations(F().visit(clone(e)))


# ---------------------------------------------------------------------------
# outcomes
# ---------------------------------------------------------------------------


@dataclass
class Outcome:
    conds: list = field(default_factory=list)  # [(resolved test AST, polarity)]
    kind: str = "fall"  # return | raise | fall | continue | break
    value: ast.AST | None = None  # resolved returned / raised expression
    events: list = field(default_factory=list)  # other statements executed (resolved copies are not made)
    env: dict = field(default_factory=dict)
    node: ast.AST | None = None
    seq: list = field(default_factory=list)  # ordered trace: ('cond', test, pol) | ('assign'|'stmt', stmt, resolved value)

    def cond_texts(self):
        return [(ctext(t), p) for t, p in self.conds]


def outcomes(stmts, scope: Scope | None = None, env: dict | None = None, atom=None, expand: bool = True,
             limit: int = 2000, depth: int = 0, opaque=(), fold_ifs: bool = True) -> list[Outcome]:
    """Enumerate syntactic paths with flow-sensitive resolution.  Names in `opaque` are never substituted.  With `fold_ifs`, an
    `if c: x = A` / `else: x = B` whose condition nothing decides is one path with x = A if c else B (rules that count per path
    switch it off)."""
    from .paths import eval_bool

    done: list[Outcome] = []

    def res(e, env, conds=()):
        r = resolved(e, env)
        r = inline(r, scope) if scope is not None else r
        if any(isinstance(n_, ast.IfExp) for n_ in ast.walk(r)):
            r = fold_known(r, conds, atom)
        return r

    def walk(stmts, env, conds, events, cont, seq=()):
        if len(done) > limit:
            raise AnalysisError("sem", "too many paths")
        if not stmts:
            cont(env, conds, events, seq)
            return
        s, rest = stmts[0], stmts[1:]
        if isinstance(s, ast.Expr) and isinstance(s.value, ast.Constant):
            return walk(rest, env, conds, events, cont, seq)
        if isinstance(s, ast.If):
            test = res(s.test, env, conds)
            v = eval_bool(test, atom) if atom is not None else None
            if fold_ifs and v is None and len(s.body) == 1 and len(s.orelse) == 1 and all(
                    isinstance(b_, ast.Assign) and len(b_.targets) == 1 and isinstance(b_.targets[0], ast.Name) for b_ in (s.body[0], s.orelse[0])) \
                    and s.body[0].targets[0].id == s.orelse[0].targets[0].id and not any(isinstance(x, ast.NamedExpr) for x in ast.walk(s)):
                # `if c: x = A` / `else: x = B` under a condition nothing decides: one path on which x = A if c else B
                folded = ast.copy_location(ast.Assign(targets=[ast.Name(id=s.body[0].targets[0].id, ctx=ast.Store())],
                                                      value=ast.IfExp(test=s.test, body=s.body[0].value, orelse=s.orelse[0].value)), s)
                ast.fix_missing_locations(folded)
                folded._parent = getattr(s, "_parent", None)  # type: ignore[attr-defined]
                return walk([folded] + list(rest), env, conds, events, cont, seq)
            # walrus bindings inside the test
            env2 = dict(env)
            for n in ast.walk(s.test):
                if isinstance(n, ast.NamedExpr):
                    env2[n.target.id] = res(n.value, env)
            for val in ([v] if v is not None else [True, False]):
                walk(s.body if val else s.orelse, dict(env2), conds + [(test, val)], list(events),
                     lambda e, c, ev, sq: walk(rest, e, c, ev, cont, sq), seq + (("cond", test, val),))
            return
        if isinstance(s, ast.Return):
            val = res(s.value, env, conds) if s.value is not None else None
            _finish_return(val, env, conds, events, s, seq)
            return
        if isinstance(s, ast.Raise):
            done.append(Outcome(conds, "raise", res(s.exc, env) if s.exc is not None else None, events, env, s, list(seq)))
            return
        if isinstance(s, (ast.Continue, ast.Break)):
            done.append(Outcome(conds, "continue" if isinstance(s, ast.Continue) else "break", None, events, env, s, list(seq)))
            return
        if isinstance(s, ast.With):
            return walk(list(s.body) + list(rest), env, conds, events + [s.items[0].context_expr], cont,
                        seq + (("stmt", s, None),))
        if isinstance(s, (ast.Assign, ast.AnnAssign)):
            from .resolve import run_block
            env2 = run_block([s], env)
            for nm in opaque:
                env2.pop(nm, None)
            # item / attribute stores are events
            tg = s.targets if isinstance(s, ast.Assign) else [s.target]
            ev2 = events + ([s] if any(not isinstance(t, (ast.Name, ast.Tuple)) for t in tg) else [])
            rv = res(s.value, env, conds) if s.value is not None else None
            return walk(rest, env2, conds, ev2, cont, seq + (("assign", s, rv),))
        if isinstance(s, ast.AugAssign):
            env2 = dict(env)
            if isinstance(s.target, ast.Name):
                prev = env2.pop(s.target.id, None)
                if prev is not None and isinstance(s.op, (ast.Add, ast.Sub)) and s.target.id not in opaque:
                    # `x += e` denotes the value x + e (the statement stays among the events: in-place-ness is E4's business)
                    env2[s.target.id] = ast.BinOp(left=prev, op=s.op, right=res(s.value, env, conds))
            return walk(rest, env2, conds, events + [s], cont, seq + (("stmt", s, res(s.value, env, conds)),))
        if isinstance(s, ast.For) and not s.orelse and isinstance(s.target, (ast.Name, ast.Tuple)):
            # a loop over a display of known length is its body once per element
            it = res(s.iter, env)
            if isinstance(it, (ast.Tuple, ast.List)) and 0 < len(it.elts) <= 6 and not any(isinstance(x, ast.Starred) for x in it.elts) \
                    and not any(isinstance(x, (ast.Break, ast.Continue)) for b in s.body for x in ast.walk(b)):
                unrolled = []
                for x in it.elts:
                    unrolled.append(ast.copy_location(ast.Assign(targets=[s.target], value=x), s))
                    unrolled += list(s.body)
                return walk(unrolled + list(rest), env, conds, events, cont, seq)
        if isinstance(s, (ast.For, ast.While, ast.Try, ast.Match)):
            env2 = dict(env)
            for nm in _assigned_names(s):
                env2.pop(nm, None)
            return walk(rest, env2, conds, events + [s], cont, seq + (("stmt", s, None),))
        if isinstance(s, (ast.FunctionDef, ast.ClassDef)):
            env2 = dict(env)
            env2.pop(s.name, None)
            return walk(rest, env2, conds, events + [s], cont, seq + (("stmt", s, None),))
        rv = res(s.value, env, conds) if isinstance(s, ast.Expr) else None
        return walk(rest, env, conds, events + [s], cont, seq + (("stmt", s, rv),))

    def _finish_return(val, env, conds, events, node, seq=()):
        if isinstance(val, ast.IfExp):
            known = eval_bool(val.test, atom) if atom is not None else None
            if known is not False:
                _finish_return(val.body, env, conds + [(val.test, True)], events, node, seq + (("cond", val.test, True),))
            if known is not True:
                _finish_return(val.orelse, env, conds + [(val.test, False)], events, node, seq + (("cond", val.test, False),))
            return
        if expand and scope is not None and depth < 3 and isinstance(val, ast.Call) and isinstance(val.func, ast.Name):
            f = scope.get(val.func.id)
            if f is not None and expression_body(f) is None:
                binding = bind_args(f, val)
                if binding is not None:
                    for o in outcomes(_strip(f.body), scope, binding, atom, expand, limit, depth + 1, opaque):
                        if o.kind == "fall":
                            o = Outcome(o.conds, "return", ast.Constant(value=None), o.events, o.env, o.node, o.seq)
                        done.append(Outcome(conds + o.conds, o.kind, o.value, events + o.events, o.env, o.node or node,
                                            list(seq) + list(o.seq)))
                    return
        done.append(Outcome(conds, "return", val, events, env, node, list(seq)))

    walk(list(stmts), dict(env or {}), [], [], lambda e, c, ev, sq: done.append(Outcome(c, "fall", None, ev, e, None, list(sq))))
    return done


# ---------------------------------------------------------------------------
# element-wise maps: `acc = []; for v in IT: ... acc.append(X)` == `tuple(F(v) for v in IT)`
# ---------------------------------------------------------------------------


def elementwise_map(func: ast.FunctionDef, scope: Scope | None, atom=None):
    """If `func` returns one value per element of an iterable, return (iterable AST resolved, element variable,
    [(conds, value AST or None when the element is skipped)]); else None.  Recognised forms:
        acc = []                                   return tuple(F(v) for v in IT)      (F: expression, or a helper
        for v in IT: ... acc.append(X) ...                                             expanded path by path)
        return tuple(acc)
    """
    from .resolve import env_at

    rets = [n for n in ast.walk(func) if isinstance(n, ast.Return) and n.value is not None]
    top = [r for r in rets if r in func.body]
    if len(top) != 1 or top[0] is not func.body[-1]:
        return None
    val = top[0].value
    while isinstance(val, ast.Call) and isinstance(val.func, ast.Name) and val.func.id in ("tuple", "list") and len(val.args) == 1:
        val = val.args[0]
    if isinstance(val, ast.Name):
        acc = val.id
        loops = [s for s in func.body if isinstance(s, ast.For) and any(
            isinstance(c, ast.Call) and isinstance(c.func, ast.Attribute) and c.func.attr == "append" and norm(c.func.value) == acc
            for c in ast.walk(s))]
        inits = [s for s in func.body if isinstance(s, ast.Assign) and any(norm(t) == acc for t in s.targets)]
        if len(loops) != 1 or len(inits) != 1 or norm(inits[0].value) not in ("[]", "list()") or not isinstance(loops[0].target, ast.Name):
            return None
        L = loops[0]
        env = {k: x for k, x in env_at(L, func).items() if k != acc}
        paths = []
        for o in outcomes(L.body, scope, env=env, atom=atom, expand=False):
            if o.kind not in ("fall", "continue"):
                return None
            apps = [rv.args[0] for kind, st, rv in o.seq if kind == "stmt" and isinstance(rv, ast.Call) and isinstance(rv.func, ast.Attribute)
                    and rv.func.attr == "append" and norm(rv.func.value) == acc and len(rv.args) == 1]
            if len(apps) > 1:
                return None
            paths.append((o.conds, apps[0] if apps else None))
        return resolved(L.iter, env), L.target.id, paths
    if isinstance(val, (ast.GeneratorExp, ast.ListComp)) and len(val.generators) == 1 and not val.generators[0].ifs \
            and isinstance(val.generators[0].target, ast.Name):
        g = val.generators[0]
        env = env_at(top[0], func)
        v = g.target.id
        env = {k: x for k, x in env.items() if k != v}
        elt = val.elt
        paths = []
        if isinstance(elt, ast.Call) and isinstance(elt.func, ast.Name) and scope is not None and scope.get(elt.func.id) is not None \
                and expression_body(scope.get(elt.func.id)) is None:
            h = scope.get(elt.func.id)
            binding = bind_args(h, elt)
            if binding is None:
                return None
            b2 = dict(env)
            b2.update({k: resolved(x, env) for k, x in binding.items()})
            for o in outcomes(_strip(h.body), scope, env=b2, atom=atom, expand=False):
                if o.kind != "return":
                    return None
                paths.append((o.conds, o.value))
        else:
            e2 = resolved(elt, env)
            paths.append(([], inline(e2, scope) if scope is not None else e2))
        return resolved(g.iter, env), v, paths
    return None


# ---------------------------------------------------------------------------
# a dictionary filled by one loop == a dict comprehension
# ---------------------------------------------------------------------------


def dict_filled_by_loop(stmts, dname: str, env: dict | None = None, atom=None, cases: bool = False):
    """D = {}; for T in IT: [if C: [continue]] D[K] = V [else: D[K] = V2]
         ->   {K: (V if C' else V2) for T in IT if C}
    Paths of the loop body that store into D are collected with the conditions that precede the store; paths that
    differ only in the polarity of one condition are merged (same value: the condition is irrelevant; different values:
    a conditional value).  Returns an ast.DictComp or None when the loop is not of this shape.  With `cases=True` the
    unmerged store paths are returned instead: (loop target, iterable, key, [(conditions, value)])."""
    from .paths import eval_bool

    env = dict(env or {})
    inits = [s_ for s_ in stmts if isinstance(s_, ast.Assign) and any(norm(t) == dname for t in s_.targets)]
    if len(inits) != 1 or norm(inits[0].value) not in ("{}", "dict()"):
        return None
    fills = [s_ for s_ in stmts if isinstance(s_, ast.For) and any(
        isinstance(x, ast.Subscript) and isinstance(x.ctx, ast.Store) and norm(x.value) == dname for x in ast.walk(s_))]
    if len(fills) != 1:
        return None
    L = fills[0]
    bound = {n.id for n in ast.walk(L.target) if isinstance(n, ast.Name)}
    env = {k: v for k, v in env.items() if k not in bound and k != dname}

    def literal(t, p):
        """canonical (text, polarity, node) of a decided-free condition"""
        t = canon(t)
        while isinstance(t, ast.UnaryOp) and isinstance(t.op, ast.Not):
            t, p = t.operand, not p
        if isinstance(t, ast.IfExp):
            v = eval_bool(t.test, atom) if atom is not None else (t.test.value if isinstance(t.test, ast.Constant) else None)
            if v is not None:
                return literal(t.body if v else t.orelse, p)
        return (norm(t), p, t)

    entries = []  # (frozenset of (text, pol), key text, value node)
    nodes = {}
    for o in outcomes(L.body, None, env=env, atom=atom, expand=False):
        stores = [(i, st, rv) for i, (kind, st, rv) in enumerate(o.seq) if kind == "assign" and isinstance(st, ast.Assign)
                  and isinstance(st.targets[0], ast.Subscript) and norm(st.targets[0].value) == dname]
        if len(stores) > 1:
            return None
        if not stores:
            continue
        i, st, rv = stores[0]
        lits = set()
        for kind, t, p in o.seq[:i]:
            if kind == "cond":
                if atom is not None and eval_bool(t, atom) is not None:
                    continue
                tx, pol, node = literal(t, p)
                if isinstance(node, ast.Constant):
                    continue
                lits.add((tx, pol))
                nodes[tx] = node
        key = resolved(st.targets[0].slice, o.env)
        entries.append((frozenset(lits), norm(key), key, rv))
    if not entries or len({k for _c, k, _kn, _v in entries}) != 1:
        return None
    if cases:
        out = []
        for c, _k, kn, v in entries:
            conds = [nodes[tx] if pol else ast.UnaryOp(op=ast.Not(), operand=nodes[tx]) for tx, pol in sorted(c)]
            out.append((conds, v))
        return L.target, resolved(L.iter, env), entries[0][2], out
    work, seen_w = [], set()
    for c, _k, _kn, v in entries:
        if (c, norm(v)) not in seen_w:
            seen_w.add((c, norm(v)))
            work.append((c, v))
    changed = True
    while changed and len(work) > 1:
        changed = False
        for a_i, (ca, va) in enumerate(work):
            for lit in ca:
                twin = (ca - {lit}) | {(lit[0], not lit[1])}
                for b_i, (cb, vb) in enumerate(work):
                    if b_i != a_i and cb == twin:
                        if norm(va) == norm(vb):
                            merged = va
                        else:
                            t_val, f_val = (va, vb) if lit[1] else (vb, va)
                            merged = ast.IfExp(test=nodes[lit[0]], body=t_val, orelse=f_val)
                        work = [w for k_, w in enumerate(work) if k_ not in (a_i, b_i)] + [(ca - {lit}, merged)]
                        changed = True
                        break
                if changed:
                    break
            if changed:
                break
    if len(work) != 1:
        return None
    cset, val = work[0]
    conds = [nodes[tx] if pol else ast.UnaryOp(op=ast.Not(), operand=nodes[tx]) for tx, pol in sorted(cset)]
    return ast.DictComp(key=entries[0][2], value=val,
                        generators=[ast.comprehension(target=L.target, iter=resolved(L.iter, env), ifs=conds, is_async=0)])


def list_built_by_loop(stmts, acc: str, env: dict | None = None):
    """acc = []; for T in IT: ... acc.append(X)   ->   (T, IT resolved, [(conditions, X resolved)])   or None."""
    env = dict(env or {})
    inits = [s_ for s_ in stmts if isinstance(s_, ast.Assign) and any(norm(t) == acc for t in s_.targets)]
    if len(inits) != 1 or norm(inits[0].value) not in ("[]", "list()"):
        return None
    fills = [s_ for s_ in stmts if isinstance(s_, ast.For) and any(
        isinstance(c, ast.Call) and isinstance(c.func, ast.Attribute) and c.func.attr in ("append", "extend", "insert") and norm(c.func.value) == acc
        for c in ast.walk(s_))]
    if len(fills) != 1:
        return None
    L = fills[0]
    bound = {n.id for n in ast.walk(L.target) if isinstance(n, ast.Name)}
    env = {k: v for k, v in env.items() if k not in bound and k != acc}
    out = []
    for o in outcomes(L.body, None, env=env, expand=False):
        apps = [rv for kind, st, rv in o.seq if kind == "stmt" and isinstance(rv, ast.Call) and isinstance(rv.func, ast.Attribute)
                and norm(rv.func.value) == acc]
        if len(apps) > 1 or any(a.func.attr != "append" or len(a.args) != 1 for a in apps):
            return None
        if apps:
            out.append(([t if p else ast.UnaryOp(op=ast.Not(), operand=t) for t, p in o.conds], apps[0].args[0]))
    return L.target, resolved(L.iter, env), out


def loop_as_comprehension(func: ast.FunctionDef, acc: str):
    """`acc = []; for T in IT: ...; acc.append(X)` in `func` (one unconditional append per turn) -> the list comprehension
    `[X for T in IT]` with the loop body's locals resolved, else None."""
    from .resolve import env_at
    fills = [s_ for s_ in func.body if isinstance(s_, ast.For)]
    r = None
    for L in fills:
        r = list_built_by_loop(func.body, acc, env_at(L, func, keep_params=True))
        if r is not None:
            break
    if r is None:
        return None
    target, it, paths = r
    if len(paths) != 1 or paths[0][0]:
        return None
    return ast.fix_missing_locations(ast.ListComp(elt=paths[0][1], generators=[ast.comprehension(target=clone(target), iter=it, ifs=[], is_async=0)]))
