"""Name resolution for statement-insensitive comparison of expressions.

``resolved(expr, env)`` substitutes local names by the expressions they were last
assigned (flow-sensitive along one straight-line path) and alpha-renames
comprehension variables by position, so that two codes that differ only in local
variable names, in how a computation is split over statements, or in comprehension
variable names have the same resolved text.
"""

from __future__ import annotations

import ast
import copy

from .core import norm


class _Subst(ast.NodeTransformer):
    def __init__(self, env: dict, bound: set):
        self.env = env
        self.bound = set(bound)

    def visit_Name(self, node: ast.Name):
        if isinstance(node.ctx, ast.Load) and node.id in self.env and node.id not in self.bound:
            return copy.deepcopy(self.env[node.id])
        return node

    def _comp(self, node):
        # alpha-rename comprehension targets by position
        node = copy.deepcopy(node)
        ren = {}
        k = len(self.bound)
        for g in node.generators:
            for n in ast.walk(g.target):
                if isinstance(n, ast.Name):
                    ren.setdefault(n.id, f"_v{k + len(ren)}")
        inner = _Subst({k2: v for k2, v in self.env.items() if k2 not in ren}, self.bound | set(ren.values()))

        class R(ast.NodeTransformer):
            def visit_Name(self, n):
                if n.id in ren:
                    return ast.copy_location(ast.Name(id=ren[n.id], ctx=n.ctx), n)
                return n

        node = R().visit(node)
        for g in node.generators:
            g.iter = inner.visit(g.iter)
            g.ifs = [inner.visit(i) for i in g.ifs]
        for f in ("elt", "key", "value"):
            if hasattr(node, f):
                setattr(node, f, inner.visit(getattr(node, f)))
        return node

    visit_ListComp = visit_GeneratorExp = visit_SetComp = visit_DictComp = _comp

    def visit_Lambda(self, node):
        return node


def resolved(expr: ast.AST, env: dict) -> ast.AST:
    return _Subst(env, set()).visit(copy.deepcopy(expr))


def rtext(expr: ast.AST, env: dict) -> str:
    return norm(resolved(expr, env))


def run_block(stmts, env: dict | None = None) -> dict:
    """Sequentially process simple assignments of a straight-line block.
    Returns env name -> resolved expression AST.  Other statements are ignored."""
    env = dict(env or {})
    for s in stmts:
        if isinstance(s, ast.Assign):
            value = resolved(s.value, env)
            for t in s.targets:
                if isinstance(t, ast.Name):
                    env[t.id] = value
                elif isinstance(t, ast.Tuple) and isinstance(s.value, ast.Tuple) and len(t.elts) == len(s.value.elts):
                    vals = [resolved(v, env) for v in s.value.elts]
                    for a, v in zip(t.elts, vals):
                        if isinstance(a, ast.Name):
                            env[a.id] = v
        elif isinstance(s, ast.AnnAssign) and isinstance(s.target, ast.Name) and s.value is not None:
            env[s.target.id] = resolved(s.value, env)
    return env
