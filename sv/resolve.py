"""Name resolution for statement-insensitive comparison of expressions.

``resolved(expr, env)`` substitutes local names by the expressions they were last
assigned (flow-sensitive along one straight-line path) and alpha-renames
comprehension variables by position, so that two codes that differ only in local
variable names, in how a computation is split over statements, or in comprehension
variable names have the same resolved text.
"""

from __future__ import annotations

import ast
import copy

from .core import norm


def clone(node):
    """Deep copy of an AST following AST fields only (the loader's `_parent` back-links are not copied)."""
    if isinstance(node, list):
        return [clone(x) for x in node]
    if not isinstance(node, ast.AST):
        return node
    new = type(node).__new__(type(node))
    for f in node._fields:
        if hasattr(node, f):
            setattr(new, f, clone(getattr(node, f)))
    for a in getattr(node, "_attributes", ()):
        if hasattr(node, a):
            setattr(new, a, getattr(node, a))
    return new


class _Subst(ast.NodeTransformer):
    def __init__(self, env: dict, bound: set):
        self.env = env
        self.bound = set(bound)

    def visit_Name(self, node: ast.Name):
        if isinstance(node.ctx, ast.Load) and node.id in self.env and node.id not in self.bound:
            return clone(self.env[node.id])
        return node

    def _comp(self, node):
        # alpha-rename comprehension targets by position
        node = clone(node)
        ren = {}
        k = len(self.bound)
        for g in node.generators:
            for n in ast.walk(g.target):
                if isinstance(n, ast.Name):
                    ren.setdefault(n.id, f"_v{k + len(ren)}")
        inner = _Subst({k2: v for k2, v in self.env.items() if k2 not in ren}, self.bound | set(ren.values()))

        class R(ast.NodeTransformer):
            def visit_Name(self, n):
                if n.id in ren:
                    return ast.copy_location(ast.Name(id=ren[n.id], ctx=n.ctx), n)
                return n

        # the first iterable is evaluated in the enclosing scope (comprehension targets do not shadow it)
        first_iter = self.visit(node.generators[0].iter)
        node.generators[0].iter = ast.Constant(value=None)
        node = R().visit(node)
        for i_, g in enumerate(node.generators):
            g.iter = first_iter if i_ == 0 else inner.visit(g.iter)
            g.ifs = [inner.visit(i) for i in g.ifs]
        for f in ("elt", "key", "value"):
            if hasattr(node, f):
                setattr(node, f, inner.visit(getattr(node, f)))
        return node

    visit_ListComp = visit_GeneratorExp = visit_SetComp = visit_DictComp = _comp

    def visit_Lambda(self, node):
        return node


def resolved(expr: ast.AST, env: dict) -> ast.AST:
    return _Subst(env, set()).visit(clone(expr))


def rtext(expr: ast.AST, env: dict) -> str:
    return norm(resolved(expr, env))


def run_block(stmts, env: dict | None = None) -> dict:
    """Sequentially process simple assignments of a straight-line block.
    Returns env name -> resolved expression AST.  Other statements are ignored."""
    env = dict(env or {})
    for s in stmts:
        if isinstance(s, ast.Assign):
            value = resolved(s.value, env)
            for t in s.targets:
                if isinstance(t, ast.Name):
                    env[t.id] = value
                elif isinstance(t, ast.Tuple) and isinstance(s.value, ast.Tuple) and len(t.elts) == len(s.value.elts) \
                        and not any(isinstance(x, ast.Starred) for x in [*t.elts, *s.value.elts]):
                    vals = [resolved(v, env) for v in s.value.elts]
                    for a, v in zip(t.elts, vals):
                        if isinstance(a, ast.Name):
                            env[a.id] = v
                        else:
                            for nm in _assigned_names(a):
                                env.pop(nm, None)
                elif isinstance(t, ast.Tuple):
                    _unpack(t, value, env)
                else:
                    for nm in _assigned_names(t):
                        env.pop(nm, None)
        elif isinstance(s, ast.AnnAssign) and isinstance(s.target, ast.Name) and s.value is not None:
            env[s.target.id] = resolved(s.value, env)
    return env


def _sub(value, lo=None, hi=None, idx=None):
    """value[idx] or value[lo:hi] with constant bounds, folding a constant slice underneath:
    X[:n][k] -> X[k], X[a:][k] -> X[a+k], X[a:][b:] -> X[a+b:]."""
    c = lambda v: ast.Constant(value=v)
    if isinstance(value, ast.Subscript) and isinstance(value.slice, ast.Slice) and value.slice.step is None:
        sl = value.slice
        a = 0 if sl.lower is None else (sl.lower.value if isinstance(sl.lower, ast.Constant) and isinstance(sl.lower.value, int) else None)
        b = None if sl.upper is None else (sl.upper.value if isinstance(sl.upper, ast.Constant) and isinstance(sl.upper.value, int) else "?")
        if a is not None and a >= 0 and b != "?" and (b is None or b >= 0):
            if idx is not None and idx >= 0 and (b is None or a + idx < b):
                return ast.Subscript(value=value.value, slice=c(a + idx), ctx=ast.Load())
            if idx is None and hi is None and lo is not None and lo >= 0 and b is None:
                return ast.Subscript(value=value.value, slice=ast.Slice(lower=c(a + lo), upper=None, step=None), ctx=ast.Load())
    if idx is not None:
        return ast.Subscript(value=value, slice=c(idx), ctx=ast.Load())
    return ast.Subscript(value=value, slice=ast.Slice(lower=None if lo is None else c(lo), upper=None if hi is None else c(hi), step=None),
                         ctx=ast.Load())


def _unpack(target: ast.Tuple, value: ast.AST, env: dict):
    """a, b, *c = V  ->  a: V[0], b: V[1], c: V[2:]   (V resolved; names after a star count from the end)."""
    elts = target.elts
    star = [i for i, e in enumerate(elts) if isinstance(e, ast.Starred)]
    for i, e in enumerate(elts):
        tgt = e.value if isinstance(e, ast.Starred) else e
        if not isinstance(tgt, ast.Name):
            for nm in _assigned_names(tgt):
                env.pop(nm, None)
            continue
        if not star or i < star[0]:
            env[tgt.id] = _sub(value, idx=i)
        elif i == star[0]:
            after = len(elts) - i - 1
            env[tgt.id] = _sub(value, lo=i, hi=(-after if after else None))
        else:
            env[tgt.id] = _sub(value, idx=i - len(elts))


MUTATORS = {"append", "extend", "add", "update", "pop", "popitem", "insert", "remove", "clear", "setdefault", "discard", "sort", "reverse"}


def _assigned_names(stmt) -> set:
    """Names whose value may change when `stmt` runs: rebinding, element / attribute stores, mutating method calls."""
    out = set()
    for n in ast.walk(stmt):
        if isinstance(n, ast.Name) and isinstance(n.ctx, ast.Store):
            out.add(n.id)
        if isinstance(n, (ast.FunctionDef, ast.ClassDef)):
            out.add(n.name)
        if isinstance(n, ast.Subscript) and isinstance(n.ctx, (ast.Store, ast.Del)):
            # (an attribute store patches the object but the name still denotes what it was constructed as)
            b = n.value
            while isinstance(b, (ast.Subscript, ast.Attribute)):
                b = b.value
            if isinstance(b, ast.Name):
                out.add(b.id)
        if isinstance(n, ast.Call) and isinstance(n.func, ast.Attribute) and n.func.attr in MUTATORS:
            b = n.func.value
            while isinstance(b, (ast.Subscript, ast.Attribute)):
                b = b.value
            if isinstance(b, ast.Name):
                out.add(b.id)
    return out


def fill_loop_as_comprehension(loop: ast.For, env: dict):
    """`for T in IT: [if C:] ACC.append(E)` with env[ACC] == []   ->  (ACC, [E for T in IT if C])
       `for T in IT: [if C:] ACC[K] = V`    with env[ACC] == {}   ->  (ACC, {K: V for T in IT if C})
    with IT, E, K, V, C resolved in `env` (the loop targets shadow).  None for any other loop."""
    if loop.orelse or len(loop.body) != 1:
        return None
    body, conds = loop.body[0], []
    while isinstance(body, ast.If) and not body.orelse and len(body.body) == 1:
        conds.append(body.test)
        body = body.body[0]
    bound = {n.id for n in ast.walk(loop.target) if isinstance(n, ast.Name)}
    inner = {k: v for k, v in env.items() if k not in bound}
    comp = None
    if isinstance(body, ast.Expr) and isinstance(body.value, ast.Call) and isinstance(body.value.func, ast.Attribute) \
            and body.value.func.attr == "append" and isinstance(body.value.func.value, ast.Name) and len(body.value.args) == 1 and not body.value.keywords:
        acc = body.value.func.value.id
        if acc in bound or not (acc in env and norm(env[acc]) in ("[]", "list()")):
            return None
        inner.pop(acc, None)
        comp = ast.ListComp(elt=resolved(body.value.args[0], inner), generators=[ast.comprehension(
            target=clone(loop.target), iter=resolved(loop.iter, env), ifs=[resolved(c, inner) for c in conds], is_async=0)])
    elif isinstance(body, ast.Assign) and len(body.targets) == 1 and isinstance(body.targets[0], ast.Subscript) and isinstance(body.targets[0].value, ast.Name):
        acc = body.targets[0].value.id
        if acc in bound or not (acc in env and norm(env[acc]) in ("{}", "dict()")):
            return None
        inner.pop(acc, None)
        comp = ast.DictComp(key=resolved(body.targets[0].slice, inner), value=resolved(body.value, inner), generators=[ast.comprehension(
            target=clone(loop.target), iter=resolved(loop.iter, env), ifs=[resolved(c, inner) for c in conds], is_async=0)])
    else:
        return None
    # the accumulator must not be read inside its own loop (then it is not a plain comprehension)
    uses = [n for n in ast.walk(loop) if isinstance(n, ast.Name) and n.id == acc]
    if len(uses) != 1:
        return None
    return acc, ast.fix_missing_locations(comp)


def env_at(node: ast.AST, func: ast.AST, keep_params: bool = True, loop_elems: bool = False, opaque=()) -> dict:
    """Resolution environment that holds just before ``node`` executes inside ``func``:
    straight-line assignments on the path from the function entry are applied in order; names
    assigned inside preceding compound statements (if / for / while / with / try) are dropped
    (their value depends on the path); parameters are never substituted (API names)."""
    chain = []
    child, p = node, getattr(node, "_parent", None)
    while p is not None and child is not func:
        for field in ("body", "orelse", "finalbody", "handlers"):
            block = getattr(p, field, None)
            if isinstance(block, list) and any(child is s for s in block):
                idx = [i for i, s in enumerate(block) if s is child][0]
                chain.append((block[:idx], p if field == "body" else None))
                break
        child, p = p, getattr(p, "_parent", None)
    params = set()
    if keep_params and isinstance(func, (ast.FunctionDef, ast.Lambda)):
        a = func.args
        params = {x.arg for x in [*a.posonlyargs, *a.args, *a.kwonlyargs]}
        if a.vararg:
            params.add(a.vararg.arg)
        if a.kwarg:
            params.add(a.kwarg.arg)
    env: dict = {}
    # loop variables of enclosing `for` statements become canonical placeholders: __elem(<iterable>)
    loops = []
    p = getattr(node, "_parent", None)
    while p is not None and p is not func:
        if isinstance(p, ast.For):
            loops.append(p)
        p = getattr(p, "_parent", None)
    loop_bind = {}
    for lp in reversed(loops):
        it = lp.iter
        if isinstance(lp.target, ast.Name):
            loop_bind[lp.target.id] = ("elem", it, None)
        elif isinstance(lp.target, ast.Tuple):
            for k, t in enumerate(lp.target.elts):
                if isinstance(t, ast.Name):
                    loop_bind[t.id] = ("elem", it, k)
    for stmts, owner in reversed(chain):
        if isinstance(owner, (ast.For, ast.While)):
            # entering a loop body: what the loop assigns anywhere is carried around the loop, not known here
            for nm in _assigned_names(owner):
                env.pop(nm, None)
        for s in stmts:
            if isinstance(s, ast.For):
                folded = fill_loop_as_comprehension(s, env)
                if folded is not None:
                    # `acc = []` + `for T in IT: acc.append(E)` (or `d = {}` + `d[K] = V`) denotes the comprehension
                    acc, comp = folded
                    for nm in _assigned_names(s):
                        env.pop(nm, None)
                    env[acc] = comp
                    continue
            if isinstance(s, ast.If) and len(s.body) == 1 and len(s.orelse) == 1 and all(
                    isinstance(b_, ast.Assign) and len(b_.targets) == 1 and isinstance(b_.targets[0], ast.Name) for b_ in (s.body[0], s.orelse[0])) \
                    and s.body[0].targets[0].id == s.orelse[0].targets[0].id and s.body[0].targets[0].id not in params \
                    and not any(isinstance(x, ast.NamedExpr) for x in ast.walk(s)):
                # `if c: x = A` / `else: x = B` denotes x = A if c else B
                nm = s.body[0].targets[0].id
                env[nm] = ast.IfExp(test=resolved(s.test, env), body=resolved(s.body[0].value, env), orelse=resolved(s.orelse[0].value, env))
                continue
            if isinstance(s, (ast.If, ast.For, ast.While, ast.With, ast.Try, ast.Match)):
                for nm in _assigned_names(s):
                    env.pop(nm, None)
                continue
            if isinstance(s, (ast.FunctionDef, ast.ClassDef)):
                env.pop(s.name, None)
                continue
            before = dict(env)
            env = run_block([s], env)
            for nm in list(env):
                if nm in params or nm in opaque:
                    # a reassigned parameter keeps its name (but invalidates what was derived from the old value)
                    env.pop(nm)
            if isinstance(s, ast.AugAssign) and isinstance(s.target, ast.Name):
                prev = before.get(s.target.id)
                if prev is not None and isinstance(s.op, (ast.Add, ast.Sub)) and s.target.id not in params and s.target.id not in opaque:
                    # `x += e` denotes the value x + e (that it is computed in place is E4's business)
                    env[s.target.id] = ast.BinOp(left=prev, op=s.op, right=resolved(s.value, before))
                else:
                    env.pop(s.target.id, None)
    if loop_elems:
        for name, (_k, it, pos) in loop_bind.items():
            if name in env:
                continue
            call = ast.Call(func=ast.Name(id="__elem", ctx=ast.Load()), args=[resolved(it, env)], keywords=[])
            env[name] = call if pos is None else ast.Subscript(value=call, slice=ast.Constant(value=pos), ctx=ast.Load())
    return env
