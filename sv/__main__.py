"""Entry point:  /venv/bin/python -m sv <Cxx> [--tier quick|thorough] [--repo DIR]
                 /venv/bin/python -m sv --replay <file>
                 /venv/bin/python -m sv --all [--tier ...]

Exit codes: 0 property held on everything analysed (known findings are printed as
KNOWN-FINDING lines); 1 unlisted violation (VIOLATION property=<id> replay=<path>);
2 ANALYSIS-ERROR (anchor vanished, idiom not understood, instance floor not met,
self-test of the checker failed).
"""

from __future__ import annotations

import argparse
import json
import os
import sys
import time
import traceback
from pathlib import Path

from .core import (
    VERIF,
    AnalysisError,
    Repo,
    Report,
    known_match,
    load_known,
)


def run_property(prop: str, tier: str, root: Path, write: bool = True, quiet: bool = False) -> int:
    from .props import PROPS

    if prop not in PROPS:
        print(f"ANALYSIS-ERROR property={prop} not claimed by this framework (see MANIFEST not_applicable)")
        return 2
    spec = PROPS[prop]
    seed = int(os.environ.get("VERIF_SEED", "0") or 0)
    t0 = time.time()
    undecided = []
    try:
        repo = Repo(root)
        rep = Report(prop, tier, repo)
        for rule in spec["rules"]:
            # a rule that cannot decide (anchor vanished, idiom not understood) does not stop the other
            # rules: violations found elsewhere are still reported; the run ends with exit 2 otherwise
            try:
                rule(rep, repo)
            except AnalysisError as e:
                undecided.append(str(e))
            except RecursionError:
                undecided.append(f"rule={getattr(rule, '__name__', rule)} recursion limit while analysing")
        selftest = None
        if tier == "thorough" and spec.get("selftest") and not undecided:
            from .selftest import run_selftest

            selftest = run_selftest(prop, spec, repo, seed)
    except AnalysisError as e:
        print(f"ANALYSIS-ERROR property={prop} {e}")
        return 2
    except Exception:  # a crash of the checker is never a verdict
        print(f"ANALYSIS-ERROR property={prop} checker crashed:")
        traceback.print_exc()
        return 2

    known = load_known()
    new, listed = [], []
    seen = set()
    for inst in rep.fails():
        if (inst.rule, inst.key) in seen:
            continue
        seen.add((inst.rule, inst.key))
        k = known_match(prop, inst, known)
        (listed if k else new).append((inst, k))

    wall = time.time() - t0
    if not quiet:
        print(f"[sv] property={prop} tier={tier} repo={root} digest={repo.digest()}")
        if repo.renamed:
            ex = ", ".join(f"{m_}::{u_} {c_} -> {r_}" for m_, u_, c_, r_ in repo.renamed[:3])
            print(f"[sv]   note: {len(repo.renamed)} renamed locals are read in the spelling the rules know (reports quote that spelling): {ex}, ...")
        for r in rep.rules():
            n_ok = sum(1 for i in rep.instances if i.rule == r and i.status == "ok")
            n_f = sum(1 for i in rep.instances if i.rule == r and i.status == "fail")
            print(f"[sv]   rule {r}: {n_ok} instances hold, {n_f} fail")
        if selftest:
            print(f"[sv]   self-test: {selftest['killed']}/{selftest['must_fire']} seeded variants detected, "
                  f"{selftest['silent']}/{selftest['must_stay_silent']} benign variants silent")
    for inst, k in listed:
        print(f"KNOWN-FINDING: property={prop} {k['id']} {inst.rule} {inst.key} -- {k.get('summary', '')}")
    code = 0
    if new:
        code = 1
        (VERIF / "replay").mkdir(exist_ok=True)
        for inst, _ in new:
            print(f"[sv] VIOLATED rule={inst.rule} at {inst.where}: {inst.key}\n[sv]     {inst.detail}")
        rpath = VERIF / "replay" / f"{prop}-{new[0][0].rule.replace('/', '_')}.json"
        if write:
            rpath.write_text(json.dumps({
                "property": prop,
                "repo": str(root),
                "digest": repo.digest(),
                "violations": [
                    {"rule": i.rule, "key": i.key, "where": i.where, "detail": i.detail, **i.extra}
                    for i, _ in new
                ],
                "how_to_replay": f"/venv/bin/python -m sv --replay {rpath}",
            }, indent=1, ensure_ascii=False))
        print(f"VIOLATION property={prop} replay={rpath}")
    for u in undecided:
        print(f"ANALYSIS-ERROR property={prop} {u}")
    if undecided and code == 0:
        code = 2
    if selftest and selftest.get("broken"):
        for line in selftest["broken"]:
            print(f"ANALYSIS-ERROR property={prop} self-test: {line}")
        if code == 0:
            code = 2
    if write:
        rep.analysed["undecided_rules"] = undecided
        rep.analysed["locals_read_in_reference_spelling"] = len(repo.renamed)
        write_evidence(prop, spec, rep, tier, seed, wall, new, listed, selftest)
    return code


def write_evidence(prop, spec, rep: Report, tier, seed, wall, new, listed, selftest):
    level = spec["level"]
    insts = rep.instances
    n_ok = sum(1 for i in insts if i.status == "ok")
    per_rule = {}
    for i in insts:
        d = per_rule.setdefault(i.rule, {"hold": 0, "fail": 0})
        d["hold" if i.status == "ok" else "fail"] += 1
    # samples: every failing instance plus a spread of holding ones per rule
    samples = []
    for i in insts:
        if i.status == "fail":
            samples.append({"rule": i.rule, "instance": i.key, "status": "fail", "where": i.where, "detail": i.detail})
    taken = {}
    for i in insts:
        if i.status == "ok" and taken.get(i.rule, 0) < 6:
            taken[i.rule] = taken.get(i.rule, 0) + 1
            samples.append({"rule": i.rule, "instance": i.instance, "status": "ok", "where": i.where, "detail": i.detail})
    distinct = len({(i.rule, i.instance) for i in insts})
    cov = {
        "explanation": spec["explanation"],
        "rule_instances": len(insts),
        "rule_instances_holding": n_ok,
        "per_rule": per_rule,
        "analysed": rep.analysed,
        "samples": samples,
        "evaluations": len(insts),
        "distinct_nontrivial": distinct,
        "rule": "one case = one (rule, construct) instance extracted from /repo's current source; "
                "distinct = distinct (rule, instance) pairs; every instance inspects a concrete "
                "syntax-tree construct, so none is trivial",
        "exhaustive": True,
        "repo_digest": rep.repo.digest(),
        "known_findings_matched": [k["id"] for _, k in listed],
        "notes": rep.notes,
    }
    if level == "proof":
        cov.update({
            "obligations": len(insts),
            "discharged": n_ok,
            "checker_cmd": f"/venv/bin/python -m sv {prop} --tier {tier}",
            "trusted_base": spec.get("trusted_base", []),
        })
    if level == "translation_validation":
        cov.update({
            "programs": rep.analysed.get("programs", 0),
            "disagreements_checked": rep.analysed.get("disagreements_checked", len(insts)),
        })
    if selftest:
        cov["selftest"] = {k: v for k, v in selftest.items() if k != "broken"}
    ev = {
        "property_id": prop,
        "tier": tier,
        "seed": seed,
        "level": level,
        "coverage": cov,
        "assumptions": spec.get("assumptions", []),
        "wall_s": round(wall, 3),
        "violations": len(new),
    }
    out = VERIF / "evidence"
    out.mkdir(exist_ok=True)
    (out / f"{prop}.json").write_text(json.dumps(ev, indent=1, ensure_ascii=False, default=str))


def replay(path: str) -> int:
    data = json.loads(Path(path).read_text())
    prop = data["property"]
    print(f"[sv] replaying {path}: property {prop}; recorded violations:")
    for v in data["violations"]:
        print(f"[sv]   {v['rule']} {v['where']}: {v['key']}")
    return run_property(prop, "quick", Path(os.environ.get("SV_REPO", "/repo")), write=False)


def _watchdog(seconds: int):
    """A checker that does not finish is never a verdict: exit 2 after `seconds`."""
    import signal

    def on_alarm(signum, frame):
        print(f"ANALYSIS-ERROR checker exceeded its time budget of {seconds} s")
        os._exit(2)

    try:
        signal.signal(signal.SIGALRM, on_alarm)
        signal.alarm(seconds)
    except (ValueError, AttributeError):
        pass


def main(argv=None) -> int:
    ap = argparse.ArgumentParser(prog="sv")
    ap.add_argument("prop", nargs="?")
    ap.add_argument("--tier", default=os.environ.get("VERIF_TIER") or "quick", choices=["quick", "thorough"])
    ap.add_argument("--repo", default=os.environ.get("SV_REPO", "/repo"))
    ap.add_argument("--replay")
    ap.add_argument("--all", action="store_true")
    ap.add_argument("--no-write", action="store_true")
    a = ap.parse_args(argv)
    _watchdog(600 if a.tier == "thorough" or a.all else 240)
    if a.replay:
        return replay(a.replay)
    if a.all:
        from .props import PROPS

        worst = 0
        for p in PROPS:
            worst = max(worst, run_property(p, a.tier, Path(a.repo), write=not a.no_write))
        return worst
    if not a.prop:
        ap.error("property id required")
    return run_property(a.prop, a.tier, Path(a.repo), write=not a.no_write)


if __name__ == "__main__":
    sys.exit(main())
