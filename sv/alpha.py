"""Spelling of local variables: rename-back normalisation.

Many rules name the locals of the function they study (`to_keep`, `n_operator`, `new_power`).  A maintainer who renames a
local changes nothing about the behaviour, and a rule that then stops understanding the function gives up (exit 2).  This
module removes the dependence for the common case: when the tree under analysis contains a top-level function (or method) that
also exists in the reference spelling table (`reference_locals.json`, generated from the tree the rules were written on by
`tools/gen_reference_locals.py`), its statements are aligned with the reference statements *modulo the names of locals*, and a
local that corresponds to one reference name in every aligned statement is renamed to that name in the loaded AST.

Soundness does not depend on the alignment: the renaming is a consistent alpha-renaming of an identifier that is (in the whole
unit) never a parameter, a def / class name, a global / nonlocal declaration, an except-as or import name, not a module-level
name or a builtin, to an identifier that does not occur in the unit at all and is not a module-level name or builtin either.
Such a renaming preserves every binding and therefore the behaviour; the alignment only decides WHICH fresh name is chosen.  Units
that use `locals()`, `vars()`, `globals()` or a one-argument `eval` / `exec`, and the DSL module `algorithms` (whose source text is
data), are left alone.  Nothing is renamed on a tree that spells its locals like the reference (the usual case: a digest of the unit
is compared first)."""

from __future__ import annotations

import ast
import builtins
import difflib
import hashlib
import json
from pathlib import Path

REF_PATH = Path(__file__).with_name("reference_locals.json")
SKIP_MODULES = {"algorithms"}
_BUILTINS = set(dir(builtins))


def units(tree: ast.Module):
    """(qualified name, node) of the top-level functions and the methods of top-level classes."""
    for n in tree.body:
        if isinstance(n, (ast.FunctionDef, ast.AsyncFunctionDef)):
            yield n.name, n
        elif isinstance(n, ast.ClassDef):
            for m in n.body:
                if isinstance(m, (ast.FunctionDef, ast.AsyncFunctionDef)):
                    yield f"{n.name}.{m.name}", m


def _fixed_names(fn: ast.AST) -> set:
    """Identifiers of the unit that are not plain local variables."""
    fixed = set()
    for n in ast.walk(fn):
        if isinstance(n, (ast.FunctionDef, ast.AsyncFunctionDef, ast.Lambda)):
            a = n.args
            fixed |= {x.arg for x in [*a.posonlyargs, *a.args, *a.kwonlyargs]}
            if a.vararg:
                fixed.add(a.vararg.arg)
            if a.kwarg:
                fixed.add(a.kwarg.arg)
        if isinstance(n, (ast.FunctionDef, ast.AsyncFunctionDef, ast.ClassDef)):
            fixed.add(n.name)
        if isinstance(n, (ast.Global, ast.Nonlocal)):
            fixed |= set(n.names)
        if isinstance(n, ast.ExceptHandler) and n.name:
            fixed.add(n.name)
        if isinstance(n, (ast.Import, ast.ImportFrom)):
            fixed |= {(al.asname or al.name).split(".")[0] for al in n.names}
        if isinstance(n, ast.ClassDef):
            for m in ast.walk(n):
                if isinstance(m, ast.Name) and isinstance(m.ctx, (ast.Store, ast.Del)):
                    fixed.add(m.id)  # may be a class attribute
        if isinstance(n, (ast.MatchAs, ast.MatchStar)) and n.name:
            fixed.add(n.name)
        if isinstance(n, ast.MatchMapping) and n.rest:
            fixed.add(n.rest)
    return fixed


def _module_names(tree: ast.Module) -> set:
    out = set()
    for n in tree.body:
        for m in ([n] if not isinstance(n, (ast.If, ast.Try, ast.With, ast.For, ast.While)) else ast.walk(n)):
            if isinstance(m, (ast.FunctionDef, ast.AsyncFunctionDef, ast.ClassDef)):
                out.add(m.name)
            elif isinstance(m, (ast.Import, ast.ImportFrom)):
                out |= {(al.asname or al.name).split(".")[0] for al in m.names}
            elif isinstance(m, (ast.Assign, ast.AnnAssign, ast.AugAssign)):
                for t in ast.walk(m):
                    if isinstance(t, ast.Name) and isinstance(t.ctx, ast.Store):
                        out.add(t.id)
    return out


def candidates(fn: ast.AST, module_names: set) -> set:
    bound = {n.id for n in ast.walk(fn) if isinstance(n, ast.Name) and isinstance(n.ctx, (ast.Store, ast.Del))}
    return bound - _fixed_names(fn) - module_names - _BUILTINS


def _reflective(fn: ast.AST) -> bool:
    for n in ast.walk(fn):
        if isinstance(n, ast.Call) and isinstance(n.func, ast.Name):
            if n.func.id in ("locals", "vars", "globals", "dir") and not n.args:
                return True
            if n.func.id in ("eval", "exec") and len(n.args) + len(n.keywords) < 2:
                return True
    return False


_HEADS = {ast.For: ("target", "iter"), ast.AsyncFor: ("target", "iter"), ast.While: ("test",), ast.If: ("test",),
          ast.With: ("items",), ast.AsyncWith: ("items",), ast.Try: (), ast.FunctionDef: ("args", "decorator_list"),
          ast.AsyncFunctionDef: ("args", "decorator_list"), ast.ClassDef: ("bases",), ast.ExceptHandler: ("type",), ast.Match: ("subject",)}


def _statements(fn: ast.AST):
    """Statements of the unit in document order (pre-order); compound statements contribute their header only."""
    out = []

    def visit(stmts):
        for st in stmts:
            out.append(st)
            for f_ in ("body", "handlers", "orelse", "finalbody"):
                sub = getattr(st, f_, None)
                if isinstance(sub, list) and sub and isinstance(sub[0], (ast.stmt, ast.ExceptHandler)):
                    visit(sub)
            if isinstance(st, ast.Match):
                for c in st.cases:
                    visit(c.body)
    visit(fn.body)
    return out


def _skeleton(stmt: ast.AST, cands: set):
    """(text of the statement (header) with candidate locals blanked, the blanked identifiers in order of occurrence)"""
    names = []
    parts = [type(stmt).__name__]

    def dump(x):
        if isinstance(x, list):
            for y in x:
                dump(y)
            return
        if not isinstance(x, ast.AST):
            parts.append(repr(x))
            return
        if isinstance(x, ast.Name):
            if x.id in cands:
                names.append(x.id)
                parts.append("§")
            else:
                parts.append(x.id)
            return
        parts.append(type(x).__name__ + "(")
        for f_, v in ast.iter_fields(x):
            if f_ in ("ctx", "type_comment", "lineno", "col_offset", "end_lineno", "end_col_offset", "kind", "returns", "annotation"):
                continue
            if isinstance(v, (ast.AST, list)):
                dump(v)
            elif v is not None:
                parts.append(f"{f_}={v!r}")
        parts.append(")")

    heads = _HEADS.get(type(stmt))
    if heads is None:
        for f_, v in ast.iter_fields(stmt):
            if f_ in ("type_comment", "annotation"):
                continue
            dump(v) if isinstance(v, (ast.AST, list)) else parts.append(f"{f_}={v!r}")
    else:
        if isinstance(stmt, (ast.FunctionDef, ast.AsyncFunctionDef, ast.ClassDef)):
            parts.append(stmt.name)
        if isinstance(stmt, ast.ExceptHandler):
            parts.append(str(stmt.name))
        for f_ in heads:
            dump(getattr(stmt, f_))
    return " ".join(parts), names


def unit_table(fn: ast.AST, cands: set):
    return [_skeleton(s, cands) for s in _statements(fn)]


def unit_digest(fn: ast.AST) -> str:
    return hashlib.sha256(ast.dump(fn, annotate_fields=False, include_attributes=False).encode()).hexdigest()[:16]


def build_reference(pkg: Path, modules) -> dict:
    ref = {}
    for mod in modules:
        if mod in SKIP_MODULES:
            continue
        tree = ast.parse((pkg / f"{mod}.py").read_text())
        mn = _module_names(tree)
        ref[mod] = {}
        for qual, fn in units(tree):
            c = candidates(fn, mn)
            ref[mod][qual] = {"digest": unit_digest(fn), "locals": sorted(c), "statements": [[sk, nm] for sk, nm in unit_table(fn, c)]}
    return ref


_REF_CACHE = None


def reference() -> dict:
    global _REF_CACHE
    if _REF_CACHE is None:
        _REF_CACHE = json.loads(REF_PATH.read_text()) if REF_PATH.exists() else {}
    return _REF_CACHE


def rename_back(tree: ast.Module, module: str) -> list:
    """Rename locals of the units of `tree` to the reference spelling where the alignment is unambiguous.  Returns the list of
    (unit, found name, reference name) applied.  Must run before parent links / other normalisations are computed on names."""
    ref = reference().get(module)
    if not ref or module in SKIP_MODULES:
        return []
    applied = []
    mn = _module_names(tree)
    for qual, fn in units(tree):
        r = ref.get(qual)
        if r is None or r["digest"] == unit_digest(fn) or _reflective(fn):
            continue
        cands = candidates(fn, mn)
        if not cands:
            continue
        cur = unit_table(fn, cands)
        refst = r["statements"]
        sm = difflib.SequenceMatcher(a=[s for s, _ in refst], b=[s for s, _ in cur], autojunk=False)
        votes = {}
        for tag, i1, i2, j1, j2 in sm.get_opcodes():
            if tag != "equal":
                continue
            for k in range(i2 - i1):
                rn, cn = refst[i1 + k][1], cur[j1 + k][1]
                if len(rn) != len(cn):
                    continue
                for a, b in zip(rn, cn):
                    votes.setdefault(b, {}).setdefault(a, 0)
                    votes[b][a] += 1
        # identifiers that occur anywhere in the unit (any role)
        present = {n.id for n in ast.walk(fn) if isinstance(n, ast.Name)} | _fixed_names(fn)
        mapping = {}
        for c, vs in votes.items():
            if len(vs) != 1:
                continue
            (rname, _cnt), = vs.items()
            if rname == c or c not in cands:
                continue
            if rname in present or rname in mn or rname in _BUILTINS:
                continue
            mapping[c] = rname
        # bijective: two found names must not go to the same reference name
        targets = {}
        for c, rname in mapping.items():
            targets.setdefault(rname, []).append(c)
        mapping = {c: rname for c, rname in mapping.items() if len(targets[rname]) == 1}
        if not mapping:
            continue
        for n in ast.walk(fn):
            if isinstance(n, ast.Name) and n.id in mapping:
                n.id = mapping[n.id]
        applied += [(qual, c, rname) for c, rname in sorted(mapping.items())]
    return applied
