"""E9 -- translation validation of the DSL compiler's output (C09).

The repo's own ``_parse_algorithm`` is asked (in a subprocess, from the tree under
analysis) for the generated ``series_eval`` module ASTs.  They are never executed:
each is interpreted *abstractly* per index class {diagonal, upper, lower} x
{offdiag given / not} x flag mode into a linear combination of term references,
and compared with a reference translation of the same program made by the
independent DSL reader (sv/dsl.py) from the documented semantics.
"""

from __future__ import annotations

import ast
import json
import os
import subprocess
import sys
import textwrap
from fractions import Fraction as Fr
from itertools import product as iproduct

from .core import AnalysisError, Repo, Report, call_name, norm
from .dsl import Program, read_program

RULE = "E9"
SWAPPED = "(index[1], index[0], *index[2:])"

HELPER = r'''
import ast, json, sys, importlib.util, tempfile, os, inspect, textwrap
root = sys.argv[1]
sys.path.insert(0, root)
from pymablock import algorithm_parsing as ap
from pymablock import algorithms
out = {}
def dump(func):
    series, products, outputs = ap._parse_algorithm(func)
    return {
        "series": [{"name": s.name, "start": s.start, "src": ast.unparse(s.definition)} for s in series],
        "products": [{"terms": list(p.terms), "hermitian": bool(p.hermitian)} for p in products],
        "outputs": list(outputs),
    }
for name in ("main", "nonhermitian"):
    try:
        out[name] = dump(getattr(algorithms, name))
    except Exception as e:
        out[name] = {"error": f"{type(e).__name__}: {e}"}
doc = ap.series_computation.__doc__ or ""
marker = ".. code-block:: python"
if marker in doc:
    body = doc.split(marker, 1)[1]
    lines = body.split("\n")
    code = []
    started = False
    for ln in lines[1:]:
        if not started and not ln.strip():
            continue
        if ln.strip() and not ln.startswith(" " * 8) and started:
            break
        started = True
        code.append(ln)
    src = textwrap.dedent("\n".join(code)).rstrip() + "\n"
    d = tempfile.mkdtemp()
    path = os.path.join(d, "sv_doc_example.py")
    open(path, "w").write("# type: ignore\n" + src)
    spec = importlib.util.spec_from_file_location("sv_doc_example", path)
    mod = importlib.util.module_from_spec(spec)
    try:
        spec.loader.exec_module(mod)
        fn = [v for k, v in vars(mod).items() if inspect.isfunction(v)][0]
        out["doc_example"] = dump(fn)
        out["doc_example"]["source"] = src
    except Exception as e:
        out["doc_example"] = {"error": f"{type(e).__name__}: {e}", "source": src}
    finally:
        import shutil; shutil.rmtree(d, ignore_errors=True)
if len(sys.argv) > 2:
    spec = importlib.util.spec_from_file_location("sv_corpus", sys.argv[2])
    mod = importlib.util.module_from_spec(spec)
    spec.loader.exec_module(mod)
    for k, fn in sorted(vars(mod).items()):
        if k.startswith("prog_") and inspect.isfunction(fn):
            try:
                out["corpus:" + k] = dump(fn)
            except Exception as e:
                out["corpus:" + k] = {"error": f"{type(e).__name__}: {e}"}
json.dump(out, sys.stdout)
'''


_COMPILER_CACHE: dict = {}


def compiler_output(repo: Repo, corpus_path: str | None = None) -> dict:
    key = (str(repo.root), repo.digest(), corpus_path)
    if key not in _COMPILER_CACHE:
        _COMPILER_CACHE[key] = _compiler_output(repo, corpus_path)
    return _COMPILER_CACHE[key]


def _compiler_output(repo: Repo, corpus_path: str | None = None) -> dict:
    env = dict(os.environ, PYTHONPATH=str(repo.root), PYTHONDONTWRITEBYTECODE="1")
    argv = [sys.executable, "-c", HELPER, str(repo.root)] + ([corpus_path] if corpus_path else [])
    p = subprocess.run(argv, capture_output=True, text=True, cwd=str(repo.root), env=env, timeout=300)
    if p.returncode != 0:
        raise AnalysisError(RULE, f"the repository's compiler could not be queried: {p.stderr.strip()[-400:]}")
    return json.loads(p.stdout)


# ---------------------------------------------------------------------------
# abstract values: linear combinations of atomic terms
# ---------------------------------------------------------------------------


def lc_add(*xs):
    out = {}
    for x in xs:
        for k, c in x.items():
            v = out.get(k, 0) + c
            if v == 0:
                out.pop(k, None)
            else:
                out[k] = v
    return out


def lc_scale(x, c):
    return {k: v * c for k, v in x.items()} if c else {}


def lc_freeze(x):
    return tuple(sorted(((k, str(c)) for k, c in x.items()), key=repr))


def lc_show(x) -> str:
    def term(k):
        if k[0] == "ref":
            _, name, adj, sw = k
            s = f'"{name}"' + (".adj" if adj else "") + ("@swapped" if sw else "")
            return s
        if k[0] == "badcall":
            return f"<malformed call `{k[2]}`>"
        if k[0] == "call":
            _, f, arg = k
            if arg and arg[0] == "series":
                return f'{f}(<series "{arg[1]}">, index)'
            return f"{f}({' + '.join(f'{c}*{term(kk)}' for kk, c in arg[1])}, index)"
        return repr(k)
    return " + ".join(f"{c}*{term(k)}" for k, c in sorted(x.items(), key=repr)) or "0"


# ---------------------------------------------------------------------------
# abstract interpretation of the generated series_eval
# ---------------------------------------------------------------------------


class Disagreement(Exception):
    """The generated code is understood and is not what the definition says."""


def helper_denotation(f: ast.FunctionDef, n_var: int = 0):
    """What a module-level helper of the compiler computes from its arguments, as a linear combination of them: every path is
    run with symbolic arguments, `X is zero` tests split the paths (on the true side X contributes nothing), every other test
    is explored both ways, and all paths must agree with the generic one once their zero-facts are applied.  In-place updates
    of a local name (`total += term`) count as the value they produce: aliasing is E4's business, not the translation's.
    -> (number of parameters, {parameter position or 1: coefficient}); AnalysisError when the body is outside this language."""
    params = [a.arg for a in f.args.args]
    if f.args.kwonlyargs or f.args.kwarg or f.args.posonlyargs or (f.args.vararg and params):
        raise AnalysisError(RULE, f"helper {f.name}: signature not understood")
    vararg = f.args.vararg.arg if f.args.vararg else None
    var_items = list(range(n_var)) if vararg else []
    n_par = len(params) if not vararg else n_var
    env_start = {p_: {("param", i): Fr(1)} for i, p_ in enumerate(params)}
    results = []  # (frozenset of parameters known to be zero, value)

    def ev(e, env):
        if isinstance(e, ast.Name):
            if e.id == "zero":
                return {}
            if e.id in env:
                return dict(env[e.id])
            raise AnalysisError(RULE, f"helper {f.name}: free name `{e.id}`")
        if isinstance(e, ast.BinOp) and isinstance(e.op, (ast.Add, ast.Sub)):
            r = ev(e.right, env)
            return lc_add(ev(e.left, env), r if isinstance(e.op, ast.Add) else lc_scale(r, Fr(-1)))
        if isinstance(e, ast.UnaryOp) and isinstance(e.op, ast.USub):
            return lc_scale(ev(e.operand, env), Fr(-1))
        if isinstance(e, ast.Call) and call_name(e) == "_zero_sum" and not e.keywords and not any(isinstance(a, ast.Starred) for a in e.args):
            return lc_add(*(ev(a, env) for a in e.args))
        if isinstance(e, ast.IfExp) and zero_test(e.test) is not None and zero_test(e.test)[0] in env:
            name, pol = zero_test(e.test)
            z_arm, nz_arm = (e.body, e.orelse) if pol else (e.orelse, e.body)
            cur = env[name]
            if cur == {}:
                return ev(z_arm, env)
            nz = ev(nz_arm, env)
            if len(cur) == 1 and next(iter(cur))[0] == "param" and cur == {next(iter(cur)): Fr(1)}:
                # undecided whether this argument is the sentinel: both arms must agree once it contributes nothing
                z = ev(z_arm, {**env, name: {}})
                k_ = next(iter(cur))
                if z != {kk: c for kk, c in nz.items() if kk != k_}:
                    raise AnalysisError(RULE, f"helper {f.name}: `{norm(e)[:60]}` gives different values for a zero and a non-zero argument")
            return nz
        raise AnalysisError(RULE, f"helper {f.name}: expression `{norm(e)[:60]}` not understood")

    def zero_test(t):
        """-> (parameter, polarity) for `P is zero` / `P is not zero` on an unmodified parameter"""
        pol = True
        while isinstance(t, ast.UnaryOp) and isinstance(t.op, ast.Not):
            t, pol = t.operand, not pol
        if isinstance(t, ast.Compare) and len(t.ops) == 1 and isinstance(t.ops[0], (ast.Is, ast.IsNot)) and norm(t.comparators[0]) == "zero" \
                and isinstance(t.left, ast.Name):
            return t.left.id, pol == isinstance(t.ops[0], ast.Is)
        return None

    budget = [400]

    def run(stmts, env, zeros, k_end, k_continue=None):
        """continuation style: `k_end(env, zeros)` when the statements are exhausted, `k_continue(env, zeros)` on `continue`"""
        budget[0] -= 1
        if budget[0] < 0:
            raise AnalysisError(RULE, f"helper {f.name}: too many paths")
        if not stmts:
            return k_end(env, zeros)
        s, rest = stmts[0], list(stmts[1:])
        if isinstance(s, ast.Expr) and isinstance(s.value, ast.Constant):
            return run(rest, env, zeros, k_end, k_continue)
        if isinstance(s, ast.Return):
            if s.value is None:
                raise AnalysisError(RULE, f"helper {f.name}: returns nothing on some path")
            results.append((frozenset(zeros), ev(s.value, env)))
            return
        if isinstance(s, ast.Continue) and k_continue is not None:
            return k_continue(env, zeros)
        if isinstance(s, ast.Assign) and len(s.targets) == 1 and isinstance(s.targets[0], ast.Name):
            return run(rest, {**env, s.targets[0].id: ev(s.value, env)}, zeros, k_end, k_continue)
        if isinstance(s, ast.AugAssign) and isinstance(s.target, ast.Name) and isinstance(s.op, (ast.Add, ast.Sub)):
            r = ev(s.value, env)
            new = lc_add(ev(s.target, env), r if isinstance(s.op, ast.Add) else lc_scale(r, Fr(-1)))
            return run(rest, {**env, s.target.id: new}, zeros, k_end, k_continue)
        if isinstance(s, ast.For) and not s.orelse and isinstance(s.target, ast.Name) and isinstance(s.iter, ast.Name) and s.iter.id == vararg:
            items = list(var_items)

            def loop(i, env_, zeros_):
                if i == len(items):
                    return run(rest, env_, zeros_, k_end, k_continue)
                nxt = lambda e_, z_: loop(i + 1, e_, z_)
                return run(list(s.body), {**env_, s.target.id: {("param", items[i]): Fr(1)}, "__item__" + s.target.id: items[i]}, zeros_, nxt, nxt)
            return loop(0, env, zeros)
        if isinstance(s, ast.If):
            zt = zero_test(s.test)
            cont = lambda body: run(list(body) + rest, env, zeros, k_end, k_continue)
            if zt is not None and env.get(zt[0]) is not None and len(env[zt[0]]) == 1 and next(iter(env[zt[0]]))[0] == "param" \
                    and env[zt[0]] == {next(iter(env[zt[0]])): Fr(1)}:
                name, pol = zt
                pidx = next(iter(env[name]))[1]
                z_side, nz_side = (s.body, s.orelse) if pol else (s.orelse, s.body)
                if ("NZ", pidx) in zeros:
                    return cont(nz_side)
                run(list(z_side) + rest, {**env, name: {}}, zeros | {("P", pidx)}, k_end, k_continue)
                run(list(nz_side) + rest, env, zeros | {("NZ", pidx)}, k_end, k_continue)
                return
            if zt is not None and env.get(zt[0]) == {}:
                # a local that is (still) the zero sentinel
                return cont(s.body if zt[1] else s.orelse)
            if zt is not None and env.get(zt[0]):
                # a local holding a genuine (non-sentinel) combination: on the paths explored here its terms are not zero
                return cont(s.orelse if zt[1] else s.body)
            cont(s.body)
            cont(s.orelse)
            return
        raise AnalysisError(RULE, f"helper {f.name}: statement `{norm(s)[:60]}` not understood")

    def fell_off(env, zeros):
        raise AnalysisError(RULE, f"helper {f.name}: a path ends without return")

    run(list(f.body), env_start, frozenset(), fell_off)
    generic = [v for z, v in results if not any(t_ == "P" for t_, _i in z)]
    if not generic or any(v != generic[0] for v in generic):
        raise AnalysisError(RULE, f"helper {f.name}: its paths do not compute one linear combination of the arguments")
    den = generic[0]
    for z, v in results:
        want = {k: c for k, c in den.items() if not (k[0] == "param" and ("P", k[1]) in z)}
        if v != want:
            raise AnalysisError(RULE, f"helper {f.name}: the path on which arguments {sorted(i for t_, i in z if t_ == 'P')} are the zero sentinel "
                                      "returns something else than the general path")
    if any(k[0] != "param" for k in den):
        raise AnalysisError(RULE, f"helper {f.name}: denotation outside the arguments")
    return n_par, {k[1]: c for k, c in den.items()}


def compiler_helpers(repo: Repo) -> dict:
    """Module-level functions of algorithm_parsing.py that the exec scope of the generated code binds under their own name."""
    entries = exec_scope_table(repo, RULE)[0]
    defs = {n.name: n for n in repo.trees["algorithm_parsing"].body if isinstance(n, ast.FunctionDef)}
    return {k: defs[k] for k, v in entries.items() if isinstance(v, ast.Name) and v.id == k and k in defs and k not in ("_zero_sum", "_safe_divide")}


class GenInterp:
    helpers: dict = {}  # module-level functions of algorithm_parsing.py by name (set by the rules that use the interpreter)

    def __init__(self, cls: str, offdiag_given: bool, flags: dict, where: str):
        self.cls, self.og, self.flags, self.where = cls, offdiag_given, flags, where
        self.deletes = []
        self.header_ok = False

    def test(self, t: ast.AST):
        if isinstance(t, ast.BoolOp):
            vals = [self.test(v) for v in t.values]
            return all(vals) if isinstance(t.op, ast.And) else any(vals)
        if isinstance(t, ast.UnaryOp) and isinstance(t.op, ast.Not):
            return not self.test(t.operand)
        if isinstance(t, ast.Compare) and len(t.ops) == 1:
            l, r, op = norm(t.left), norm(t.comparators[0]), t.ops[0]
            rep = {"diagonal": (1, 1), "upper": (0, 1), "lower": (1, 0)}[self.cls]
            val = {"index[0]": rep[0], "index[1]": rep[1]}
            if l in val and r in val:
                a, b = val[l], val[r]
                fn = {ast.Eq: a == b, ast.NotEq: a != b, ast.Gt: a > b, ast.GtE: a >= b, ast.Lt: a < b, ast.LtE: a <= b}.get(type(op))
                if fn is not None:
                    return fn
            if l == "offdiag" and r == "None" and isinstance(op, (ast.Is, ast.IsNot)):
                return (not self.og) if isinstance(op, ast.Is) else self.og
        raise AnalysisError(RULE, f"{self.where}: generated test `{norm(t)}` not understood")

    def flag(self, t: ast.AST) -> bool:
        txt = norm(t)
        if txt == "two_block_optimized":
            return self.flags["two_block_optimized"]
        if txt == "commuting_blocks[index[0]]":
            return self.flags["commuting_blocks"]
        if isinstance(t, ast.UnaryOp) and isinstance(t.op, ast.Not):
            return not self.flag(t.operand)
        from .dsl import _aggregate_form
        agg = _aggregate_form(t)
        if agg is not None:
            # a test over ALL blocks: evaluated in the configuration where every block carries the row block's flag (a feasible
            # configuration, so nothing found there is a false alarm; E1 decides the mixed configurations)
            return self.flags["commuting_blocks"] if agg[1] else not self.flags["commuting_blocks"]
        raise AnalysisError(RULE, f"{self.where}: flag `{txt}` not understood")

    def index_form(self, sl: ast.AST) -> bool:
        """-> swapped?"""
        txt = norm(sl)
        if txt == "index":
            return False
        if isinstance(sl, ast.Tuple) and len(sl.elts) == 3 and isinstance(sl.elts[2], ast.Starred) and norm(sl.elts[2].value) == "index[2:]":
            a, b = norm(sl.elts[0]), norm(sl.elts[1])
            if (a, b) == ("index[1]", "index[0]"):
                return self.cls != "diagonal"
            if (a, b) == ("index[0]", "index[1]"):
                return False
            if a in ("index[0]", "index[1]") and b in ("index[0]", "index[1]"):
                raise Disagreement(f"block index ({a}, {b}) is neither the requested block nor its transpose")
        raise AnalysisError(RULE, f"{self.where}: index expression `{txt}` not understood")

    def ev(self, e: ast.AST):
        if isinstance(e, ast.Name):
            if e.id == "zero":
                return {}
            if e.id == "result":
                return dict(self.result)
            raise AnalysisError(RULE, f"{self.where}: free name `{e.id}` in generated code")
        if isinstance(e, ast.UnaryOp) and isinstance(e.op, ast.USub):
            return lc_scale(self.ev(e.operand), Fr(-1))
        if isinstance(e, ast.IfExp):
            return self.ev(e.body if self.flag(e.test) else e.orelse)
        if isinstance(e, ast.Subscript):
            # which['X'][index]
            inner = e.value
            if isinstance(inner, ast.Subscript) and norm(inner.value) == "which" and isinstance(inner.slice, ast.Constant):
                return {("ref", inner.slice.value, False, self.index_form(e.slice)): Fr(1)}
            raise AnalysisError(RULE, f"{self.where}: subscript `{norm(e)}` not understood")
        if isinstance(e, ast.Call):
            name = call_name(e)
            if name == "_zero_sum":
                return lc_add(*(self.ev(a) for a in e.args))
            if name == "_safe_divide":
                d = e.args[1]
                neg = False
                if isinstance(d, ast.UnaryOp) and isinstance(d.op, ast.USub):
                    neg, d = True, d.operand
                if not (isinstance(d, ast.Constant) and isinstance(d.value, int) and d.value != 0):
                    raise Disagreement(f"division by `{norm(e.args[1])[:60]}` (the definition divides by an integer constant)")
                return lc_scale(self.ev(e.args[0]), Fr(1, -d.value if neg else d.value))
            if name == "Dagger" and len(e.args) == 1:
                inner = self.ev(e.args[0])
                out = {}
                for k, c in inner.items():
                    if k[0] != "ref":
                        raise AnalysisError(RULE, f"{self.where}: Dagger of a non-reference")
                    out[("ref", k[1], not k[2], k[3])] = c
                return out
            if name in self.helpers and not e.keywords and not any(isinstance(a, ast.Starred) for a in e.args):
                # a helper of the compiler itself: what it computes is read from its definition
                n_par, den = helper_denotation(self.helpers[name])
                if len(e.args) != n_par:
                    raise Disagreement(f"helper {name} takes {n_par} arguments, the generated code passes {len(e.args)}")
                vals = [self.ev(a) for a in e.args]
                return lc_add(*(lc_scale(vals[i], c) for i, c in den.items()))
            if name is not None and "." not in name:
                # scope function: f(arg, index) -- index must be passed exactly once, last
                if not e.args or norm(e.args[-1]) != "index" or e.keywords:
                    return {("badcall", name, norm(e)): Fr(1)}
                args = e.args[:-1]
                if len(args) != 1:
                    return {("badcall", name, norm(e)): Fr(1)}
                a = args[0]
                if isinstance(a, ast.Subscript) and norm(a.value) == "which" and isinstance(a.slice, ast.Constant):
                    return {("call", name, ("series", a.slice.value)): Fr(1)}
                return {("call", name, ("value", lc_freeze(self.ev(a)))): Fr(1)}
        raise AnalysisError(RULE, f"{self.where}: generated expression `{norm(e)[:80]}` not understood")

    def run(self, func: ast.FunctionDef):
        self.result = {}
        body = func.body
        if not (func.args.vararg and func.args.vararg.arg == "index" and not func.args.args):
            raise AnalysisError(RULE, f"{self.where}: series_eval signature")
        self.header_ok = len(body) >= 2 and norm(body[0]) == \
            "which = linear_operator_series if use_linear_operator[index[:2]] else series" and norm(body[1]) == "result = zero"
        return self._block(body[2:] if self.header_ok else body)

    def _block(self, stmts):
        for s in stmts:
            if isinstance(s, ast.If):
                if self.test(s.test):
                    r = self._block(s.body)
                    if r is not None:
                        return r
                elif s.orelse:
                    r = self._block(s.orelse)
                    if r is not None:
                        return r
                continue
            if isinstance(s, ast.Assign) and norm(s.targets[0]) == "result":
                self.result = self.ev(s.value)
                continue
            if isinstance(s, ast.Pass):
                continue
            if isinstance(s, ast.Try) and not s.handlers and not s.orelse:
                # value semantics on the path without exception: the body, then the finally block (a `return` there wins);
                # what the construct does to an exception in flight is E9.exceptions' business
                r = self._block(s.body)
                r2 = self._block(s.finalbody)
                if r2 is not None:
                    return r2
                if r is not None:
                    return r
                continue
            if isinstance(s, ast.Expr) and isinstance(s.value, ast.Call) and call_name(s.value) == "del_":
                a = s.value.args
                self.deletes.append((a[0].value, self.index_form(a[1])))
                continue
            if isinstance(s, ast.Return):
                if norm(s.value) != "result":
                    raise AnalysisError(RULE, f"{self.where}: return `{norm(s.value)}`")
                return dict(self.result)
            raise AnalysisError(RULE, f"{self.where}: generated statement `{norm(s)[:80]}` not understood")
        return None


# ---------------------------------------------------------------------------
# reference translation from the DSL IR
# ---------------------------------------------------------------------------


def ref_expr(e, cls, flags, where):
    k = e[0]
    if k == "zero":
        return {}
    if k == "ref":
        _, name, adj = e
        return {("ref", name, adj, adj and cls != "diagonal"): Fr(1)}
    if k == "add":
        return lc_add(*(ref_expr(x, cls, flags, where) for x in e[1]))
    if k == "neg":
        return lc_scale(ref_expr(e[1], cls, flags, where), Fr(-1))
    if k == "scale":
        return lc_scale(ref_expr(e[2], cls, flags, where), e[1])
    if k == "ifexp":
        return ref_expr(e[2] if flags[e[1]] else e[3], cls, flags, where)
    if k == "call":
        _, f, args = e
        if len(args) != 1:
            raise AnalysisError(RULE, f"{where}: scope function with {len(args)} arguments")
        a = args[0]
        if a[0] == "ref" and not a[2]:
            return {("call", f, ("series", a[1])): Fr(1)}  # f("S") -> f(series, index)
        return {("call", f, ("value", lc_freeze(ref_expr(a, cls, flags, where)))): Fr(1)}
    raise AnalysisError(RULE, f"{where}: reference translation of {k}")


def reference(prog: Program, sname: str, cls: str, og: bool, flags: dict):
    s = prog.series[sname]
    where = f"{prog.name}::{sname}"
    if s.marker and cls == "lower":
        sign = Fr(1) if s.marker == "hermitian" else Fr(-1)
        return {("ref", sname, True, True): sign}
    total = {}
    for b in s.branches:
        if b.cond == "default":
            total = lc_add(total, ref_expr(b.expr, cls, flags, where))
        elif b.cond == "diagonal":
            if cls == "diagonal":
                inner = b.expr
                total = lc_add(total, ref_expr(("call", "diag", [inner]), cls, flags, where))
        elif b.cond == "offdiagonal":
            if cls != "diagonal":
                total = lc_add(total, ref_expr(b.expr, cls, flags, where))
            elif og:
                total = lc_add(total, ref_expr(("call", "offdiag", [b.expr]), cls, flags, where))
        elif b.cond == "lower":
            if cls == "lower":
                return ref_expr(b.expr, cls, flags, where)
    return total


START_KEY = {0: "zero_data", 1: "identity_data", None: None}


def data_table(repo: Repo):
    """The `data` table of series_computation in one normal form, whether its per-input entries are written as a dict
    comprehension spread into the literal or filled by nested loops after it:
    -> (table assignment, {constant key: value AST}, [(key f-string, value AST, [(target AST, iterable AST), ...])])."""
    sc = repo.find("algorithm_parsing::series_computation", RULE)
    find_tables = lambda f_: [n for n in ast.walk(f_) if isinstance(n, ast.Assign) and isinstance(n.value, ast.Dict) and isinstance(n.targets[0], ast.Name)
                              and any(isinstance(k, ast.Constant) and k.value == "zero_data" for k in n.value.keys if k is not None)]
    tables = find_tables(sc)
    if not tables:
        # the table may be built by an extracted helper: look at the function with such helpers seen through
        sc = repo.find_expanded("algorithm_parsing::series_computation", RULE)
        tables = find_tables(sc)
    data_table.host = sc
    if len(tables) != 1:
        raise AnalysisError(RULE, "series_computation: `data` table (with a `zero_data` entry) not found")
    tab = tables[0]
    name = tab.targets[0].id
    consts, dyn = {}, []
    for k, v in zip(tab.value.keys, tab.value.values):
        if isinstance(k, ast.Constant) and isinstance(k.value, str):
            consts[k.value] = v
        elif k is None and isinstance(v, ast.DictComp) and isinstance(v.key, ast.JoinedStr):
            dyn.append((v.key, v.value, [(g.target, g.iter) for g in v.generators]))
            if any(g.ifs for g in v.generators):
                raise AnalysisError(RULE, "series_computation: filtered data table comprehension not understood")
        elif k is None:
            raise AnalysisError(RULE, "series_computation: data table entry not understood")
        else:
            raise AnalysisError(RULE, f"series_computation: data table key `{norm(k)[:40]}` not understood")
    # entries added by loops: for T1 in I1: [for T2 in I2:] data[f"..."] = V
    from .core import own_nodes
    for st in own_nodes(sc):
        if isinstance(st, ast.Assign) and isinstance(st.targets[0], ast.Subscript) and norm(st.targets[0].value) == name:
            key = st.targets[0].slice
            gens, p_, plain = [], getattr(st, "_parent", None), True
            while p_ is not None and p_ is not sc:
                if isinstance(p_, ast.For):
                    gens.insert(0, (p_.target, p_.iter))
                    if len(p_.body) != 1:
                        plain = False
                elif isinstance(p_, (ast.If, ast.While, ast.Try, ast.With)):
                    plain = False
                p_ = getattr(p_, "_parent", None)
            if isinstance(key, ast.Constant) and isinstance(key.value, str) and not gens:
                consts[key.value] = st.value
            elif isinstance(key, ast.JoinedStr) and gens and plain:
                dyn.append((key, st.value, gens))
            else:
                raise AnalysisError(RULE, f"series_computation: store `{norm(st.targets[0])[:50]}` into the data table not understood")
    return tab, consts, dyn


def data_key_patterns(repo: Repo):
    """Keys of the `data` table of series_computation: (constant keys, suffix patterns for input series)."""
    _tab, cmap, dyn = data_table(repo)
    consts, patterns = set(cmap), set()
    for key, _v, gens in dyn:
        if not (isinstance(gens[0][1], ast.Call) and norm(gens[0][1].func) == "series.items" and isinstance(gens[0][0], ast.Tuple)):
            raise AnalysisError(RULE, "series_computation: data table entries of the inputs do not iterate series.items()")
        name_var = norm(gens[0][0].elts[0])
        extra = {}
        for tgt, it in gens[1:]:
            if isinstance(tgt, ast.Name) and isinstance(it, (ast.Tuple, ast.List)) and all(
                    isinstance(e, ast.Constant) and isinstance(e.value, str) for e in it.elts):
                extra[tgt.id] = [e.value for e in it.elts]
            else:
                raise AnalysisError(RULE, "series_computation: data table comprehension form not understood")
        combos = [{}]
        for var, vals in extra.items():
            combos = [dict(c, **{var: x}) for c in combos for x in vals]
        for c in combos:
            parts, ok_name = "", False
            for piece in key.values:
                if isinstance(piece, ast.Constant):
                    parts += piece.value
                elif isinstance(piece, ast.FormattedValue) and norm(piece.value) == name_var and not parts:
                    ok_name = True
                elif isinstance(piece, ast.FormattedValue) and norm(piece.value) in c:
                    parts += c[norm(piece.value)]
                else:
                    raise AnalysisError(RULE, "series_computation: data key f-string not understood")
            if ok_name:
                patterns.add(parts)
    return consts, patterns


def rule_translation(rep: Report, repo: Repo, which=("main", "nonhermitian", "doc_example")):
    GenInterp.helpers = compiler_helpers(repo)
    out = compiler_output(repo)
    programs = 0
    checked = 0
    for pname in which:
        data = out.get(pname)
        if data is None:
            raise AnalysisError(RULE, f"program {pname} missing from the compiler query")
        if pname == "doc_example":
            src = data.get("source")
            if not src:
                raise AnalysisError(RULE, "documented example not found in series_computation.__doc__")
            func = ast.parse(src).body[0]
            loc = repo.rel("algorithm_parsing") + ":(docstring example)"
        else:
            func = repo.find(f"algorithms::{pname}", RULE)
            loc = repo.loc("algorithms", func)
        if "error" in data:
            rep.fail(RULE, f"{pname}: the compiler rejects the program: {data['error']}", "", loc)
            continue
        prog = read_program(func)
        programs += 1
        flags_used = prog.flags()
        modes = [{"two_block_optimized": False, "commuting_blocks": False}]
        if flags_used:
            modes += [{"two_block_optimized": False, "commuting_blocks": True},
                      {"two_block_optimized": True, "commuting_blocks": True},
                      {"two_block_optimized": True, "commuting_blocks": False}]
        gen = {s["name"]: s for s in data["series"]}
        # structure: same series, products, outputs
        rep.check(set(gen) == set(prog.series), RULE, f"{pname}: compiled series set equals the defined series",
                  f"compiled {sorted(gen)}; defined {sorted(prog.series)}", loc)
        gp = {" @ ".join(p["terms"]): p["hermitian"] for p in data["products"]}
        rp = {n: p.hermitian for n, p in prog.products.items()}
        rep.check(gp == rp, RULE, f"{pname}: declared products and their hermitian flags", f"compiled {gp}; defined {rp}", loc)
        rep.check(data["outputs"] == prog.outputs, RULE, f"{pname}: outputs", f"{data['outputs']} vs {prog.outputs}", loc)
        inputs = prog.inputs()
        for sname, s in prog.series.items():
            if sname not in gen:
                continue
            g = gen[sname]
            # start value -> data key
            want_start = START_KEY.get(s.start, f"{s.start}_data" if isinstance(s.start, str) else None)
            rep.check(g["start"] == want_start, RULE, f"{pname}::{sname} start value maps to data key `{want_start}`",
                      f"compiled key {g['start']!r}", loc)
            if isinstance(s.start, str):
                # the key must exist in series_computation's data table
                consts, patterns = data_key_patterns(repo)
                key = f"{s.start}_data"
                ok = key in consts or any(key == n + p for n in inputs for p in patterns)
                inst = f"{pname}::{sname} start = \"{s.start}\" names the zeroth order of an input series"
                if ok:
                    rep.ok(RULE, inst, f"data key `{key}` is defined (input key patterns <name> + {sorted(patterns)})", loc)
                else:
                    rep.fail(RULE, f"{pname}::{sname} start = \"{s.start}\" resolves to data key `{key}` which series_computation never defines",
                             f"documented form `start = \"series_name\"`; defined keys: {sorted(consts)} and <input> + {sorted(patterns)}, "
                             "so the series silently starts without pinned data", loc)
            try:
                gfunc = ast.parse(g["src"]).body[0]
            except SyntaxError as e:
                raise AnalysisError(RULE, f"{pname}::{sname}: generated code does not parse: {e}")
            header_checked = False
            for flags in modes:
                for cls in ("diagonal", "upper", "lower"):
                    for og in (False, True):
                        where = f"{pname}::{sname}[{cls},offdiag={'given' if og else 'None'}]"
                        gi = GenInterp(cls, og, flags, where)
                        want = reference(prog, sname, cls, og, flags)
                        checked += 1
                        try:
                            got = gi.run(gfunc)
                        except Disagreement as dis:
                            branch = {"diagonal": "diagonal", "upper": "offdiagonal", "lower": "lower"}[cls]
                            rep.fail(RULE, f"{pname}::{sname}[{branch}{',offdiag given' if og and cls == 'diagonal' else ''}] compiled code differs from the definition: {dis}",
                                     f"reference: {lc_show(want)[:300]}", loc)
                            continue
                        if got is None:
                            rep.fail(RULE, f"{pname}::{sname}[{cls}] compiled eval can end without returning the accumulated result", "", loc)
                            continue
                        if not header_checked:
                            header_checked = True
                            rep.check(gi.header_ok, RULE, f"{pname}::{sname} eval selects `which` by use_linear_operator[index[:2]] and starts from zero", "", loc)
                        fl = ",".join(k.split("_")[0] for k, v in flags.items() if v) or "general"
                        if got == want:
                            rep.ok(RULE, f"{where} [{fl}] compiled = reference", lc_show(got)[:200], loc)
                        else:
                            branch = {"diagonal": "diagonal", "upper": "offdiagonal", "lower": "lower"}[cls]
                            bad = [k for k in got if k[0] == "badcall"]
                            detail = f"compiled: {lc_show(got)[:300]} ; reference: {lc_show(want)[:300]}"
                            if bad:
                                detail = f"scope function called without the series/index convention: `{bad[0][2][:120]}`; " + detail
                            rep.fail(RULE, f"{pname}::{sname}[{branch}{',offdiag given' if og and cls == 'diagonal' else ''}] compiled `{lc_show(got)}` but the definition says `{lc_show(want)}`",
                                     f"flags {fl}: {detail}", loc)
                        # deletion safety
                        for term, _sw in gi.deletes:
                            okd = term not in inputs and term not in prog.outputs
                            if not okd:
                                rep.fail(RULE, f"{pname}::{sname} deletes `{term}` which is an input or an output", "", loc)
                            # a pinned zeroth-order value (start = ...) is not recomputable by the eval: it may only be
                            # deleted from a series whose own eval never runs at order zero (pinned on every block)
                            tgt = prog.series.get(term)
                            if tgt is not None and tgt.start is not None and s.start in (None, 1):
                                rep.fail(RULE, f"{pname}::{sname} may delete the pinned zeroth-order data of `{term}`",
                                         f"`{sname}` (start = {s.start!r}) is evaluated at order zero on some blocks and deletes `{term}` "
                                         f"(start = {tgt.start!r}); the deleted start value would be recomputed by the eval and differ", loc)
    rep.count("programs", programs)
    rep.count("disagreements_checked", checked)
    rep.floor(RULE, "compiled (series, class, flags) cases compared", checked, 100)


# ---------------------------------------------------------------------------
# corpus of programs in the documented grammar (translation validation beyond the shipped text)
# ---------------------------------------------------------------------------

CORPUS_EXPRS = [
    '"A"', '-"A"', '"A".adj', '-"A".adj', '"A" + "B"', '"A" - "B"', '"B" - "A".adj',
    '"A" - ("B" - "C")', '"A" - (-"B" + "C")', '"A" - (-"B")', '"A" - (-"B" - "C".adj)', '-("A" - "B")', '-(-"A")',
    '"A" - ("B" - ("C" - "A"))', '"A" + ("B" - "C")', '("A" - "B") - ("C" - "A")', '-"A" - -"B"',
    '("A" + "B") / 2', '("A" - "B") / -2', '"A" / 2 - "B" / -3', '-("A" + "B".adj) / 2', '"A" - ("B" + "C") / 2',
    '"A" - ("B" - "C".adj) / -2', '("A" - ("B" - "C")) / 4', '-"A" / 2',
    'f("A")', 'f("A" + "B")', '-f("A" - "B")', '"A" + f("B @ C")', 'f("A".adj)', 'f(-"A")', '"A" - f("B" - (-"C"))',
    'f("A" - f("B"))', 'f("A") / 2', '"A" - (f("B") - "C")',
    '"B @ C" - "B @ C".adj', '("B @ C" + "B @ C".adj) / 2', '"A" - ("B @ C" - "A @ C".adj)',
    'zero', '"A" + zero', 'zero if two_block_optimized else "A" - ("B" - "C")',
    '"A" if commuting_blocks[index[0]] else -("A" - "B")',
]
CORPUS_SHAPES = [
    # (marker, [(cond, slot)...]) -- slots are filled with rotating expressions
    (None, [("default", 0)]),
    (None, [("diagonal", 0), ("offdiagonal", 1)]),
    (None, [("offdiagonal", 0), ("default", 1)]),
    ("hermitian", [("diagonal", 0), ("offdiagonal", 1)]),
    ("antihermitian", [("offdiagonal", 0)]),
    (None, [("diagonal", 0), ("diagonal", 1), ("default", 2)]),
]


def corpus_source() -> str:
    lines = ["# type: ignore", "# generated corpus of mini-language programs (never executed, only compiled)", ""]
    k = 0
    n = len(CORPUS_EXPRS)
    for i in range(n):
        marker, slots = CORPUS_SHAPES[i % len(CORPUS_SHAPES)]
        lines.append(f"def prog_{k:03d}():")
        lines.append('    with "S":')
        lines.append(f"        start = {i % 2}")
        if marker:
            lines.append(f"        {marker}")
        for cond, slot in slots:
            e = CORPUS_EXPRS[(i + 7 * slot) % n]
            if cond == "default":
                lines.append(f"        {e}")
            else:
                lines.append(f"        if {cond}:")
                lines.append(f"            {e}")
        lines.append('    with "C":')
        lines.append("        start = 0")
        lines.append('        "A" - "S"')
        lines.append('    with "B @ C":')
        lines.append("        pass")
        lines.append('    with "A @ C":')
        lines.append("        hermitian" if i % 3 == 0 else "        pass")
        lines.append('    return "S", "C"')
        lines.append("")
        k += 1
    return "\n".join(lines)


def rule_generated_exceptions(rep: Report, repo: Repo):
    """The generated evals run inside BlockSeries.__getitem__, which relies on an exception of the element computation reaching it (it then
    removes the in-flight marker and re-raises).  A `try` in generated code must therefore re-raise in every handler and must not leave its
    `finally` block with return / break / continue (that discards the exception and hands the partial `result` to the memo)."""
    from .sem import outcomes
    R = "E9.exceptions"
    out = compiler_output(repo)
    n_evals = n_try = 0
    for pname in ("main", "nonhermitian", "doc_example"):
        data = out.get(pname)
        if data is None or "error" in data:
            raise AnalysisError(R, f"program {pname}: no compiled form to inspect")
        loc = repo.rel("algorithm_parsing") + f":(code generated for {pname})"
        for sdat in data["series"]:
            try:
                g = ast.parse(sdat["src"])
            except SyntaxError as e:
                raise AnalysisError(R, f"{pname}::{sdat['name']}: generated code does not parse: {e}")
            n_evals += 1
            for t in [x for x in ast.walk(g) if isinstance(x, ast.Try)]:
                n_try += 1
                for h in t.handlers:
                    outs = outcomes(h.body, None, env={}, expand=False)
                    if not (outs and all(o.kind == "raise" for o in outs)):
                        rep.fail(R, f"{pname}::{sdat['name']} generated eval: handler `except {norm(h.type) if h.type is not None else ''}` absorbs the exception",
                                 "the partial `result` is returned and cached by the series", loc)
                for s_ in t.finalbody:
                    for x in ast.walk(s_):
                        if isinstance(x, (ast.Return, ast.Break, ast.Continue)):
                            rep.fail(R, f"{pname}::{sdat['name']} generated eval leaves a `finally` block with `{norm(x)[:30]}`",
                                     "this discards an exception in flight (also KeyboardInterrupt): the caller sees no error and the series "
                                     "caches the partial `result` (the value before the interrupted line was added)", loc)
    rep.floor(R, "generated evals inspected", n_evals, 10)
    rep.ok(R, "generated evals: no construct discards an exception in flight", f"{n_evals} evals, {n_try} try statements", repo.rel("algorithm_parsing"))


def rule_translation_corpus(rep: Report, repo: Repo):
    """Compile a generated corpus of programs with the repository's compiler and compare every
    (series, index class, offdiag given, flags) case with the reference translation."""
    GenInterp.helpers = compiler_helpers(repo)
    import tempfile

    R = "E9.corpus"
    src = corpus_source()
    d = tempfile.mkdtemp(prefix="sv-corpus-")
    try:
        path = os.path.join(d, "sv_corpus.py")
        with open(path, "w") as fh:
            fh.write(src)
        out = compiler_output(repo, path)
    finally:
        import shutil
        shutil.rmtree(d, ignore_errors=True)
    tree = ast.parse(src)
    funcs = {n.name: n for n in tree.body if isinstance(n, ast.FunctionDef)}
    programs = checked = 0
    loc = repo.rel("algorithm_parsing")
    for name, func in sorted(funcs.items()):
        data = out.get("corpus:" + name)
        if data is None:
            raise AnalysisError(R, f"corpus program {name} missing from the compiler query")
        prog = read_program(func)
        text = "; ".join(f"[{b.cond}] {norm(b.node.body[0] if isinstance(b.node, ast.If) else b.node)}" for b in prog.series["S"].branches)
        if "error" in data:
            rep.fail(R, f"corpus program `S: {text}` is rejected by the compiler: {data['error'][:120]}", "", loc)
            continue
        programs += 1
        gen = {s["name"]: s for s in data["series"]}
        flags_list = [{"two_block_optimized": a, "commuting_blocks": b} for a in (False, True) for b in (False, True)] \
            if prog.flags() else [{"two_block_optimized": False, "commuting_blocks": False}]
        bad = None
        for sname in prog.series:
            gfunc = ast.parse(gen[sname]["src"]).body[0]
            for flags in flags_list:
                for cls in ("diagonal", "upper", "lower"):
                    for og in (False, True):
                        want = reference(prog, sname, cls, og, flags)
                        checked += 1
                        gi = GenInterp(cls, og, flags, f"{name}::{sname}[{cls}]")
                        try:
                            got = gi.run(gfunc)
                        except Disagreement as dis:
                            got = {("badcall", "?", str(dis)): Fr(1)}
                        if got != want and bad is None:
                            bad = (sname, cls, og, got, want)
            want_start = START_KEY.get(prog.series[sname].start)
            if gen[sname]["start"] != want_start and bad is None:
                bad = (sname, "start", False, {("ref", str(gen[sname]["start"]), False, False): Fr(1)}, {("ref", str(want_start), False, False): Fr(1)})
        gp = {" @ ".join(p["terms"]): p["hermitian"] for p in data["products"]}
        if gp != {n: p.hermitian for n, p in prog.products.items()} and bad is None:
            bad = ("products", "flags", False, {}, {})
        if bad is None:
            rep.ok(R, f"corpus program `S: {text[:110]}` compiled = reference", "", loc)
        else:
            sname, cls, og, got, want = bad
            rep.fail(R, f"corpus program `S: {text}`: series {sname} [{cls}{', offdiag given' if og else ''}] compiled `{lc_show(got)}` but the definition says `{lc_show(want)}`",
                     "the compiler changes the meaning of a program of the documented grammar", loc)
    rep.count("programs", programs + rep.analysed.get("programs", 0))
    rep.count("disagreements_checked", checked + rep.analysed.get("disagreements_checked", 0))
    rep.count("corpus_programs", programs)
    rep.floor(R, "corpus programs compiled", programs, 30)


# ---------------------------------------------------------------------------
# run-time support of the generated code: _zero_sum, _safe_divide, the zero / one sentinels
# ---------------------------------------------------------------------------


def rule_runtime_support(rep: Report, repo: Repo, compiler_helpers: bool = True):
    """`compiler_helpers=False`: only the series.py part (sentinels, __contains__, _mask, default eval) -- what the properties
    about BlockSeries and the Cauchy product themselves rest on; _zero_sum / _safe_divide belong to the generated code."""
    R = "E9.runtime"
    loc = lambda n: repo.loc("algorithm_parsing", n)
    from .resolve import env_at as _env_at, resolved as _resolved
    from .sem import Scope as _Scope, canon as _canon, ctext as _ctext, inline as _inline, outcomes as _outcomes
    if compiler_helpers:
        _runtime_compiler_helpers(rep, repo, R)
    _runtime_series_part(rep, repo, R)


def _runtime_compiler_helpers(rep: Report, repo: Repo, R: str):
    loc = lambda n: repo.loc("algorithm_parsing", n)
    from .resolve import env_at as _env_at, resolved as _resolved
    from .sem import Scope as _Scope, canon as _canon, ctext as _ctext, inline as _inline, outcomes as _outcomes
    f = repo.find("algorithm_parsing::_zero_sum", R)
    rets = [n for n in ast.walk(f) if isinstance(n, ast.Return)]
    ok = False
    detail = ""
    understood = False
    if len(rets) == 1 and f.args.vararg is not None and not f.args.args:
        TERMS = f.args.vararg.arg
        c = _canon(_resolved(rets[0].value, _env_at(rets[0], f)))
        detail = norm(c)
        if isinstance(c, ast.Call) and call_name(c) == "sum":
            kw = {k.arg: norm(k.value) for k in c.keywords}
            start = kw.get("start") or (norm(c.args[1]) if len(c.args) > 1 else None)
            g = c.args[0] if c.args else None
            if isinstance(g, (ast.GeneratorExp, ast.ListComp)) and len(g.generators) == 1 and norm(g.generators[0].iter) == TERMS:
                gen = g.generators[0]
                v = norm(gen.target)
                filt = [norm(_canon(i)) for i in gen.ifs]
                # understood: a sum over the arguments with at most one sentinel filter; what is summed, from where, and which
                # arguments are left out decide the verdict
                understood = len(filt) == 1 and filt[0] in (f"{v} is not zero", f"{v} is zero")
                ok = start == "zero" and norm(g.elt) == v and filt == [f"{v} is not zero"]
    if not understood:
        # another way of writing the sum (an explicit loop): read what it computes for 0..3 arguments
        if f.args.vararg is None or f.args.args:
            raise AnalysisError(R, "_zero_sum: signature is not (*terms)")
        dens = [helper_denotation(f, n_) for n_ in range(4)]
        ok = all(d == (n_, {i: Fr(1) for i in range(n_)}) for n_, d in enumerate(dens))
        detail = f"for 0..3 arguments computes {[{i: str(c) for i, c in d[1].items()} for d in dens]}"
    rep.check(ok, R, "algorithm_parsing::_zero_sum adds every term that is not the `zero` sentinel, starting from `zero`", detail, loc(f))
    f = repo.find("algorithm_parsing::_safe_divide", R)
    params = [a_.arg for a_ in f.args.args]
    if len(params) != 2:
        raise AnalysisError(R, "_safe_divide signature")
    n_, d_ = params
    vals = []
    trys = [i for i, t in enumerate(f.body) if isinstance(t, ast.Try)]
    if not trys:
        blocks = [f.body]
    else:
        # normal path: the try body, its else, what follows; one more path per handler (the try body raised before binding anything useful)
        i = trys[0]
        t = f.body[i]
        if t.finalbody or len(trys) > 1:
            raise AnalysisError(R, "_safe_divide: try/finally or several try statements not understood")
        pre, post = f.body[:i], f.body[i + 1:]
        blocks = [pre + t.body + t.orelse + post] + [pre + h.body + post for h in t.handlers]
    for blk in blocks:
        for o in _outcomes(blk, None, env={}, expand=False):
            if o.kind == "return":
                vals.append(norm(o.value))
    QUOT = (f"{n_} / {d_}",)
    FALLBACK = (f"{n_} * (1 / {d_})", f"1 / {d_} * {n_}", f"{n_} * {d_} ** (-1)")
    ok = bool(vals) and vals[0] in QUOT and all(v in QUOT + FALLBACK for v in vals)
    rep.check(ok, R, "algorithm_parsing::_safe_divide returns numerator / denominator (or numerator * (1 / denominator))", str(vals), loc(f))


def _runtime_series_part(rep: Report, repo: Repo, R: str):
    loc = lambda n: repo.loc("algorithm_parsing", n)
    from .resolve import env_at as _env_at, resolved as _resolved
    from .sem import Scope as _Scope, canon as _canon, ctext as _ctext, inline as _inline, outcomes as _outcomes
    # sentinels (series.py)
    tree = repo.trees["series"]
    zero = [n for n in tree.body if isinstance(n, ast.ClassDef) and n.name == "Zero"]
    if len(zero) != 1:
        raise AnalysisError(R, "class Zero not found")
    meths = {m.name: m for m in zero[0].body if isinstance(m, ast.FunctionDef)}
    alias = {}
    for n in zero[0].body:
        if isinstance(n, ast.Assign) and isinstance(n.value, ast.Name):
            for t in n.targets:
                if isinstance(t, ast.Name):
                    alias[t.id] = n.value.id
    def body_ret(name):
        m = meths.get(alias.get(name, name))
        if m is None:
            return None
        r = [norm(x.value) for x in ast.walk(m) if isinstance(x, ast.Return)]
        return r[0] if len(r) == 1 else None
    want = {"__mul__": "self", "__add__": "other", "__sub__": "-other", "__neg__": "self", "adjoint": "self"}
    for name, w in want.items():
        got = body_ret(name)
        rep.check(got == w, R, f"series::Zero.{name} returns `{w}`", f"found {got!r}: 0*x = 0, 0 + x = x, 0 - x = -x, -0 = 0, adj(0) = 0",
                  repo.loc("series", zero[0]))
    sing = {norm(n.targets[0]): norm(n.value) for n in tree.body if isinstance(n, ast.Assign) and isinstance(n.targets[0], ast.Name)}
    rep.check(sing.get("zero") == "Zero()" and sing.get("one") == "One()" and sing.get("PENDING") == "Pending()", R,
              "series: zero / one / PENDING are module-level singletons (compared by identity)", "", repo.loc("series", zero[0]))
    cont = repo.find("series::BlockSeries::__contains__", R)
    outs = [o for o in _outcomes(cont.body, None, env={}, expand=False) if o.kind == "return"]
    got = sorted({_ctext(_inline(o.value, _Scope(tree, cont))) for o in outs})  # a module-level predicate (`_is_zero(x)`) is expanded
    rep.check(got == ["self._data.get(item) is not zero"], R,
              "series::BlockSeries.__contains__ is False exactly for elements known to be the `zero` sentinel",
              f"{got}; this is what lets `start = 0` pin an order and product_by_order skip absent terms", repo.loc("series", cont))
    gi = repo.find("series::BlockSeries::__getitem__", R)
    rr = [n for n in ast.walk(gi) if isinstance(n, ast.Return) and isinstance(n.value, ast.Call) and (call_name(n.value) or "").endswith("masked_where")]
    ok = len(rr) == 1 and len(rr[0].value.args) == 2 and isinstance(rr[0].value.args[0], ast.Call) and call_name(rr[0].value.args[0]) == "_mask" \
        and len(rr[0].value.args[0].args) == 1 and norm(rr[0].value.args[0].args[0]) == norm(rr[0].value.args[1])  # masked_where(_mask(X), X)
    # _mask = np.vectorize(<entry is zero>, otypes=[bool]): the predicate may be a lambda or a module-level function
    mk = [n for n in tree.body if isinstance(n, ast.Assign) and norm(n.targets[0]) == "_mask"]
    pred_ok, pred_txt = False, "missing"
    mdef = [n for n in tree.body if isinstance(n, ast.FunctionDef) and n.name == "_mask" and len(n.args.args) == 1]
    if not mk and len(mdef) == 1:
        # written out: the truth values of `e is zero` over the flattened array, put back into the array's shape.  The flattening
        # and the reshape must use the same (C) order.
        from .resolve import env_at as _ea9
        arr = mdef[0].args.args[0].arg
        ro = [n for n in ast.walk(mdef[0]) if isinstance(n, ast.Return)]
        if len(ro) != 1:
            raise AnalysisError(R, "_mask: expected one return")
        v = _resolved(ro[0].value, _ea9(ro[0], mdef[0]))
        ok_form = isinstance(v, ast.Call) and isinstance(v.func, ast.Attribute) and v.func.attr == "reshape" and [norm(a_) for a_ in v.args] == [f"{arr}.shape"]
        inner = v.func.value if ok_form else None
        gen = None
        if isinstance(inner, ast.Call) and call_name(inner) in ("np.fromiter", "np.array") and inner.args and isinstance(inner.args[0], (ast.GeneratorExp, ast.ListComp)):
            gen = inner.args[0]
        if gen is None or len(gen.generators) != 1:
            raise AnalysisError(R, f"_mask: form `{norm(v)[:80]}` not understood")
        g0 = gen.generators[0]
        it = norm(g0.iter)
        C_ORDER = (f"{arr}.ravel()", f"{arr}.flat", f"{arr}.ravel(order='C')", f"{arr}.reshape(-1)", f"{arr}.flatten()", f"{arr}.ravel('C')")
        OTHER_ORDER = tuple(f"{arr}.ravel(order='{o_}')" for o_ in "KFA") + tuple(f"{arr}.ravel('{o_}')" for o_ in "KFA") + \
            tuple(f"{arr}.flatten(order='{o_}')" for o_ in "KFA")
        pred_txt = f"{_ctext(gen.elt)} over {it}"
        if _ctext(gen.elt) != f"{norm(g0.target)} is zero":
            raise AnalysisError(R, f"_mask: element predicate `{norm(gen.elt)}` not understood")
        if it in C_ORDER:
            pred_ok = True
        elif it in OTHER_ORDER:
            pred_ok = False
            pred_txt += " -- flattened in memory / Fortran order but reshaped in C order: the mask lands on permuted positions whenever the "\
                        "indexed result is not C-contiguous (a list index after a slice)"
        else:
            raise AnalysisError(R, f"_mask: iteration `{it}` not understood")
    if len(mk) == 1 and isinstance(mk[0].value, ast.Call) and call_name(mk[0].value) == "np.vectorize" and mk[0].value.args:
        pr = mk[0].value.args[0]
        kw = {k.arg: norm(k.value) for k in mk[0].value.keywords}
        body = None
        if isinstance(pr, ast.Lambda) and len(pr.args.args) == 1:
            body, par = pr.body, pr.args.args[0].arg
        elif isinstance(pr, ast.Name):
            fn = next((n for n in tree.body if isinstance(n, ast.FunctionDef) and n.name == pr.id and len(n.args.args) == 1), None)
            if fn is not None:
                ro = [o for o in _outcomes(fn.body, None, env={}, expand=False) if o.kind == "return"]
                if len(ro) == 1:
                    body, par = ro[0].value, fn.args.args[0].arg
        if body is not None:
            pred_txt = _ctext(body)
            pred_ok = pred_txt == f"{par} is zero" and kw.get("otypes") == "[bool]"
    rep.check(ok and pred_ok, R,
              "series::BlockSeries.__getitem__ masks exactly the absent (`zero`) elements of a multi-element result", pred_txt[:80], repo.loc("series", gi))
    dflt = repo.find("series::BlockSeries::__init__", R)
    from .paths import eval_bool
    from .sem import canon, outcomes
    got = {}
    for is_none in (True, False):
        def atom(n):
            t = norm(canon(n))
            if t == "eval is None":
                return is_none
            if t == "eval is not None":
                return not is_none
            return None
        vals = set()
        for o in outcomes(dflt.body, None, env={}, atom=atom):
            for kind, st, rv in o.seq:
                if kind == "assign" and norm(st.targets[0] if isinstance(st, ast.Assign) else st.target) == "self.eval":
                    while isinstance(rv, ast.IfExp):
                        v = eval_bool(rv.test, atom)
                        if v is None:
                            raise AnalysisError(R, f"BlockSeries.__init__: `self.eval` depends on `{norm(rv.test)}`")
                        rv = rv.body if v else rv.orelse
                    vals.add(norm(rv))
        got[is_none] = vals
    if not got[True] or not got[False]:
        raise AnalysisError(R, "BlockSeries.__init__: assignment of self.eval not found")
    ok = got[False] == {"eval"} and all(v.startswith("lambda") and v.endswith(": zero") for v in got[True])
    rep.check(ok, R, "series::BlockSeries default eval returns `zero` (absent term)",
              f"eval given -> {sorted(got[False])}; eval None -> {sorted(got[True])}", repo.loc("series", dflt))


# ---------------------------------------------------------------------------
# automatic deletion of once-used terms never changes a value: only recomputable elements are deleted
# ---------------------------------------------------------------------------


def rule_deletion_safe(rep: Report, repo: Repo):
    """`del_` may only drop elements that a later request recomputes to the same value.  A start value (`start = ...`)
    is not recomputable from the term's definition, so every path of `del_` that pops from a cache must be guarded by
    `index not in <start values of that series>`, and that table must be filled, for every term, from the very data
    the term's BlockSeries is constructed with."""
    from .core import nested_defs, own_nodes
    from .resolve import env_at, rtext
    from .sem import canon, outcomes

    R = "E9.deletion"
    sc = repo.find("algorithm_parsing::series_computation", R)
    loc = lambda n: repo.loc("algorithm_parsing", n)
    d = [x for x in nested_defs(sc) if x.name == "del_"]
    if len(d) != 1:
        raise AnalysisError(R, "del_ not found in series_computation")
    d = d[0]
    params = [a.arg for a in d.args.args]
    if len(params) != 2:
        raise AnalysisError(R, f"del_ signature {params}")
    name_p, index_p = params
    tables = set()
    n_pop_paths = 0
    unguarded = []
    for o in outcomes(d.body, None, env={}, expand=False):
        pops = [st for kind, st, rv in o.seq if kind == "stmt" and isinstance(rv, ast.Call) and isinstance(rv.func, ast.Attribute)
                and rv.func.attr in ("pop", "__delitem__")]
        pops += [ev for ev in o.events if isinstance(ev, ast.Delete)]
        if not pops:
            continue
        n_pop_paths += 1
        guarded = False
        for t, pol in o.conds:
            c = canon(t)
            if isinstance(c, ast.Compare) and len(c.ops) == 1 and norm(c.left) == index_p:
                inn = isinstance(c.ops[0], ast.In) and pol is False
                notin = isinstance(c.ops[0], ast.NotIn) and pol is True
                if inn or notin:
                    tb = c.comparators[0]
                    if isinstance(tb, ast.Call) and isinstance(tb.func, ast.Attribute) and tb.func.attr == "get" and tb.args \
                            and norm(tb.args[0]) == name_p and isinstance(tb.func.value, ast.Name):
                        tables.add(tb.func.value.id)
                        guarded = True
                    elif isinstance(tb, ast.Subscript) and norm(tb.slice) == name_p and isinstance(tb.value, ast.Name):
                        tables.add(tb.value.id)
                        guarded = True
        if not guarded:
            unguarded.append(pops[0])
    if not n_pop_paths:
        raise AnalysisError(R, "del_: no deleting path found")
    inst = "algorithm_parsing::series_computation::del_ never deletes a start value (start values cannot be recomputed from the definition)"
    if unguarded:
        rep.fail(R, inst, f"`{norm(unguarded[0])[:70]}` is reached without the test `{index_p} not in <start values of {name_p}>`: "
                 "after the single consumer of a term with `start = ...` has been evaluated at the start order, a later request "
                 "of that element evaluates the definition instead of returning the start value", loc(unguarded[0]))
        return
    rep.ok(R, inst, f"every deleting path is guarded by membership in {sorted(tables)}", loc(d))
    # the table is filled from the data each term's series starts with
    from .resolve import resolved as _res
    # `series[<term>] = BlockSeries(..., data=D, ...)`, possibly through a local; the data expression itself keeps its own locals
    stores = [n for n in own_nodes(sc) if isinstance(n, ast.Assign) and isinstance(n.targets[0], ast.Subscript) and norm(n.targets[0].value) == "series"]
    ctors = []
    for n in stores:
        v = _res(n.value, env_at(n, sc))
        if isinstance(v, ast.Call) and call_name(v) == "BlockSeries":
            ctors.append((n, v))
    if len(ctors) != 1:
        raise AnalysisError(R, f"{len(ctors)} constructions `series[...] = BlockSeries(...)`")
    ct, ctor_call = ctors[0]
    env = env_at(ct, sc)
    key = rtext(ct.targets[0].slice, env)
    data_kw = {k.arg: k.value for k in ctor_call.keywords}.get("data")
    if data_kw is None:
        raise AnalysisError(R, "terms are constructed without `data=`")
    D = norm(data_kw)
    for tname in sorted(tables):
        fills = [n for n in own_nodes(sc) if isinstance(n, ast.Assign) and isinstance(n.targets[0], ast.Subscript)
                 and norm(n.targets[0].value) == tname]
        same_block = [n for n in fills if getattr(n, "_parent", None) is getattr(ct, "_parent", None)]
        ok = False
        detail = "no assignment in the term loop"
        if len(fills) == 1 and same_block:
            e2 = env_at(fills[0], sc)
            k2, v2 = rtext(fills[0].targets[0].slice, e2), rtext(fills[0].value, e2)
            Ds = (D, D.replace(", None)", ")"))
            allowed = tuple(t for D_ in Ds for t in (D_, f"{D_} or {{}}", f"{D_} or ()", f"set({D_} or ())", f"dict({D_} or {{}})",
                                                    f"({D_} or {{}}).keys()", f"frozenset({D_} or ())"))
            ok = k2 == key and v2 in allowed
            detail = f"`{tname}[{k2}] = {v2}`; series data `{D}`"
        rep.check(ok, R, f"algorithm_parsing::series_computation `{tname}` holds, for every term, the keys of the data its series starts with",
                  detail, loc(fills[0] if fills else sc))


# ---------------------------------------------------------------------------
# the names the generated code calls: what the exec scope binds them to
# ---------------------------------------------------------------------------


def _import_origin(tree: ast.Module, name: str):
    """(module, original name) a module-level name is imported from, or None."""
    for n in tree.body:
        if isinstance(n, ast.ImportFrom):
            for a in n.names:
                if (a.asname or a.name) == name:
                    return (n.module, a.name)
    return None


def exec_scope_table(repo: Repo, R: str = "E9.exec_scope"):
    """The dictionary handed to `exec` as globals of the generated evals, in one normal form:
    -> ({name: value AST}, user scope merged last?, node for locations).
    Understood: one dict display, possibly spreading other local dict displays (`{**defaults, **(scope or {})}`), possibly
    followed by `.update(scope or {})`."""
    from .core import own_nodes
    sc = repo.find("algorithm_parsing::series_computation", R)
    ex = [n for n in own_nodes(sc) if isinstance(n, ast.Call) and call_name(n) == "exec" and len(n.args) >= 2]
    if not ex:
        # the exec may sit in an extracted helper: look at the function with such helpers seen through
        sc = repo.find_expanded("algorithm_parsing::series_computation", R)
        ex = [n for n in own_nodes(sc) if isinstance(n, ast.Call) and call_name(n) == "exec" and len(n.args) >= 2]
    if len(ex) != 1 or not isinstance(ex[0].args[1], ast.Name):
        raise AnalysisError(R, "series_computation: the exec(..., <scope name>) call was not found")
    S = ex[0].args[1].id
    USER = ("scope or {}", "scope if scope is not None else {}", "scope if scope else {}", "{} if scope is None else scope", "scope")

    def dict_of(name, depth=0):
        asg = [n for n in own_nodes(sc) if isinstance(n, ast.Assign) and len(n.targets) == 1 and norm(n.targets[0]) == name]
        if len(asg) != 1 or depth > 3:
            raise AnalysisError(R, f"series_computation: `{name}` is not assigned exactly once")
        v = asg[0].value
        if isinstance(v, ast.Name) and v.id != name:
            return dict_of(v.id, depth + 1)  # an alias (e.g. the parameter of a helper that was seen through)
        if isinstance(v, ast.Call) and call_name(v) == "dict" and not v.args:
            v = ast.Dict(keys=[ast.Constant(value=k.arg) if k.arg else None for k in v.keywords], values=[k.value for k in v.keywords])
        if not isinstance(v, ast.Dict):
            raise AnalysisError(R, f"series_computation: `{name}` is not a dict display")
        entries, order = {}, []
        for k, val in zip(v.keys, v.values):
            if isinstance(k, ast.Constant) and isinstance(k.value, str):
                entries[k.value] = val
                order.append(("key", k.value))
            elif k is None and norm(val) in USER:
                order.append(("user", None))
            elif k is None and isinstance(val, ast.Name):
                sub, sub_order, _n = dict_of(val.id, depth + 1)
                entries.update(sub)
                order += sub_order
            else:
                raise AnalysisError(R, f"series_computation: entry `{norm(k) if k is not None else '**' + norm(val)[:30]}` of `{name}` not understood")
        return entries, order, asg[0]

    entries, order, node = dict_of(S)
    for n in own_nodes(sc):
        if isinstance(n, ast.Call) and isinstance(n.func, ast.Attribute) and n.func.attr == "update" and norm(n.func.value) == S:
            if len(n.args) == 1 and norm(n.args[0]) in USER and n.lineno > node.lineno and n.lineno < ex[0].lineno:
                order.append(("user", None))
            else:
                raise AnalysisError(R, f"series_computation: `{norm(n)[:60]}` changes the exec scope in a way that is not understood")
        if isinstance(n, ast.Assign) and isinstance(n.targets[0], ast.Subscript) and norm(n.targets[0].value) == S:
            raise AnalysisError(R, f"series_computation: `{norm(n)[:60]}` changes the exec scope in a way that is not understood")
    users = [i for i, (k, _v) in enumerate(order) if k == "user"]
    user_last = len(users) == 1 and users[0] == len(order) - 1
    return entries, user_last, node, bool(users)


def rule_exec_scope(rep: Report, repo: Repo):
    """The generated evals call `Dagger`, `zero`, `_zero_sum`, `_safe_divide`, `series`, `del_` ... by name; the exec scope
    must bind each of these names to the object the reference semantics means.  `Dagger` in particular must be the adjoint
    for every value type: either sympy's Dagger itself or a package function every returning path of which denotes the
    adjoint (a plain transpose on some path is reported)."""
    from .core import own_nodes
    from .sem import canon, outcomes
    R = "E9.exec_scope"
    sc = repo.find("algorithm_parsing::series_computation", R)
    loc = lambda n: repo.loc("algorithm_parsing", n)
    dd, _user_last, es_node, _has_user = exec_scope_table(repo, R)
    es = [es_node]
    if "Dagger" not in dd:
        raise AnalysisError(R, "exec scope has no `Dagger` entry")
    tree = repo.trees["algorithm_parsing"]
    # identity bindings: the scope name is the module-level / local object of the same name
    for nm, origin in (("zero", ("pymablock.series", "zero")), ("_zero_sum", None), ("_safe_divide", None)):
        v = dd.get(nm)
        ok = v is not None and norm(v) == nm and (origin is None or _import_origin(tree, nm) == origin)
        rep.check(ok, R, f"algorithm_parsing::series_computation exec scope binds `{nm}` to the package's own `{nm}`",
                  norm(v) if v is not None else "missing", loc(es[0]))
    # `series` / `linear_operator_series` are the two dictionaries the function returns, in this order; `del_` is the local deleter
    rets = [n for n in own_nodes(sc) if isinstance(n, ast.Return) and isinstance(n.value, ast.Tuple) and len(n.value.elts) == 2]
    if len(rets) != 1:
        raise AnalysisError(R, "series_computation: does not return one pair (series, linear-operator series)")
    for nm, want in (("series", norm(rets[0].value.elts[0])), ("linear_operator_series", norm(rets[0].value.elts[1])), ("del_", "del_")):
        v = dd.get(nm)
        rep.check(v is not None and norm(v) == want, R, f"algorithm_parsing::series_computation exec scope binds `{nm}` to the local `{nm}`",
                  f"{norm(v) if v is not None else 'missing'} (the function returns ({norm(rets[0].value.elts[0])}, {norm(rets[0].value.elts[1])}))", loc(es[0]))
    # Dagger
    v = dd.get("Dagger")
    if not isinstance(v, ast.Name):
        raise AnalysisError(R, f"`Dagger` is bound to `{norm(v)[:50]}`: not a name")
    org = _import_origin(tree, v.id)
    if org == ("sympy.physics.quantum", "Dagger"):
        rep.ok(R, "algorithm_parsing::series_computation exec scope binds `Dagger` to the adjoint", "sympy.physics.quantum.Dagger", loc(es[0]))
        return
    verdict = _adjoint_function(rep, repo, R, tree, "algorithm_parsing", v.id, org, loc(es[0]), "bound to `Dagger` in the exec scope")
    if verdict:
        rep.ok(R, "algorithm_parsing::series_computation exec scope binds `Dagger` to the adjoint", verdict, loc(es[0]))


def _adjoint_function(rep: Report, repo: Repo, R: str, tree: ast.Module, mod: str, name: str, org, where: str, role: str):
    """`name` in module `mod` is a package function (defined there, or imported from a package module): every returning path
    must denote the adjoint.  A plain transpose is accepted only under a test that guarantees real VALUES (a real numeric
    dtype); `np.isrealobj` does not (object arrays holding complex numbers or expressions count as real).
    -> description if every path is the adjoint, None after reporting a violation; AnalysisError if not understood."""
    from .sem import canon, outcomes
    fn = None
    if org is not None and org[0].startswith("pymablock."):
        modname = org[0].split(".", 1)[1]
        if modname in repo.trees:
            fn = next((n for n in repo.trees[modname].body if isinstance(n, ast.FunctionDef) and n.name == org[1]), None)
            fmod = modname
    else:
        fn = next((n for n in tree.body if isinstance(n, ast.FunctionDef) and n.name == name), None)
        fmod = mod
    if fn is None or len(fn.args.args) != 1:
        raise AnalysisError(R, f"`{name}` ({role}): its definition was not found as a one-argument package function")
    a = fn.args.args[0].arg
    # the function may delegate to sympy's Dagger under another name
    sympy_names = {nm for nm in [x_.asname or x_.name for st_ in repo.trees[fmod].body if isinstance(st_, ast.ImportFrom)
                                 and st_.module == "sympy.physics.quantum" for x_ in st_.names if x_.name == "Dagger"]}
    ADJ = {f"{d_}({a})" for d_ in sympy_names | {"Dagger"}} | {f"{a}.conj().T", f"{a}.H", f"{a}.getH()", f"{a}.adjoint()", f"np.conj({a}).T", f"np.conj({a}.T)",
           f"{a}.conj().transpose()", f"np.conjugate({a}).T", f"{a}.T.conj()"}
    TRANS = {f"{a}.T", f"{a}.transpose()", f"np.transpose({a})"}
    REAL_GUARDS = (f"{a}.dtype.kind in 'fiub'", f"{a}.dtype.kind in 'fiu'", f"{a}.dtype.kind == 'f'", f"np.issubdtype({a}.dtype, np.floating)",
                   f"np.issubdtype({a}.dtype, np.integer)")
    NOT_REAL_GUARDS = (f"np.isrealobj({a})", f"not np.iscomplexobj({a})")
    wrong, unknown = [], []
    for o in outcomes(fn.body, None, env={}, expand=False):
        if o.kind != "return":
            continue
        e = o.value
        ret_names = {n_.id for n_ in ast.walk(o.node.value) if isinstance(n_, ast.Name)} \
            if isinstance(o.node, ast.Return) and o.node.value is not None else set()
        ret_names -= {a}
        for ev in o.events:
            touched = {x.id for x in ast.walk(ev) if isinstance(x, ast.Name)} & ret_names
            if not touched:
                continue
            pure = isinstance(ev, ast.Expr) and isinstance(ev.value, ast.Call) and isinstance(ev.value.func, ast.Attribute) \
                and ev.value.func.attr in ("conj", "conjugate", "copy", "transpose", "toarray", "tocsr", "tocsc") and not ev.value.keywords
            if not pure:
                raise AnalysisError(R, f"{fmod}::{fn.name} ({role}): the returned object is modified by `{norm(ev)[:60]}` before it is "
                                       "returned; the effect of that statement is not followed")
        while isinstance(e, ast.Call) and isinstance(e.func, ast.Attribute) and e.func.attr in ("tocsr", "tocsc", "tocoo", "copy", "asformat"):
            e = e.func.value
        t = norm(canon(e))
        if t in ADJ or norm(e) in ADJ:
            continue
        if t in TRANS or norm(e) in TRANS:
            guards = [norm(canon(c_)) for c_, p_ in o.conds if p_] + [norm(canon(ast.UnaryOp(op=ast.Not(), operand=c_))) for c_, p_ in o.conds if not p_]
            if any(g_ in REAL_GUARDS for g_ in guards):
                continue  # a real numeric array: the transpose is the adjoint
            why = "a transpose without complex conjugation"
            if any(g_ in NOT_REAL_GUARDS for g_ in guards):
                why += " under `np.isrealobj`, which looks at the dtype only: an object array holding complex numbers or expressions passes it"
            wrong.append((o, norm(o.value), why))
        else:
            unknown.append(norm(o.value))
    for o, txt, why in wrong:
        rep.fail(R, f"{fmod}::{fn.name} ({role}) returns `{txt}` on a path",
                 why + ": adjoint fills, `.adj` and the Hermitian shortcuts are wrong for complex values "
                 "of that type; path: " + "; ".join(f"{'' if p else 'not '}{norm(t)[:40]}" for t, p in o.conds), repo.loc(fmod, o.node))
    if unknown and not wrong:
        raise AnalysisError(R, f"{fmod}::{fn.name} ({role}) returns `{unknown[0][:60]}`: not recognised as the adjoint")
    return None if wrong else f"{fmod}::{fn.name}: every path returns the adjoint"


def rule_adjoint_binding(rep: Report, repo: Repo):
    """Every module that calls `Dagger(...)` on series values binds that name to the adjoint: sympy's Dagger, or a package function
    every path of which denotes the adjoint (same analysis as for the exec scope)."""
    R = "E9.adjoint_binding"
    n = 0
    for mod in ("series", "algorithm_parsing", "block_diagonalization", "second_quantization", "number_ordered_form", "linalg", "kpm"):
        tree = repo.trees[mod]
        uses = [c for c in ast.walk(tree) if isinstance(c, ast.Call) and isinstance(c.func, ast.Name) and c.func.id == "Dagger"]
        if not uses:
            continue
        n += 1
        where = repo.loc(mod, uses[0])
        org = _import_origin(tree, "Dagger")
        local_def = [x for x in tree.body if isinstance(x, ast.FunctionDef) and x.name == "Dagger"]
        rebinds = [x for x in tree.body if isinstance(x, ast.Assign) and any(norm(t) == "Dagger" for t in x.targets)]
        if rebinds:
            raise AnalysisError(R, f"{mod}: `Dagger` is assigned at module level (`{norm(rebinds[0])[:60]}`)")
        inst = f"{mod} `Dagger` ({len(uses)} calls) denotes the adjoint"
        if org == ("sympy.physics.quantum", "Dagger") and not local_def:
            rep.ok(R, inst, "sympy.physics.quantum.Dagger", where)
            continue
        if not local_def and org is None:
            raise AnalysisError(R, f"{mod}: where `Dagger` comes from was not found")
        verdict = _adjoint_function(rep, repo, R, tree, mod, "Dagger", None if local_def else org, where, f"`Dagger` of {mod}")
        if verdict:
            rep.ok(R, inst, verdict, where)
    rep.floor(R, "modules calling Dagger", n, 3)


# ---------------------------------------------------------------------------
# start values: what `start = 0 / 1 / "name"` pins
# ---------------------------------------------------------------------------


def series_geometry_locals(sc: ast.FunctionDef, rule: str):
    """The locals of series_computation that hold the common block shape and the number of perturbation parameters, by role:
    the names handed on as `shape=` / `n_infinite=` to the series the function constructs."""
    found = set()
    for n in ast.walk(sc):
        kw = {}
        if isinstance(n, ast.Call):
            kw = {k.arg: k.value for k in n.keywords if k.arg}
        elif isinstance(n, ast.Dict):
            kw = {k.value: v for k, v in zip(n.keys, n.values) if isinstance(k, ast.Constant) and isinstance(k.value, str)}
        if "shape" in kw and "n_infinite" in kw and isinstance(kw["shape"], ast.Name) and isinstance(kw["n_infinite"], ast.Name):
            found.add((kw["shape"].id, kw["n_infinite"].id))
    if len(found) != 1:
        raise AnalysisError(rule, f"series_computation: locals handed on as shape= / n_infinite= not found uniquely ({sorted(found)})")
    return next(iter(found))


def rule_start_data(rep: Report, repo: Repo, all_programs: bool = True):
    """`start = 0` pins `zero` on EVERY block at order zero, `start = 1` pins `one` on the diagonal blocks, `start = "A"` pins
    the zeroth order of input A on EVERY block (also where that element is the `zero` sentinel: an unpinned block would be
    computed from the term's definition instead).  Decided on the resolved `data` table of series_computation."""
    from .core import own_nodes
    from .resolve import clone, env_at, resolved
    from .sem import Scope, canon, inline
    R = "E9.start_data"
    loc = lambda n: repo.loc("algorithm_parsing", n)
    tab, named, dyn_entries = data_table(repo)
    sc = data_table.host  # series_computation, with extracted helpers seen through when the table lives in one
    SHAPE, NINF = series_geometry_locals(sc, R)
    env = env_at(tab, sc, opaque=(NINF, SHAPE))
    scope = Scope(repo.trees["algorithm_parsing"], tab)
    ALL = (f"[(_v0, _v1) for _v0 in range({SHAPE}[0]) for _v1 in range({SHAPE}[1])]",)
    DIAG = (f"[(_v0, _v0) for _v0 in range({SHAPE}[0])]",)
    ZO = f"(0,) * {NINF}"

    def pins(e, what):
        """{block + zeroth_order: VALUE for block in BLOCKS} without a filter -> (blocks text, value text with the key as K) or None"""
        e = canon(resolved(inline(resolved(e, env), scope), env))  # closure variables of an inlined helper are resolved too
        if not isinstance(e, ast.DictComp):
            return None
        # a comprehension over a comprehension is one comprehension: {F(v) for v in [G(b) for b in B]} = {F(G(b)) for b in B}
        if len(e.generators) == 1 and isinstance(e.generators[0].target, ast.Name) and not e.generators[0].ifs \
                and norm(e.key) == e.generators[0].target.id \
                and isinstance(e.generators[0].iter, (ast.ListComp, ast.GeneratorExp)) and len(e.generators[0].iter.generators) == 1 \
                and not any(g_.ifs for g_ in e.generators[0].iter.generators):
            inner_c = e.generators[0].iter
            sub_ = {e.generators[0].target.id: inner_c.elt}
            e = canon(ast.DictComp(key=resolved(e.key, sub_), value=resolved(e.value, sub_), generators=[clone(g_) for g_ in inner_c.generators]))
        k = e.key
        if isinstance(k, ast.BinOp) and isinstance(k.op, ast.Add) and isinstance(k.left, ast.Tuple) and norm(k.right) == ZO:
            lead = k.left.elts
        elif isinstance(k, ast.Tuple) and k.elts and isinstance(k.elts[-1], ast.Starred) and norm(k.elts[-1].value) == ZO:
            lead = k.elts[:-1]
        else:
            lead = None
        if lead is not None and len(lead) == 2 and not any(isinstance(x, ast.Starred) for x in lead):
            # the block is written out in the key: {(i, j) + zeroth_order: V for i in ... for j in ...}
            blocks = canon(ast.ListComp(elt=ast.Tuple(elts=[clone(x) for x in lead], ctx=ast.Load()),
                                        generators=[ast.comprehension(target=clone(g.target), iter=clone(g.iter), ifs=[], is_async=0) for g in e.generators]))
            key = norm(k)
            return norm(blocks), norm(e.value).replace(key, "K"), [norm(i).replace(key, "K") for g in e.generators for i in g.ifs]
        if len(e.generators) != 1:
            return None
        g = e.generators[0]
        b = norm(g.target)
        key = norm(e.key)
        if key not in (f"{b} + {ZO}", f"({b}[0], {b}[1], *{ZO})", f"(*{b}, *{ZO})"):
            return None
        return norm(g.iter), norm(e.value).replace(key, "K"), [norm(i).replace(key, "K") for i in g.ifs]
    z = pins(named.get("zero_data", ast.Constant(None)), "zero")
    i1 = pins(named.get("identity_data", ast.Constant(None)), "one")
    if z is None or i1 is None:
        raise AnalysisError(R, "zero_data / identity_data are not comprehensions of the form {block + zeroth_order: value for block in blocks}")
    ok = z[0] in ALL and z[1] == "zero" and not z[2] and i1[0] in DIAG and i1[1] == "one" and not i1[2]
    rep.check(ok, R, "algorithm_parsing::series_computation start = 0 pins zero on every block, start = 1 pins the identity on diagonal blocks, at order zero",
              f"zero_data over {z[0][:60]} -> {z[1]} if {z[2]}; identity_data over {i1[0][:50]} -> {i1[1]} if {i1[2]}", loc(tab))
    if len(dyn_entries) != 1:
        raise AnalysisError(R, "the `<name>_data` entries of the inputs are not one comprehension / one loop nest")
    dkey, dval, dgens = dyn_entries[0]
    src = [(t_, i_) for t_, i_ in dgens if isinstance(i_, ast.Call) and norm(i_) == "series.items()" and isinstance(t_, ast.Tuple) and len(t_.elts) == 2]
    if len(src) != 1:
        raise AnalysisError(R, "the input start data does not iterate `series.items()`")
    ser = norm(src[0][0].elts[1])
    dc = type("_E", (), {"value": dval})()
    dc_node = dval
    p = pins(dc.value, "series")
    if p is None:
        raise AnalysisError(R, f"input start data `{norm(dc.value)[:60]}` is not {{block + zeroth_order: <series>[...] for block in all blocks}}")
    if not all_programs and p[2] and all(f_ in ("value is not zero", f"{ser}[K] is not zero") for f_ in
                                         [x.replace(f"(value := {ser}[K])", "value") for x in p[2]]) and p[1] in ("value", f"{ser}[K]") and p[0] in ALL:
        # the shipped algorithms only start H_tilde from H_0, whose definition gives `zero` at order zero anyway: unpinned absent
        # blocks do not change their values (they do for general programs: C09 runs this rule with all_programs=True)
        rep.ok(R, 'algorithm_parsing::series_computation start = "A" pins every present block of A at order zero (sufficient for the shipped algorithms)',
               f"filter {p[2]}", loc(dc_node))
        return
    ok = p[0] in ALL and p[1] == f"{ser}[K]" and not p[2]
    rep.check(ok, R, 'algorithm_parsing::series_computation start = "A" pins the zeroth order of A on every block (absent blocks included)',
              f"over {p[0][:60]} -> {p[1]}" + (f" filtered by {p[2]}: blocks that fail the filter are not pinned and would be computed from the "
                                              "term's definition at order zero" if p[2] else ""), loc(dc_node))
