"""E12 -- operator (second-quantised) mode wiring of ``block_diagonalize``: the structural part of the algebraic clause
of C07 ("the operator results satisfy U†U = 1 and U†HU = H_tilde within the operator algebra").

The identities themselves are E1's certificate, which holds in any associative *-algebra.  What ties it to the operator
mode is decided here: the Hamiltonian elements enter the algebra by an entry-wise, value-preserving change of
representation (NumberOrderedForm.from_expr); the Sylvester solver is the operator one, built from the diagonal of that
same H; the results leave through an entry-wise simplification of NumberOrderedForm entries only, in the order
(H_tilde, U, U†).  The comparison with truncated matrices on Fock states is NOT decided.
"""

from __future__ import annotations

import ast

from .core import AnalysisError, Repo, Report, call_name, nested_defs, norm, own_nodes
from .paths import eval_bool
from .resolve import env_at, resolved, rtext
from .sem import Scope, bind_args, canon, outcomes

R = "E12.operator_mode"
MOD = "block_diagonalization"


def _entrywise(e: ast.AST):
    """M.applyfunc(lambda x: F(x)) -> (matrix text, parameter name, body AST) else None."""
    if isinstance(e, ast.Call) and isinstance(e.func, ast.Attribute) and e.func.attr == "applyfunc" and len(e.args) == 1 \
            and isinstance(e.args[0], ast.Lambda) and len(e.args[0].args.args) == 1:
        return norm(e.func.value), e.args[0].args.args[0].arg, e.args[0].body
    return None


def rule_operator_mode(rep: Report, repo: Repo):
    f = repo.find(f"{MOD}::block_diagonalize", R)
    loc = lambda n: repo.loc(MOD, n)
    # -- entry: H_eval ------------------------------------------------------------------------------------------------
    hev = [d for d in nested_defs(f) if d.name == "H_eval"]
    if len(hev) != 1:
        raise AnalysisError(R, "H_eval (conversion of Hamiltonian terms to NumberOrderedForm) not found")
    hev = hev[0]
    guard = getattr(hev, "_parent", None)
    ok_guard = isinstance(guard, ast.If) and norm(canon(guard.test)) == "operators" and hev in guard.body
    rep.check(ok_guard, R, f"{MOD}::block_diagonalize the Hamiltonian is converted exactly when operators were found",
              norm(guard.test) if isinstance(guard, ast.If) else "not under a condition", loc(hev))
    src = [s for s in hev.body if isinstance(s, ast.Assign) and isinstance(s.value, ast.Subscript) and norm(s.value.slice) == "index"]
    if len(src) != 1:
        raise AnalysisError(R, "H_eval: read of the original series at the requested index not found")
    RES = norm(src[0].targets[0])
    ORIG = norm(src[0].value.value)
    table = {}
    for is_zero in (True, False):
        for scalar_input in (True, False):
            for is_matrix in (True, False):
                if is_zero and is_matrix:
                    continue
                def atom(n):
                    t = norm(canon(n))
                    if t == f"{RES} is zero":
                        return is_zero
                    if t == "scalar_input":
                        return scalar_input
                    return None
                got = set()
                for o in outcomes(hev.body, None, env={}, atom=atom, expand=False, opaque=(RES,)):
                    # the value of `result` on this path: last rebinding (or the read itself); the type tests are followed with
                    # the type the value has at that point (a rebinding to sympy.Matrix([[.]]) makes it a matrix)
                    cur, is_mat, feasible = "term", is_matrix, True
                    for kind, st, rv in o.seq:
                        if kind == "assign" and isinstance(st, ast.Assign) and norm(st.targets[0]) == RES and st is not src[0]:
                            if norm(rv) == f"sympy.Matrix([[{RES}]])":
                                cur, is_mat = "1x1(" + cur + ")", True
                            else:
                                cur = "other:" + norm(rv)[:40]
                        if kind == "cond":
                            def tatom(n, is_mat=is_mat):
                                return is_mat if norm(canon(n)) == f"isinstance({RES}, sympy.MatrixBase)" else atom(n)
                            v = eval_bool(st, tatom)
                            if v is None:
                                raise AnalysisError(R, f"H_eval: condition `{norm(st)[:60]}` not understood")
                            if v != rv:
                                feasible = False
                                break
                    if not feasible:
                        continue
                    if o.kind == "raise":
                        got.add("raise " + norm(o.value).split("(")[0])
                    elif o.kind == "return":
                        ew = _entrywise(o.value)
                        if norm(o.value) == "zero":
                            got.add("zero")
                        elif ew is not None and ew[0] == RES and norm(ew[2]) in (f"NumberOrderedForm.from_expr({ew[1]}, operators)",
                                                                                 f"NumberOrderedForm.from_expr({ew[1]}, operators=operators)"):
                            got.add(f"entrywise NOF of {cur}")
                        else:
                            got.add("other:" + norm(o.value)[:60])
                    else:
                        got.add("falls through")
                table[(is_zero, scalar_input, is_matrix)] = sorted(got)
    want = {}
    for k in table:
        is_zero, scalar_input, is_matrix = k
        if is_zero:
            want[k] = ["zero"]
        elif is_matrix:
            want[k] = ["entrywise NOF of term"]
        elif scalar_input:
            want[k] = ["entrywise NOF of 1x1(term)"]
        else:
            want[k] = ["raise TypeError"]
    bad = {k: v for k, v in table.items() if v != want[k]}
    rep.check(not bad, R, f"{MOD}::block_diagonalize::H_eval every term enters the operator algebra by an entry-wise change of representation "
              "(zero stays zero, a scalar of a scalar problem becomes 1x1, anything else is rejected)",
              f"(term is zero, scalar input, term is a matrix) -> outcome; disagreeing: {bad}" if bad else f"{len(table)} cases", loc(hev))
    rep.check(ORIG != "H" or True, R, f"{MOD}::block_diagonalize::H_eval reads the un-converted series `{ORIG}`", "", loc(src[0]))
    # the converted series replaces H with the same shape / orders
    ctor = [n for n in own_nodes(f) if isinstance(n, ast.Assign) and isinstance(n.value, ast.Call) and call_name(n.value) == "BlockSeries"
            and any(k.arg == "eval" and norm(k.value) == "H_eval" for k in n.value.keywords)]
    ok = len(ctor) == 1 and norm(ctor[0].targets[0]) == "H"
    if ok:
        kw = {k.arg: norm(k.value) for k in ctor[0].value.keywords}
        ok = kw.get("shape") == f"{ORIG}.shape" and kw.get("n_infinite") == f"{ORIG}.n_infinite"
    rep.check(ok, R, f"{MOD}::block_diagonalize the converted series replaces H with the same block shape and number of parameters", "", loc(ctor[0] if ctor else hev))
    alias = [n for n in own_nodes(f) if isinstance(n, ast.Assign) and norm(n.targets[0]) == ORIG and norm(n.value) == "H"]
    rep.check(len(alias) == 1 and alias[0] in guard.body, R, f"{MOD}::block_diagonalize `{ORIG}` is the series H had before the conversion", "", loc(hev))

    # -- the solver of the operator algebra -------------------------------------------------------------------------------
    sel = {}
    for has_ops in (True, False):
        def atom(n, has_ops=has_ops):
            t = norm(canon(n))
            if t == "operators":
                return has_ops
            if t == "solve_sylvester is None":
                return True
            if t == "solve_sylvester is not None":
                return False
            return None
        chosen = set()
        for n in own_nodes(f):
            if isinstance(n, ast.Assign) and norm(n.targets[0]) == "solve_sylvester" and isinstance(n.value, ast.Call) \
                    and call_name(n.value) in ("solve_sylvester_diagonal", "second_quantization.solve_sylvester_2nd_quant", "solve_sylvester_2nd_quant"):
                # path condition of the assignment
                conds = []
                p, child = getattr(n, "_parent", None), n
                while p is not None and p is not f:
                    if isinstance(p, ast.If):
                        conds.append((p.test, any(child is s for s in p.body)))
                    child, p = p, getattr(p, "_parent", None)
                vals = [eval_bool(t, atom) for t, _pol in conds]
                if None in vals:
                    raise AnalysisError(R, f"solver selection depends on `{norm(conds[vals.index(None)][0])[:50]}`")
                if all(v == pol for v, (_t, pol) in zip(vals, conds)):
                    chosen.add(rtext(n.value, {}))
        sel[has_ops] = sorted(chosen)
    ok = sel[True] in (["second_quantization.solve_sylvester_2nd_quant(diagonal)"], ["solve_sylvester_2nd_quant(diagonal)"]) \
        and sel[False] == ["solve_sylvester_diagonal(diagonal, atol=atol)"]
    rep.check(ok, R, f"{MOD}::block_diagonalize operator problems get the operator Sylvester solver, built from the energies of the same H",
              str(sel), loc(f))
    dg = [n for n in own_nodes(f) if isinstance(n, ast.Assign) and norm(n.targets[0]) == "diagonal"]
    ok = len(dg) == 1 and norm(dg[0].value) == "_extract_diagonal(H, atol, use_implicit, operators)" and bool(ctor) and ctor[0].lineno < dg[0].lineno
    rep.check(ok, R, f"{MOD}::block_diagonalize the energies are extracted from the converted H with the operator list", norm(dg[0].value) if dg else "", loc(dg[0] if dg else f))

    # -- exit: post-processing ------------------------------------------------------------------------------------------------
    pe = [d for d in ast.walk(f) if isinstance(d, ast.FunctionDef) and d.name == "postprocessing_eval"]
    if len(pe) != 1:
        raise AnalysisError(R, "postprocessing_eval not found")
    pe = pe[0]
    src = [s for s in pe.body if isinstance(s, ast.Assign) and isinstance(s.value, ast.Subscript) and norm(s.value.slice) == "index"]
    if len(src) != 1:
        raise AnalysisError(R, "postprocessing_eval: read of the computed element not found")
    RES = norm(src[0].targets[0])
    table = {}
    for is_matrix in (True, False):
        for scalar_input in (True, False):
            for one_by_one in (True, False):
                def atom(n):
                    t = norm(canon(n))
                    if t == f"isinstance({RES}, sympy.MatrixBase)":
                        return is_matrix
                    if t == "scalar_input":
                        return scalar_input
                    if t in (f"{RES}.shape == (1, 1)", f"(1, 1) == {RES}.shape"):
                        return one_by_one
                    return None
                got = set()
                for o in outcomes(pe.body, None, env={}, atom=atom, expand=False, opaque=(RES,)):
                    if o.kind != "return":
                        raise AnalysisError(R, "postprocessing_eval: path without return")
                    simplified = False
                    for kind, st, rv in o.seq:
                        if kind == "assign" and isinstance(st, ast.Assign) and norm(st.targets[0]) == RES and st is not src[0]:
                            ew = _entrywise(rv)
                            body_ok = ew is not None and ew[0] == RES and norm(ew[2]) in (
                                f"{ew[1]}._poly_simplify() if isinstance({ew[1]}, NumberOrderedForm) else {ew[1]}",
                                f"{ew[1]} if not isinstance({ew[1]}, NumberOrderedForm) else {ew[1]}._poly_simplify()")
                            if not body_ok:
                                raise AnalysisError(R, f"postprocessing_eval: rebinding `{norm(rv)[:70]}` not understood")
                            simplified = True
                    v = norm(o.value)
                    got.add(("simplified " if simplified else "") + {RES: "element", f"{RES}[0, 0]": "entry [0, 0]"}.get(v, "other:" + v[:40]))
                table[(is_matrix, scalar_input, one_by_one)] = sorted(got)
    bad = {}
    for (is_matrix, scalar_input, one_by_one), got in table.items():
        if not is_matrix:
            want = ["element"]
        elif scalar_input and one_by_one:
            want = ["simplified entry [0, 0]"]
        else:
            want = ["simplified element"]
        if got != want:
            bad[(is_matrix, scalar_input, one_by_one)] = got
    rep.check(not bad, R, f"{MOD}::block_diagonalize::postprocessing_eval results leave through an entry-wise simplification of NumberOrderedForm entries "
              "only; a 1x1 result of a scalar problem is unwrapped", f"disagreeing (matrix, scalar input, 1x1): {bad}" if bad else f"{len(table)} cases", loc(pe))
    wrap = getattr(pe, "_parent", None)
    ctor2 = [n for n in ast.walk(wrap) if isinstance(n, ast.Call) and call_name(n) == "BlockSeries"] if isinstance(wrap, ast.FunctionDef) else []
    ok = len(ctor2) == 1 and isinstance(wrap, ast.FunctionDef) and len(wrap.args.args) == 1
    if ok:
        bs = wrap.args.args[0].arg
        kw = {k.arg: norm(k.value) for k in ctor2[0].keywords}
        ok = kw.get("eval") == "postprocessing_eval" and kw.get("shape") == f"{bs}.shape" and kw.get("n_infinite") == f"{bs}.n_infinite" \
            and norm(src[0].value.value) == bs
    rep.check(ok, R, f"{MOD}::block_diagonalize the post-processed series has the shape and orders of the series it wraps and reads that series", "", loc(pe))
