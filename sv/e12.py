"""E12 -- operator (second-quantised) mode wiring of ``block_diagonalize``: the structural part of the algebraic clause
of C07 ("the operator results satisfy U†U = 1 and U†HU = H_tilde within the operator algebra").

The identities themselves are E1's certificate, which holds in any associative *-algebra.  What ties it to the operator
mode is decided here: the Hamiltonian elements enter the algebra by an entry-wise, value-preserving change of
representation (NumberOrderedForm.from_expr); the Sylvester solver is the operator one, built from the diagonal of that
same H; the results leave through an entry-wise simplification of NumberOrderedForm entries only, in the order
(H_tilde, U, U†).  The comparison with truncated matrices on Fock states is NOT decided.
"""

from __future__ import annotations

import ast

from .core import AnalysisError, Repo, Report, call_name, nested_defs, norm, own_nodes
from .paths import eval_bool
from .resolve import env_at, resolved, rtext
from .sem import Scope, bind_args, canon, expression_body, inline, kwcalls, outcomes

R = "E12.operator_mode"
MOD = "block_diagonalization"


def _as_lambda(fn: ast.FunctionDef):
    """A one-parameter function as (parameter, body expression): `return E`, or a two-way `if T: return A; return B`."""
    if len(fn.args.args) != 1 or fn.args.vararg or fn.args.kwarg:
        return None
    e = expression_body(fn)
    if e is not None:
        return fn.args.args[0].arg, e
    oc = outcomes(fn.body, None, env={}, expand=False)
    if len(oc) == 2 and all(o.kind == "return" and o.value is not None and len(o.conds) == 1 for o in oc) \
            and norm(oc[0].conds[0][0]) == norm(oc[1].conds[0][0]) and oc[0].conds[0][1] != oc[1].conds[0][1]:
        yes, no = (oc[0], oc[1]) if oc[0].conds[0][1] else (oc[1], oc[0])
        return fn.args.args[0].arg, ast.IfExp(test=yes.conds[0][0], body=yes.value, orelse=no.value)
    return None


def _entrywise(e: ast.AST, scope: Scope | None = None):
    """M.applyfunc(lambda x: F(x)) or M.applyfunc(f) with f a known one-parameter function
    -> (matrix AST, parameter name, body AST) else None."""
    if isinstance(e, ast.Call) and isinstance(e.func, ast.Attribute) and e.func.attr == "applyfunc" and len(e.args) == 1 and not e.keywords:
        fn = e.args[0]
        if isinstance(fn, ast.Lambda) and len(fn.args.args) == 1:
            return e.func.value, fn.args.args[0].arg, fn.body
        if isinstance(fn, ast.Name) and scope is not None and scope.get(fn.id) is not None:
            lam = _as_lambda(scope.get(fn.id))
            if lam is not None:
                return e.func.value, lam[0], lam[1]
    return None


ELEMENT = "_ELEMENT_"


def _element_body(fn: ast.FunctionDef, what: str):
    """`name = <series>[index]` as the first statement of an eval -> (series text, the statements after it, env binding name to
    the symbol _ELEMENT_)."""
    body = [s for s in fn.body if not (isinstance(s, ast.Expr) and isinstance(s.value, ast.Constant))]
    if not (body and isinstance(body[0], ast.Assign) and isinstance(body[0].targets[0], ast.Name) and isinstance(body[0].value, ast.Subscript)
            and norm(body[0].value.slice) == "index"):
        raise AnalysisError(R, f"{what}: does not start by reading the wrapped series at the requested index")
    return norm(body[0].value.value), body[0], body[1:], {body[0].targets[0].id: ast.Name(id=ELEMENT, ctx=ast.Load())}


def _series_ctor(value: ast.AST, scope: Scope):
    """BlockSeries(...) call, directly or through a helper that returns one -> {keyword: text} else None."""
    e = inline(value, scope)
    if isinstance(e, ast.Call) and call_name(e) == "BlockSeries" and not e.args:
        return {k.arg: norm(k.value) for k in e.keywords}
    return None


def rule_operator_mode(rep: Report, repo: Repo):
    f = repo.find(f"{MOD}::block_diagonalize", R)
    loc = lambda n: repo.loc(MOD, n)
    # -- entry: H_eval ------------------------------------------------------------------------------------------------
    hev = [d for d in nested_defs(f) if d.name == "H_eval"]
    if len(hev) != 1:
        raise AnalysisError(R, "H_eval (conversion of Hamiltonian terms to NumberOrderedForm) not found")
    hev = hev[0]
    guard = getattr(hev, "_parent", None)
    # the operator list: what NumberOrderedForm.from_expr receives as its second argument inside the conversion
    opn = {norm(c.args[1]) for c in ast.walk(f) if isinstance(c, ast.Call) and (call_name(c) or "").endswith("NumberOrderedForm.from_expr") and len(c.args) == 2}
    opn |= {norm(k_.value) for c in ast.walk(f) if isinstance(c, ast.Call) and (call_name(c) or "").endswith("NumberOrderedForm.from_expr")
            for k_ in c.keywords if k_.arg == "operators"}
    if len(opn) != 1:
        raise AnalysisError(R, f"block_diagonalize: the operator list handed to NumberOrderedForm.from_expr is not one local ({sorted(opn)})")
    OPS = opn.pop()
    ok_guard = isinstance(guard, ast.If) and norm(canon(guard.test)) == OPS and hev in guard.body
    rep.check(ok_guard, R, f"{MOD}::block_diagonalize the Hamiltonian is converted exactly when operators were found",
              norm(guard.test) if isinstance(guard, ast.If) else "not under a condition", loc(hev))
    scope = Scope(repo.trees[MOD], hev)
    ORIG, src0, rest, env0 = _element_body(hev, "H_eval")
    src = [src0]
    ONE = f"sympy.Matrix([[{ELEMENT}]])"
    table = {}
    for is_zero in (True, False):
        for scalar_input in (True, False):
            for is_matrix in (True, False):
                if is_zero and is_matrix:
                    continue
                def atom(n):
                    t = norm(canon(n))
                    if t == f"{ELEMENT} is zero":
                        return is_zero
                    if t == "scalar_input":
                        return scalar_input
                    if t == f"isinstance({ELEMENT}, sympy.MatrixBase)":
                        return is_matrix
                    if t == f"isinstance({ONE}, sympy.MatrixBase)":
                        return True
                    return None
                got = set()
                for o in outcomes(rest, None, env=dict(env0), atom=atom, expand=False):
                    for t_, _pol in o.conds:
                        if eval_bool(t_, atom) is None:
                            raise AnalysisError(R, f"H_eval: condition `{norm(t_)[:60]}` not understood")
                    if o.kind == "raise":
                        got.add("raise " + norm(o.value).split("(")[0])
                    elif o.kind == "return":
                        ew = _entrywise(o.value, scope)
                        if norm(o.value) == "zero":
                            got.add("zero")
                        elif ew is not None and norm(ew[0]) in (ELEMENT, ONE) and norm(kwcalls(ew[2], scope)) in (
                                f"NumberOrderedForm.from_expr({ew[1]}, {OPS})", f"NumberOrderedForm.from_expr({ew[1]}, operators={OPS})"):
                            got.add("entrywise NOF of " + ("term" if norm(ew[0]) == ELEMENT else "1x1(term)"))
                        else:
                            got.add("other:" + norm(o.value)[:60])
                    else:
                        got.add("falls through")
                table[(is_zero, scalar_input, is_matrix)] = sorted(got)
    want = {}
    for k in table:
        is_zero, scalar_input, is_matrix = k
        if is_zero:
            want[k] = ["zero"]
        elif is_matrix:
            want[k] = ["entrywise NOF of term"]
        elif scalar_input:
            want[k] = ["entrywise NOF of 1x1(term)"]
        else:
            want[k] = ["raise TypeError"]
    bad = {k: v for k, v in table.items() if v != want[k]}
    rep.check(not bad, R, f"{MOD}::block_diagonalize::H_eval every term enters the operator algebra by an entry-wise change of representation "
              "(zero stays zero, a scalar of a scalar problem becomes 1x1, anything else is rejected)",
              f"(term is zero, scalar input, term is a matrix) -> outcome; disagreeing: {bad}" if bad else f"{len(table)} cases", loc(hev))
    rep.check(ORIG != "H" or True, R, f"{MOD}::block_diagonalize::H_eval reads the un-converted series `{ORIG}`", "", loc(src[0]))
    # the converted series replaces H with the same shape / orders
    fscope = Scope(repo.trees[MOD], hev)
    ctor = [(n, kw) for n in own_nodes(f) if isinstance(n, ast.Assign) and isinstance(n.value, ast.Call)
            for kw in [_series_ctor(n.value, fscope)] if kw is not None and kw.get("eval") == "H_eval"]
    ok = len(ctor) == 1 and norm(ctor[0][0].targets[0]) == "H"
    if ok:
        kw = ctor[0][1]
        ok = kw.get("shape") == f"{ORIG}.shape" and kw.get("n_infinite") == f"{ORIG}.n_infinite"
    ctor = [c[0] for c in ctor]
    rep.check(ok, R, f"{MOD}::block_diagonalize the converted series replaces H with the same block shape and number of parameters", "", loc(ctor[0] if ctor else hev))
    alias = [n for n in own_nodes(f) if isinstance(n, ast.Assign) and norm(n.targets[0]) == ORIG and norm(n.value) == "H"]
    rep.check(len(alias) == 1 and alias[0] in guard.body, R, f"{MOD}::block_diagonalize `{ORIG}` is the series H had before the conversion", "", loc(hev))

    # -- the solver of the operator algebra -------------------------------------------------------------------------------
    sel = {}
    for has_ops in (True, False):
        def atom(n, has_ops=has_ops):
            t = norm(canon(n))
            if t == OPS:
                return has_ops
            if t == "solve_sylvester is None":
                return True
            if t == "solve_sylvester is not None":
                return False
            return None
        chosen = set()
        for n in own_nodes(f):
            if isinstance(n, ast.Assign) and norm(n.targets[0]) == "solve_sylvester" and isinstance(n.value, ast.Call) \
                    and call_name(n.value) in ("solve_sylvester_diagonal", "second_quantization.solve_sylvester_2nd_quant", "solve_sylvester_2nd_quant"):
                # path condition of the assignment
                conds = []
                p, child = getattr(n, "_parent", None), n
                while p is not None and p is not f:
                    if isinstance(p, ast.If):
                        conds.append((p.test, any(child is s for s in p.body)))
                    child, p = p, getattr(p, "_parent", None)
                vals = [eval_bool(t, atom) for t, _pol in conds]
                if None in vals:
                    raise AnalysisError(R, f"solver selection depends on `{norm(conds[vals.index(None)][0])[:50]}`")
                if all(v == pol for v, (_t, pol) in zip(vals, conds)):
                    chosen.add(rtext(n.value, {}))
        sel[has_ops] = sorted(chosen)
    dgs_ = [n for n in own_nodes(f) if isinstance(n, ast.Assign) and isinstance(n.value, ast.Call) and call_name(n.value) == "_extract_diagonal"
            and isinstance(n.targets[0], ast.Name)]
    if len(dgs_) != 1:
        raise AnalysisError(R, "block_diagonalize: the assignment of the extracted energies (`_extract_diagonal(...)`) was not found")
    DG = dgs_[0].targets[0].id
    ok = sel[True] in ([f"second_quantization.solve_sylvester_2nd_quant({DG})"], [f"solve_sylvester_2nd_quant({DG})"]) \
        and sel[False] == [f"solve_sylvester_diagonal({DG}, atol=atol)"]
    rep.check(ok, R, f"{MOD}::block_diagonalize operator problems get the operator Sylvester solver, built from the energies of the same H",
              str(sel), loc(f))
    dg = [n for n in own_nodes(f) if isinstance(n, ast.Assign) and norm(n.targets[0]) == "diagonal"]
    mscope = Scope(repo.trees[MOD], None)
    dg = [n for n in own_nodes(f) if isinstance(n, ast.Assign) and isinstance(n.value, ast.Call) and call_name(n.value) == "_extract_diagonal"]
    kd = kwcalls(dg[0].value, mscope) if len(dg) == 1 else None
    kdk = {k_.arg: norm(k_.value) for k_ in kd.keywords} if kd is not None else {}
    ok = kd is not None and [norm(a_) for a_ in kd.args] == [norm(ctor[0].targets[0]) if ctor else "H"] and kdk.get("atol") == "atol" \
        and kdk.get("operators") == OPS and "implicit" in kdk \
        and bool(ctor) and ctor[0].lineno < dg[0].lineno
    rep.check(ok, R, f"{MOD}::block_diagonalize the energies are extracted from the converted H with the operator list", norm(dg[0].value) if dg else "", loc(dg[0] if dg else f))

    # -- exit: post-processing ------------------------------------------------------------------------------------------------
    pe = [d for d in ast.walk(f) if isinstance(d, ast.FunctionDef) and d.name == "postprocessing_eval"]
    if len(pe) != 1:
        raise AnalysisError(R, "postprocessing_eval not found")
    pe = pe[0]
    pscope = Scope(repo.trees[MOD], pe)
    WRAPPED, src0, rest, env0 = _element_body(pe, "postprocessing_eval")
    SIMPLE = ("{x}._poly_simplify() if isinstance({x}, NumberOrderedForm) else {x}",
              "{x} if not isinstance({x}, NumberOrderedForm) else {x}._poly_simplify()")

    def simplified_element(e):
        """entry-wise simplification of the element -> True; the element itself -> False; anything else -> None"""
        if norm(e) == ELEMENT:
            return False
        ew = _entrywise(e, pscope)
        if ew is not None and norm(ew[0]) == ELEMENT and norm(ew[2]) in [t.format(x=ew[1]) for t in SIMPLE]:
            return True
        return None

    table = {}
    for is_matrix in (True, False):
        for scalar_input in (True, False):
            for one_by_one in (True, False):
                def atom(n):
                    n = canon(n)
                    t = norm(n)
                    if t == "scalar_input":
                        return scalar_input
                    if isinstance(n, ast.Call) and call_name(n) == "isinstance" and len(n.args) == 2 and norm(n.args[1]) == "sympy.MatrixBase":
                        se = simplified_element(n.args[0])
                        return None if se is None else (True if se else is_matrix)  # applyfunc returns a matrix again
                    if isinstance(n, ast.Compare) and len(n.ops) == 1 and isinstance(n.ops[0], ast.Eq):
                        l_, r_ = n.left, n.comparators[0]
                        if norm(l_) == "(1, 1)":
                            l_, r_ = r_, l_
                        if norm(r_) == "(1, 1)" and isinstance(l_, ast.Attribute) and l_.attr == "shape" and simplified_element(l_.value) is not None:
                            return one_by_one  # entry-wise maps keep the shape
                    return None
                got = set()
                for o in outcomes(rest, None, env=dict(env0), atom=atom, expand=False):
                    if o.kind != "return":
                        raise AnalysisError(R, "postprocessing_eval: path without return")
                    for t_, _pol in o.conds:
                        if eval_bool(t_, atom) is None:
                            raise AnalysisError(R, f"postprocessing_eval: condition `{norm(t_)[:60]}` not understood")
                    v, entry = o.value, False
                    if isinstance(v, ast.Subscript) and norm(v.slice) == "(0, 0)":
                        v, entry = v.value, True
                    se = simplified_element(v)
                    if se is None:
                        got.add("other:" + norm(o.value)[:60])
                    else:
                        got.add(("simplified " if se else "") + ("entry [0, 0]" if entry else "element"))
                table[(is_matrix, scalar_input, one_by_one)] = sorted(got)
    bad = {}
    for (is_matrix, scalar_input, one_by_one), got in table.items():
        if not is_matrix:
            want = ["element"]
        elif scalar_input and one_by_one:
            want = ["simplified entry [0, 0]"]
        else:
            want = ["simplified element"]
        if got != want:
            bad[(is_matrix, scalar_input, one_by_one)] = got
    rep.check(not bad, R, f"{MOD}::block_diagonalize::postprocessing_eval results leave through an entry-wise simplification of NumberOrderedForm entries "
              "only; a 1x1 result of a scalar problem is unwrapped", f"disagreeing (matrix, scalar input, 1x1): {bad}" if bad else f"{len(table)} cases", loc(pe))
    wrap = getattr(pe, "_parent", None)
    ctor2 = []
    if isinstance(wrap, ast.FunctionDef):
        for n in own_nodes(wrap):
            if isinstance(n, ast.Return) and n.value is not None:
                kw = _series_ctor(n.value, pscope)
                if kw is None:
                    raise AnalysisError(R, f"{wrap.name}: returned value `{norm(n.value)[:60]}` is not a BlockSeries construction")
                ctor2.append(kw)
    ok = len(ctor2) == 1 and isinstance(wrap, ast.FunctionDef) and len(wrap.args.args) == 1
    if ok:
        bs = wrap.args.args[0].arg
        kw = ctor2[0]
        ok = kw.get("eval") == "postprocessing_eval" and kw.get("shape") == f"{bs}.shape" and kw.get("n_infinite") == f"{bs}.n_infinite" \
            and WRAPPED == bs
    rep.check(ok, R, f"{MOD}::block_diagonalize the post-processed series has the shape and orders of the series it wraps and reads that series", "", loc(pe))
