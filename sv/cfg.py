"""Statement-level control-flow graph with exceptional edges (stdlib ``ast`` only).

Nodes are small objects wrapping one simple statement, or the *header expression*
of a compound statement (``if`` test, ``for`` iterator, ``while`` test, ``with``
item, ``match`` subject, ``except`` clause).  Edges carry a kind:

    'n'  normal fall-through        't'/'f'  branch taken / not taken
    'e'  exceptional (the statement raised)    'loop' back edge

Three synthetic nodes: ENTRY, EXIT (normal return / fall off the end), RAISE
(exception leaves the function).  ``try/finally`` is handled by building a copy
of the ``finally`` suite per way of leaving the protected region.
"""

from __future__ import annotations

import ast
from collections import deque
from typing import Callable, Iterable

from .core import AnalysisError, norm

BUILTIN_PARENTS = {
    "BaseException": None,
    "Exception": "BaseException",
    "KeyboardInterrupt": "BaseException",
    "SystemExit": "BaseException",
    "GeneratorExit": "BaseException",
    "RuntimeError": "Exception",
    "NotImplementedError": "RuntimeError",
    "RecursionError": "RuntimeError",
    "ValueError": "Exception",
    "TypeError": "Exception",
    "KeyError": "LookupError",
    "IndexError": "LookupError",
    "LookupError": "Exception",
    "AttributeError": "Exception",
    "ImportError": "Exception",
    "ModuleNotFoundError": "ImportError",
    "ArithmeticError": "Exception",
    "ZeroDivisionError": "ArithmeticError",
    "AssertionError": "Exception",
    "StopIteration": "Exception",
    "OSError": "Exception",
    "MemoryError": "Exception",
}


def is_subclass(cls: str, parent: str) -> bool | None:
    """True/False for known builtin classes, None when unknown."""
    if cls not in BUILTIN_PARENTS or parent not in BUILTIN_PARENTS:
        return None
    c: str | None = cls
    while c is not None:
        if c == parent:
            return True
        c = BUILTIN_PARENTS[c]
    return False


class Node:
    __slots__ = ("id", "kind", "ast", "label", "lineno")

    def __init__(self, id_, kind, node=None, label=""):
        self.id = id_
        self.kind = kind  # entry exit raise stmt test iter with subject handler
        self.ast = node
        self.label = label or (norm(node)[:80] if node is not None else kind)
        self.lineno = getattr(node, "lineno", 0)

    def __repr__(self):
        return f"<{self.id}:{self.kind}@{self.lineno} {self.label[:40]}>"


def default_may_raise(node: ast.AST) -> bool:
    """A statement may raise if it contains a call, raise or assert (attribute and
    subscript loads on local containers are taken as non-raising)."""
    if isinstance(node, (ast.Raise, ast.Assert)):
        return True
    stack = [node]
    while stack:
        n = stack.pop()
        if isinstance(n, (ast.Call, ast.Await, ast.Yield, ast.YieldFrom)):
            return True
        if isinstance(n, (ast.FunctionDef, ast.AsyncFunctionDef, ast.Lambda, ast.ClassDef)) and n is not node:
            continue
        stack.extend(ast.iter_child_nodes(n))
    return False


class CFG:
    def __init__(self, func: ast.AST, may_raise: Callable[[ast.AST], bool] = default_may_raise):
        self.func = func
        self.may_raise = may_raise
        self.nodes: list[Node] = []
        self.succ: dict[int, list[tuple[int, str]]] = {}
        self.entry = self._new("entry")
        self.exit = self._new("exit")
        self.raise_exit = self._new("raise")
        self._frames: list[dict] = []  # try frames
        self._loops: list[dict] = []
        body = func.body if not isinstance(func, ast.Lambda) else [ast.Expr(func.body)]
        out = self._seq(body, [(self.entry.id, "n")])
        for p, k in out:
            self._edge(p, self.exit.id, k)
        self.pred: dict[int, list[tuple[int, str]]] = {n.id: [] for n in self.nodes}
        for a, lst in self.succ.items():
            for b, k in lst:
                self.pred[b].append((a, k))

    # -- construction helpers ---------------------------------------------------
    def _new(self, kind, node=None, label="") -> Node:
        n = Node(len(self.nodes), kind, node, label)
        self.nodes.append(n)
        self.succ[n.id] = []
        return n

    def _edge(self, a: int, b: int, kind: str):
        if (b, kind) not in self.succ[a]:
            self.succ[a].append((b, kind))

    def _connect(self, preds, node: Node):
        for p, k in preds:
            self._edge(p, node.id, k)

    def _raise_from(self, node: Node, exc_class: str | None = None, depth: int | None = None):
        """Add exceptional edges out of ``node`` to the handlers that can see it."""
        frames = self._frames if depth is None else self._frames[:depth]
        i = len(frames) - 1
        preds = [(node.id, "e")]
        while i >= 0:
            fr = frames[i]
            if fr["phase"] == "body":
                caught = False
                for hnode, hclasses in fr["handlers"]:
                    match = self._handler_matches(exc_class, hclasses)
                    if match is False:
                        continue
                    for p, k in preds:
                        self._edge(p, hnode.id, k)
                    if match is True:
                        caught = True
                        break
                if caught:
                    return
            # leaving this frame exceptionally: run its finally suite (a fresh copy)
            if fr["finalbody"] and fr["phase"] != "final":
                saved, self._frames = self._frames, frames[:i]
                fr2 = dict(fr, phase="final")
                self._frames = frames[:i] + [fr2]
                preds = self._seq(fr["finalbody"], preds)
                self._frames = saved
                preds = [(p, "e") for p, _ in preds]
            i -= 1
        for p, k in preds:
            self._edge(p, self.raise_exit.id, "e" if k != "e" else k)

    @staticmethod
    def _handler_matches(exc_class: str | None, hclasses: list[str] | None):
        """True: certainly caught; False: certainly not; None: maybe."""
        if hclasses is None:  # bare except
            return True
        if "BaseException" in hclasses:
            return True
        if exc_class is None:
            return None
        res: bool | None = False
        for h in hclasses:
            r = is_subclass(exc_class, h)
            if r is True:
                return True
            if r is None:
                res = None
        return res

    def _leave_through_finally(self, preds, upto: int):
        """Route a return/break/continue through enclosing finally suites down to frame index ``upto``."""
        i = len(self._frames) - 1
        while i >= upto:
            fr = self._frames[i]
            if fr["finalbody"] and fr["phase"] != "final":
                saved = self._frames
                self._frames = saved[:i] + [dict(fr, phase="final")]
                preds = self._seq(fr["finalbody"], preds)
                self._frames = saved
            i -= 1
        return preds

    # -- statements -------------------------------------------------------------
    def _seq(self, stmts: list[ast.stmt], preds):
        for s in stmts:
            preds = self._stmt(s, preds)
        return preds

    def _simple(self, s: ast.AST, preds, kind="stmt") -> Node:
        n = self._new(kind, s)
        self._connect(preds, n)
        if self.may_raise(s):
            self._raise_from(n)
        return n

    def _stmt(self, s: ast.stmt, preds):
        if isinstance(s, (ast.FunctionDef, ast.AsyncFunctionDef, ast.ClassDef)):
            n = self._new("stmt", s, f"def {s.name}")
            self._connect(preds, n)
            return [(n.id, "n")]
        if isinstance(s, ast.Return):
            n = self._simple(s, preds)
            out = self._leave_through_finally([(n.id, "n")], 0)
            for p, k in out:
                self._edge(p, self.exit.id, k)
            return []
        if isinstance(s, ast.Raise):
            n = self._new("stmt", s)
            self._connect(preds, n)
            cls = None
            if s.exc is not None:
                e = s.exc.func if isinstance(s.exc, ast.Call) else s.exc
                if isinstance(e, ast.Name):
                    cls = e.id
            self._raise_from(n, cls)
            return []
        if isinstance(s, ast.If):
            t = self._simple(s.test, preds, "test")
            a = self._seq(s.body, [(t.id, "t")])
            b = self._seq(s.orelse, [(t.id, "f")]) if s.orelse else [(t.id, "f")]
            return a + b
        if isinstance(s, (ast.For, ast.AsyncFor)):
            it = self._simple(s.iter, preds, "iter")
            it.label = f"for {norm(s.target)} in {norm(s.iter)}"[:80]
            loop = {"head": it, "breaks": [], "frame_depth": len(self._frames)}
            self._loops.append(loop)
            body_out = self._seq(s.body, [(it.id, "t")])
            self._loops.pop()
            for p, k in body_out:
                self._edge(p, it.id, "loop")
            orelse_out = self._seq(s.orelse, [(it.id, "f")]) if s.orelse else [(it.id, "f")]
            return orelse_out + loop["breaks"]
        if isinstance(s, ast.While):
            t = self._simple(s.test, preds, "test")
            loop = {"head": t, "breaks": [], "frame_depth": len(self._frames)}
            self._loops.append(loop)
            body_out = self._seq(s.body, [(t.id, "t")])
            self._loops.pop()
            for p, k in body_out:
                self._edge(p, t.id, "loop")
            always = isinstance(s.test, ast.Constant) and bool(s.test.value)
            orelse_in = [] if always else [(t.id, "f")]
            orelse_out = self._seq(s.orelse, orelse_in) if s.orelse else orelse_in
            return orelse_out + loop["breaks"]
        if isinstance(s, ast.Break):
            n = self._new("stmt", s)
            self._connect(preds, n)
            if not self._loops:
                raise AnalysisError("cfg", "break outside loop")
            lp = self._loops[-1]
            lp["breaks"] += self._leave_through_finally([(n.id, "n")], lp["frame_depth"])
            return []
        if isinstance(s, ast.Continue):
            n = self._new("stmt", s)
            self._connect(preds, n)
            lp = self._loops[-1]
            for p, k in self._leave_through_finally([(n.id, "n")], lp["frame_depth"]):
                self._edge(p, lp["head"].id, "loop")
            return []
        if isinstance(s, (ast.With, ast.AsyncWith)):
            cur = preds
            for item in s.items:
                w = self._simple(item.context_expr, cur, "with")
                cur = [(w.id, "n")]
            return self._seq(s.body, cur)
        if isinstance(s, (ast.Try, getattr(ast, "TryStar", ast.Try))):
            handlers = []
            for h in s.handlers:
                hn = self._new("handler", h, f"except {norm(h.type) if h.type else ''}")
                if h.type is None:
                    classes = None
                elif isinstance(h.type, ast.Tuple):
                    classes = [norm(e) for e in h.type.elts]
                else:
                    classes = [norm(h.type)]
                handlers.append((hn, classes))
            frame = {"handlers": handlers, "finalbody": s.finalbody, "phase": "body"}
            self._frames.append(frame)
            body_out = self._seq(s.body, preds)
            frame["phase"] = "else"
            else_out = self._seq(s.orelse, body_out) if s.orelse else body_out
            frame["phase"] = "handler"
            h_out = []
            for (hn, _), h in zip(handlers, s.handlers):
                h_out += self._seq(h.body, [(hn.id, "n")])
            self._frames.pop()
            out = else_out + h_out
            if s.finalbody:
                out = self._seq(s.finalbody, out)
            return out
        if isinstance(s, ast.Match):
            subj = self._simple(s.subject, preds, "subject")
            out = []
            cur = [(subj.id, "n")]
            irrefutable = False
            for case in s.cases:
                c = self._new("test", case.pattern, f"case {norm(case.pattern)}")
                self._connect(cur, c)
                ins = [(c.id, "t")]
                if case.guard is not None:
                    g = self._simple(case.guard, ins, "test")
                    ins = [(g.id, "t")]
                    cur = [(c.id, "f"), (g.id, "f")]
                else:
                    cur = [(c.id, "f")]
                    if isinstance(case.pattern, ast.MatchAs) and case.pattern.pattern is None:
                        irrefutable = True
                        cur = []
                out += self._seq(case.body, ins)
            return out + ([] if irrefutable else cur)
        # simple statements
        n = self._simple(s, preds)
        return [(n.id, "n")]

    # -- queries ------------------------------------------------------------------
    def node_of(self, a: ast.AST) -> list[Node]:
        return [n for n in self.nodes if n.ast is a]

    def stmt_nodes(self, pred: Callable[[Node], bool]) -> list[Node]:
        return [n for n in self.nodes if pred(n)]

    def reachable(self, start: int, stop: set[int] | None = None, kinds: set[str] | None = None):
        seen, dq = {start}, deque([start])
        while dq:
            a = dq.popleft()
            if stop and a in stop and a != start:
                continue
            for b, k in self.succ[a]:
                if kinds and k not in kinds:
                    continue
                if b not in seen:
                    seen.add(b)
                    dq.append(b)
        return seen

    def escape_path(self, start: int, targets: set[int], ends: set[int],
                    through_exc: bool = True, first_edges: set[str] | None = None):
        """Witness path from ``start`` to a node of ``ends`` avoiding ``targets``.

        A target node *discharges* only on its normal out-edges: the search may
        still leave a target through its exceptional edge when ``through_exc``
        (the statement raised before completing).  Returns list of nodes or None.
        """
        prev: dict[int, int | None] = {start: None}
        dq = deque([start])
        while dq:
            a = dq.popleft()
            if a in ends and a != start:
                path = []
                c: int | None = a
                while c is not None:
                    path.append(self.nodes[c])
                    c = prev[c]
                return list(reversed(path))
            for b, k in self.succ[a]:
                if a == start and first_edges is not None and k not in first_edges:
                    continue
                if a in targets and a != start and not (through_exc and k == "e"):
                    continue
                if b not in prev:
                    prev[b] = a
                    dq.append(b)
        return None

    def dominators(self) -> dict[int, set[int]]:
        reach = self.reachable(self.entry.id)
        dom = {n: set(reach) for n in reach}
        dom[self.entry.id] = {self.entry.id}
        changed = True
        order = sorted(reach)
        while changed:
            changed = False
            for n in order:
                if n == self.entry.id:
                    continue
                ps = [p for p, _ in self.pred[n] if p in reach]
                new = set.intersection(*(dom[p] for p in ps)) if ps else set()
                new = new | {n}
                if new != dom[n]:
                    dom[n] = new
                    changed = True
        return dom

    def dominated_by_edge(self, node: int, test: int, kind: str) -> bool:
        """Every path ENTRY -> node passes through edge (test --kind--> .)."""
        # remove the edge's alternatives: node must be unreachable when the test's
        # `kind` edges are deleted
        seen, dq = {self.entry.id}, deque([self.entry.id])
        while dq:
            a = dq.popleft()
            for b, k in self.succ[a]:
                if a == test and k == kind:
                    continue
                if b not in seen:
                    seen.add(b)
                    dq.append(b)
        return node not in seen

    def dump(self) -> str:
        lines = []
        for n in self.nodes:
            lines.append(f"{n!r} -> {[(self.nodes[b].id, k) for b, k in self.succ[n.id]]}")
        return "\n".join(lines)
