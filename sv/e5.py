"""E5 -- validation guards (C20): presence, polarity (truth table) and dominance.

A *guard* is a ``raise`` statement together with its path condition inside one
function: the conjunction of the enclosing ``if`` tests (with polarity) and of the
negated tests of preceding early exits in the enclosing blocks.  Conditions are
abstracted to boolean formulas over canonical atoms and compared by truth table,
so De-Morgan / nesting / early-return rewrites do not matter.
"""

from __future__ import annotations

import ast
from itertools import product

from .cfg import CFG
from .core import AnalysisError, Repo, Report, call_name, dotted, nested_defs, norm, own_nodes
from .paths import bool_atoms, eval_bool

RULE = "E5"
MOD = "block_diagonalization"


# ---------------------------------------------------------------------------
# path conditions
# ---------------------------------------------------------------------------


def _always_exits(stmts: list[ast.stmt]) -> bool:
    if not stmts:
        return False
    last = stmts[-1]
    if isinstance(last, (ast.Raise, ast.Return, ast.Continue, ast.Break)):
        return True
    if isinstance(last, ast.If) and last.orelse:
        return _always_exits(last.body) and _always_exits(last.orelse)
    return False


def _ends_in_raise(stmts) -> bool:
    return bool(stmts) and isinstance(stmts[-1], ast.Raise)


def path_condition(node: ast.AST, func: ast.AST, sibling_validations: bool = False):
    """[(test_expr, polarity)] literals that hold when ``node`` executes (within func).
    Negations of preceding sibling `if ...: raise` validations are unrelated checks and are
    left out unless ``sibling_validations``."""
    lits = []
    child = node
    p = getattr(node, "_parent", None)
    while p is not None and child is not func:
        # which block of p contains child?
        for field in ("body", "orelse", "finalbody"):
            block = getattr(p, field, None)
            if isinstance(block, list) and any(child is s for s in block):
                idx = [i for i, s in enumerate(block) if s is child][0]
                # preceding early exits in the same block (not at the function's top level:
                # there they are unrelated validations, irrelevant to this guard's own meaning)
                for s in (block[:idx] if p is not func else []):
                    if isinstance(s, ast.If) and _always_exits(s.body) and not s.orelse:
                        if _ends_in_raise(s.body) and not sibling_validations:
                            continue
                        lits.append((s.test, False))
                    elif isinstance(s, ast.If) and s.orelse and _always_exits(s.orelse) and not _always_exits(s.body):
                        lits.append((s.test, True))
                if isinstance(p, ast.If):
                    lits.append((p.test, field == "body"))
                break
        child, p = p, getattr(p, "_parent", None)
    return lits


_SCOPE = {"scope": None}


def _local_names(func) -> set:
    names = set()
    comp_bound = set()
    for n in ast.walk(func):
        if isinstance(n, ast.comprehension):
            for x in ast.walk(n.target):
                if isinstance(x, ast.Name):
                    comp_bound.add(id(x))
    for n in ast.walk(func):
        if isinstance(n, ast.Name) and isinstance(n.ctx, ast.Store) and id(n) not in comp_bound:
            names.add(n.id)
    a = func.args
    params = {x.arg for x in [*a.posonlyargs, *a.args, *a.kwonlyargs]}
    if a.vararg:
        params.add(a.vararg.arg)
    # parameters of enclosing functions are API names too
    p = getattr(func, "_parent", None)
    while p is not None:
        if isinstance(p, ast.FunctionDef):
            params |= {x.arg for x in [*p.args.posonlyargs, *p.args.args, *p.args.kwonlyargs]}
        p = getattr(p, "_parent", None)
    return names - params


def resolve_lits(lits, func):
    """Make guard tests insensitive to local naming: a bare local flag (single boolean-valued assignment)
    is replaced by its definition, then every local name is alpha-renamed to $1, $2, ... per test."""
    from .resolve import clone

    locals_ = _local_names(func)
    ren: dict = {}
    out = []
    for t, pol in reversed(lits):  # outermost condition first: numbering is shared by the whole path condition
        t2 = _expand_flags(clone(t), func, locals_, 0)
        out.append((_alpha(t2, locals_, ren), pol))
    return list(reversed(out))


def _single_def(func, name):
    vals = [n.value for n in ast.walk(func) if isinstance(n, ast.Assign) and len(n.targets) == 1
            and isinstance(n.targets[0], ast.Name) and n.targets[0].id == name]
    # any other binding of the name (augmented assignment, loop target, walrus, with-as) makes the single assignment meaningless
    for n in ast.walk(func):
        if isinstance(n, ast.AugAssign) and isinstance(n.target, ast.Name) and n.target.id == name:
            return None
        if isinstance(n, (ast.For, ast.comprehension)) and any(isinstance(x, ast.Name) and x.id == name for x in ast.walk(n.target)):
            return None
        if isinstance(n, ast.NamedExpr) and n.target.id == name:
            return None
    return vals[0] if len(vals) == 1 else None


def _expand_flags(e, func, locals_, depth):
    from .resolve import clone

    class T(ast.NodeTransformer):
        def visit_Name(self, node):
            if depth < 2 and isinstance(node.ctx, ast.Load) and node.id in locals_:
                d = _single_def(func, node.id)
                if d is not None and (_is_boolean_expr(d) or _is_set_expr(d) or _is_index_abbreviation(d) or _is_attribute_abbreviation(d)):
                    return _expand_flags(clone(d), func, locals_, depth + 1)
            return node
    return T().visit(e)


def _is_attribute_abbreviation(d) -> bool:
    """`free = operator.free_symbols`: a name for an attribute (chain) of another name, nothing computed."""
    cur = d
    while isinstance(cur, ast.Attribute):
        cur = cur.value
    return isinstance(d, ast.Attribute) and isinstance(cur, ast.Name)


def _is_index_abbreviation(d) -> bool:
    """`n = H.shape[0]`, `last = H.shape[0] - 1`: a name for a dimension / index computed by attribute access and integer arithmetic."""
    has_shape = any(isinstance(n, ast.Attribute) and n.attr == "shape" for n in ast.walk(d))
    return has_shape and all(isinstance(n, (ast.Attribute, ast.Subscript, ast.BinOp, ast.Constant, ast.Name, ast.operator, ast.expr_context,
                                            ast.UnaryOp, ast.unaryop)) for n in ast.walk(d))


def _is_set_expr(d) -> bool:
    """`set(a) | {1}`-like definitions of an allowed/forbidden set used by one guard."""
    return isinstance(d, ast.Set) or (isinstance(d, ast.BinOp) and isinstance(d.op, (ast.BitOr, ast.BitAnd))
                                     and any(isinstance(x, ast.Set) or (isinstance(x, ast.Call) and call_name(x) in ("set", "frozenset"))
                                             for x in (d.left, d.right)))


def _is_boolean_expr(d) -> bool:
    if isinstance(d, (ast.Compare, ast.BoolOp)):
        return True
    if isinstance(d, ast.UnaryOp) and isinstance(d.op, ast.Not):
        return True
    if isinstance(d, ast.Call) and call_name(d) in ("isinstance", "any", "all", "hasattr", "callable", "bool", "sparse.issparse"):
        return True
    return False


def _alpha(e, locals_, ren=None):
    ren = {} if ren is None else ren
    bound_here = set()
    for n in ast.walk(e):
        if isinstance(n, ast.comprehension):
            for x in ast.walk(n.target):
                if isinstance(x, ast.Name):
                    bound_here.add(x.id)
    locals_ = locals_ - bound_here

    class T(ast.NodeTransformer):
        def visit_Name(self, node):
            if node.id in locals_:
                return ast.copy_location(ast.Name(id="L", ctx=node.ctx), node)
            return node
    return T().visit(e)


def canon_atom(a: ast.AST):
    """-> (text, polarity): inlined helpers, canonical idioms, alpha-renamed comprehension variables,
    `X is None` / `!=` / `not in` / `>=` / `any(not P)` normalised to a positive atom plus polarity."""
    from .resolve import resolved
    from .sem import canon, inline

    if _SCOPE["scope"] is not None:
        a = inline(a, _SCOPE["scope"])
    a = canon(a)
    a = resolved(a, {})  # alpha-renames comprehension variables

    class _SortEq(ast.NodeTransformer):
        """== / != inside the atom (`(L == L.T).all()`): one operand order"""
        def visit_Compare(self, node):
            self.generic_visit(node)
            if len(node.ops) == 1 and isinstance(node.ops[0], (ast.Eq, ast.NotEq)) and not isinstance(node.comparators[0], ast.Constant) \
                    and norm(node.comparators[0]) < norm(node.left):
                return ast.Compare(left=node.comparators[0], ops=node.ops, comparators=[node.left])
            return node
    if not isinstance(a, ast.Compare):
        a = _SortEq().visit(a)
    pol = True
    while isinstance(a, ast.UnaryOp) and isinstance(a.op, ast.Not):
        a, pol = a.operand, not pol
    if isinstance(a, ast.Call) and call_name(a) == "any" and len(a.args) == 1 and isinstance(a.args[0], ast.GeneratorExp):
        g = a.args[0]
        pos = None
        if isinstance(g.elt, ast.UnaryOp) and isinstance(g.elt.op, ast.Not):
            pos = g.elt.operand
        elif isinstance(g.elt, ast.Compare) and len(g.elt.ops) == 1 and isinstance(g.elt.ops[0], (ast.NotIn, ast.IsNot, ast.NotEq)):
            flip = {ast.NotIn: ast.In, ast.IsNot: ast.Is, ast.NotEq: ast.Eq}[type(g.elt.ops[0])]
            pos = ast.Compare(left=g.elt.left, ops=[flip()], comparators=g.elt.comparators)
        if pos is not None:  # any(not P) == not all(P)
            inner = ast.GeneratorExp(elt=pos, generators=g.generators)
            return (norm(ast.Call(func=ast.Name(id="all", ctx=ast.Load()), args=[inner], keywords=[])), not pol)
    if isinstance(a, ast.Compare) and len(a.ops) == 1:
        l, r, op = a.left, a.comparators[0], a.ops[0]
        if isinstance(r, ast.Constant) and r.value is None:
            if isinstance(op, ast.Is):
                return (f"{norm(l)} is not None", not pol)
            if isinstance(op, ast.IsNot):
                return (f"{norm(l)} is not None", pol)
        if isinstance(op, (ast.Eq, ast.NotEq)) and not (isinstance(r, ast.Constant) and r.value == 0):
            # == is symmetric: one operand order (constants last, otherwise by text)
            lt, rt = norm(l), norm(r)
            if isinstance(l, ast.Constant) or (not isinstance(r, ast.Constant) and rt < lt):
                lt, rt = rt, lt
            return (f"{lt} == {rt}", pol if isinstance(op, ast.Eq) else not pol)
        if isinstance(op, ast.NotEq):
            return (f"{norm(l)} == {norm(r)}", not pol)
        if isinstance(op, ast.IsNot):
            return (f"{norm(l)} is {norm(r)}", not pol)
        if isinstance(op, ast.NotIn):
            return (f"{norm(l)} in {norm(r)}", not pol)
        if isinstance(op, ast.LtE):  # canon() has already mirrored > and >= into < and <=
            return (f"{norm(r)} < {norm(l)}", not pol)
        if isinstance(op, ast.Eq) and isinstance(r, ast.Constant) and r.value == 0 and isinstance(l, ast.Call) and call_name(l) == "len":
            return (norm(l), not pol)
    return (norm(a), pol)


def atom_text(text: str) -> str:
    """Canonical form of an atom given as source text (used for the expected-guards table)."""
    return canon_atom(ast.parse(text, mode="eval").body)[0]


def condition_table(lits):
    """Truth table of a conjunction of literals over canonical atoms.
    -> (atom_names, set of valuations (tuples) where the conjunction is True)"""
    names = []
    for t, _pol in lits:
        for a in bool_atoms(t):
            n, _ = canon_atom(a)
            if n not in names:
                names.append(n)
    true_rows = set()
    for vals in product([False, True], repeat=len(names)):
        env = dict(zip(names, vals))
        def atom(n, env=env):
            name, pol = canon_atom(n)
            return env[name] if pol else not env[name]
        ok = True
        for t, pol in lits:
            v = eval_bool(t, atom)
            if v is None:
                raise AnalysisError(RULE, f"cannot evaluate guard `{norm(t)}`")
            if v != pol:
                ok = False
                break
        if ok:
            true_rows.add(vals)
    return names, true_rows


def project(names, rows, onto):
    idx = []
    for n in onto:
        if n not in names:
            return None
        idx.append(names.index(n))
    return {tuple(r[i] for i in idx) for r in rows}


def formula_rows(onto, formula) -> set:
    out = set()
    for vals in product([False, True], repeat=len(onto)):
        if formula(dict(zip(onto, vals))):
            out.add(vals)
    return out


def raises_in(func):
    out = []
    for n in own_nodes(func):
        if isinstance(n, ast.Raise) and n.exc is not None:
            e = n.exc.func if isinstance(n.exc, ast.Call) else n.exc
            out.append((n, norm(e)))
    return out


# ---------------------------------------------------------------------------
# expected guards (atoms are canonical texts; formula over them)
# ---------------------------------------------------------------------------

A = lambda *names: list(names)

EXPECTED = [
    # (id, function, exception, atoms (canonical: helpers inlined, idioms normalised, every LOCAL name erased to `L`,
    #  comprehension variables _v0.., parameters kept), formula, what)
    ("custom-solver+full-diag", "block_diagonalize", "NotImplementedError",
     A("solve_sylvester is not None", "fully_diagonalize"), lambda e: e["solve_sylvester is not None"] and e["fully_diagonalize"],
     "custom Sylvester solver combined with fully_diagonalize"),
    ("hermitian+pairs", "block_diagonalize", "ValueError",
     A("subspace_eigenvectors is not None", "hermitian", "any((isinstance(_v0, tuple) for _v0 in subspace_eigenvectors))"),
     lambda e: all(e.values()), "Hermitian mode given (right, left) subspace pairs"),
    ("implicit+blocks", "block_diagonalize", "ValueError",
     A("L", "hamiltonian.shape"), lambda e: all(e.values()), "implicit mode with an input already separated into blocks"),
    ("implicit+symbolic", "block_diagonalize", "ValueError",
     A("L", "isinstance(L, sympy.MatrixBase)"), lambda e: all(e.values()), "implicit mode with a symbolic Hamiltonian"),
    ("nonhermitian-implicit+kpm", "block_diagonalize", "NotImplementedError",
     A("L", "hermitian", "solve_sylvester is not None", "direct_solver"),
     lambda e: e["L"] and not e["hermitian"] and not e["solve_sylvester is not None"] and not e["direct_solver"],
     "non-Hermitian implicit mode with the KPM solver"),
    ("implicit-shape", "block_diagonalize", "ValueError",
     A("L", "L.shape[0] == L[0].shape[0]"),
     lambda e: e["L"] and not e["L.shape[0] == L[0].shape[0]"], "eigenvector dimension differs from H_0"),
    ("implicit-numpy-vectors", "block_diagonalize", "TypeError",
     A("L", "solve_sylvester is not None", "all((isinstance(_v0, np.ndarray) for _v0 in (*L, *L)))"),
     lambda e: e["L"] and not e["solve_sylvester is not None"] and not e["all((isinstance(_v0, np.ndarray) for _v0 in (*L, *L)))"],
     "implicit mode needs numpy subspace vectors"),
    ("kpm+pairs", "block_diagonalize", "NotImplementedError",
     A("L", "solve_sylvester is not None", "direct_solver", "any((isinstance(_v0, tuple) for _v0 in subspace_eigenvectors))"),
     lambda e: e["L"] and not e["solve_sylvester is not None"] and not e["direct_solver"]
     and e["any((isinstance(_v0, tuple) for _v0 in subspace_eigenvectors))"],
     "KPM solver with distinct left and right vectors"),
    ("multiblock+array-mask", "block_diagonalize", "ValueError",
     A("L.shape[0] == 1", "isinstance(fully_diagonalize, (np.ndarray, sympy.MatrixBase, sympy.Expr))"),
     lambda e: not e["L.shape[0] == 1"] and e["isinstance(fully_diagonalize, (np.ndarray, sympy.MatrixBase, sympy.Expr))"],
     "bare array mask with several blocks"),
    ("zero-diagonal", "block_diagonalize", "ValueError", A("L"), lambda e: not e["L"],
     "the diagonal of H_0 is entirely zero"),
    ("implicit+full-diag", "block_diagonalize", "ValueError",
     A("isinstance(L[-1, -1, *L], sparse.linalg.LinearOperator)", "L.shape[0] - 1 in fully_diagonalize"),
     lambda e: all(e.values()), "fully diagonalising the implicit block"),
    ("implicit+mul", "block_diagonalize", "ValueError",
     A("isinstance(L[-1, -1, *L], sparse.linalg.LinearOperator)", "L is matmul"),
     lambda e: e["isinstance(L[-1, -1, *L], sparse.linalg.LinearOperator)"] and not e["L is matmul"],
     "implicit mode without matmul"),
    ("legacy-solver+nonhermitian", "block_diagonalize", "NotImplementedError",
     A("len(signature(solve_sylvester).parameters) == 1", "hermitian"),
     lambda e: e["len(signature(solve_sylvester).parameters) == 1"] and not e["hermitian"],
     "one-argument Sylvester solver in non-Hermitian mode"),
    ("mask-type", "block_diagonalize", "ValueError",
     A("fully_diagonalize", "L", "isinstance(fully_diagonalize, dict)", "isinstance(L, np.ndarray)"),
     lambda e: e["fully_diagonalize"] and not e["L"] and e["isinstance(fully_diagonalize, dict)"] and not e["isinstance(L, np.ndarray)"],
     "mask of the wrong type for a matrix problem"),
    ("mask-symmetric", "block_diagonalize", "ValueError",
     A("fully_diagonalize", "L", "isinstance(fully_diagonalize, dict)", "hermitian", "(L == L.T).all()"),
     lambda e: e["fully_diagonalize"] and not e["L"] and e["isinstance(fully_diagonalize, dict)"] and e["hermitian"]
     and not e["(L == L.T).all()"], "asymmetric mask in Hermitian mode"),
    ("mask-degenerate", "block_diagonalize", "ValueError",
     A("fully_diagonalize", "L", "isinstance(fully_diagonalize, dict)", "(L & L[L]).any()"),
     lambda e: e["fully_diagonalize"] and not e["L"] and e["isinstance(fully_diagonalize, dict)"] and e["(L & L[L]).any()"],
     "mask eliminates an element between equal unperturbed energies"),
    ("operator-invalid", "block_diagonalize", "ValueError",
     A("all((hasattr(_v0, '__matmul__') for _v0 in L))", "all((hasattr(_v0, '__mul__') for _v0 in L))"),
     lambda e: not e["all((hasattr(_v0, '__matmul__') for _v0 in L))"] and not e["all((hasattr(_v0, '__mul__') for _v0 in L))"],
     "H_0 blocks support neither @ nor *"),
    ("eigvecs+indices", "operator_to_BlockSeries", "ValueError",
     A("subspace_eigenvectors is not None", "subspace_indices is not None"), lambda e: all(e.values()),
     "subspace_eigenvectors together with subspace_indices"),
    ("blocks+split", "operator_to_BlockSeries", "ValueError",
     A("operator.shape", "subspace_eigenvectors is not None", "subspace_indices is not None"),
     lambda e: e["operator.shape"] and (e["subspace_eigenvectors is not None"] or e["subspace_indices is not None"]),
     "already-blocked operator together with subspaces"),
    ("nonsquare-blocks", "operator_to_BlockSeries", "ValueError", A("operator.shape", "operator.shape[0] == operator.shape[1]"),
     lambda e: e["operator.shape"] and not e["operator.shape[0] == operator.shape[1]"], "non-square block structure"),
    ("hermitian+pairs(op)", "operator_to_BlockSeries", "ValueError",
     A("subspace_eigenvectors is not None", "hermitian", "any((isinstance(_v0, tuple) for _v0 in subspace_eigenvectors))"),
     lambda e: all(e.values()), "Hermitian operator given (right, left) pairs"),
    ("symbols-not-in-H", "_sympy_to_BlockSeries", "ValueError",
     A("any((_v0 not in operator.free_symbols for _v0 in symbols))"), lambda e: all(e.values()), "perturbative symbol absent from the Hamiltonian"),
    ("noncommutative-keys", "_symbolic_keys_to_tuples", "ValueError",
     A("all((_v0.is_commutative for _v0 in L))"), lambda e: not any(e.values()), "non-commutative perturbation symbols"),
    ("non-monomial-keys", "_symbolic_keys_to_tuples", "ValueError",
     A("L.keys() - set(L) - {1}"), lambda e: all(e.values()), "dictionary key is not a monomial"),
    ("pair-length", "_normalize_subspace_eigenvectors", "ValueError",
     A("isinstance(L, tuple)", "len(L) == 2"), lambda e: e["isinstance(L, tuple)"] and not e["len(L) == 2"],
     "subspace tuple that is not a pair"),
    ("pair-dim", "_normalize_subspace_eigenvectors", "ValueError",
     A("L.shape[0] == L.shape[0]"), lambda e: not any(e.values()), "left/right ambient dimension mismatch"),
    ("pair-count", "_normalize_subspace_eigenvectors", "ValueError",
     A("L.shape[1] == L.shape[1]"), lambda e: not any(e.values()), "left/right number of vectors mismatch"),
    ("legacy-solver-blocks", "_preprocess_sylvester::wrapped", "ValueError",
     A("index[:2] in {(0, 1), (1, 0)}"), lambda e: not any(e.values()), "legacy solver asked for a block pair other than (0,1)/(1,0)"),
    ("number-conserving-H0", "second_quantization::solve_sylvester_2nd_quant", "ValueError",
     A("any((not _v1.is_particle_conserving() for _v0 in eigs for _v1 in _v0))"), lambda e: all(e.values()),
     "second-quantised H_0 that does not conserve particle number"),
]


def _rule_input_dispatch(rep: Report, repo: Repo):
    """_to_scalar_BlockSeries answers each supported container type and raises TypeError for anything else: evaluated per type of
    `operator` (a rebinding `operator = _list_to_dict(operator)` makes it a dict)."""
    from .sem import Scope, canon, outcomes
    f = repo.find(f"{MOD}::_to_scalar_BlockSeries", RULE)
    P = f.args.args[0].arg
    KINDS = {"BlockSeries": ["BlockSeries"], "sympy.Expr": ["sympy.Expr"], "sympy.MatrixBase": ["sympy.MatrixBase"], "list": ["list"], "dict": ["dict"],
             "other": []}
    table = {}
    for kind, names in KINDS.items():
        def atom(n, names=names):
            n = canon(n)
            if isinstance(n, ast.Call) and call_name(n) == "isinstance" and len(n.args) == 2:
                subj = n.args[0]
                ts = [norm(x) for x in (n.args[1].elts if isinstance(n.args[1], ast.Tuple) else [n.args[1]])]
                if norm(subj) == P:
                    return any(t in names for t in ts)
                if isinstance(subj, ast.Call) and call_name(subj) == "_list_to_dict":
                    return "dict" in ts  # what _list_to_dict returns
            return None
        outs = set()
        for o in outcomes(f.body, None, env={}, atom=atom, expand=False):
            und = [norm(t_)[:50] for t_, _p in o.conds if eval_bool(t_, atom) is None]
            if und:
                raise AnalysisError(RULE, f"_to_scalar_BlockSeries: condition `{und[0]}` not understood")
            if o.kind == "raise":
                outs.add("raise " + norm(o.value).split("(")[0])
            elif o.kind == "return":
                outs.add("return")
            else:
                outs.add("falls through")
        table[kind] = sorted(outs)
    want = {k: (["raise TypeError"] if k == "other" else ["return"]) for k in KINDS}
    bad = {k: v for k, v in table.items() if v != want[k]}
    rep.check(not bad, RULE, f"{MOD}::_to_scalar_BlockSeries guard `unsupported-input`: every supported container type is answered, anything else -> TypeError",
              f"(type of the input) -> outcome; wrong: {bad}" if bad else str(table), repo.loc(MOD, f))


def rule_guards(rep: Report, repo: Repo):
    _rule_input_dispatch(rep, repo)
    inv_count = 0
    by_func = {}
    matched: dict = {}
    pending = []
    for gid, fq, exc, atoms, formula, what in EXPECTED:
        mod = MOD
        q = fq
        if "::" in fq and fq.split("::")[0] in repo.trees:
            mod, q = fq.split("::", 1)
        key = (mod, q)
        if key not in by_func:
            from .sem import Scope
            f = repo.find(f"{mod}::{q}", RULE)
            # a rejection may have been moved into an extracted private helper: then the function is read with such helpers seen through
            helpers_raising = {g.name for g in repo.trees[mod].body if isinstance(g, ast.FunctionDef) and g.name.startswith("_")
                               and any(isinstance(x, ast.Raise) for x in ast.walk(g))}
            if any(isinstance(c, ast.Call) and call_name(c) in helpers_raising for c in ast.walk(f)):
                try:
                    f = repo.find_expanded(f"{mod}::{q}", RULE)
                except AnalysisError:
                    pass
            _SCOPE["scope"] = Scope(repo.trees[mod], f)
            inv = []
            for r, e in raises_in(f):
                lits = resolve_lits(path_condition(r, f), f)
                try:
                    names, rows = condition_table(lits)
                except AnalysisError:
                    names, rows = None, None
                inv.append((r, e, names, rows, lits))
            by_func[key] = (f, inv)
            inv_count += len(inv)
        f, inv = by_func[key]
        _SCOPE["scope"] = None
        cpairs = [canon_atom(ast.parse(x, mode="eval").body) for x in atoms]
        catoms = [c for c, _ in cpairs]
        want = set()
        for vals in product([False, True], repeat=len(catoms)):
            env = {orig: (v if pol else not v) for orig, (_c, pol), v in zip(atoms, cpairs, vals)}
            if formula(env):
                want.add(vals)
        atoms_c = catoms
        found = None
        for r, e, names, rows, lits in inv:
            if e != exc or names is None:
                continue
            proj = project(names, rows, atoms_c)
            if proj is not None and proj == want and set(names) == set(atoms_c):
                found = r
                break
        inst = f"{mod}::{q} guard `{gid}`: {what} -> {exc}"
        if found is not None:
            matched.setdefault(key, set()).add(id(found))
            rep.ok(RULE, inst, "raise with exactly this truth table on " + (", ".join(atoms) or "(unconditional fall-through)"),
                   repo.loc(mod, found))
        else:
            pending.append((gid, mod, q, exc, atoms_c, want, what, f, inv))
    # second pass: a guard that was not found is MISSING (violation) unless an unmatched raise of the same class exists
    # whose condition is written in a form that shares nothing with the expected atoms (then: cannot decide)
    for gid, mod, q, exc, atoms_c, want, what, f, inv in pending:
        key = (mod, q)
        cands = [(r, names, rows, lits) for r, e, names, rows, lits in inv if e == exc and id(r) not in matched.get(key, set())]
        near = [f"L{r.lineno}:{' and '.join(('' if pol else 'not ') + norm(t)[:50] for t, pol in lits)[:160]}" for r, _n, _rw, lits in cands][:4]
        def over_zip(r_):
            """the raise sits in a loop over zip(...): its condition speaks about paired-up elements, which the expected atoms (written
            for the keyed form `X[i]`) cannot express -- whether the pairing is right is not something this rule decides"""
            p_ = getattr(r_, "_parent", None)
            while p_ is not None and not isinstance(p_, ast.FunctionDef):
                if isinstance(p_, ast.For) and isinstance(p_.iter, ast.Call) and call_name(p_.iter) == "zip":
                    return True
                p_ = getattr(p_, "_parent", None)
            return False
        def unresolved_local(lits_):
            """a condition that mentions a local bound more than once (e.g. decremented under a condition): its value at the raise is not
            what the texts say, so the comparison with the expected atoms means nothing"""
            params_ = {a_.arg for a_ in f.args.args + f.args.kwonlyargs}
            for t_, _p in lits_:
                for x_ in ast.walk(t_):
                    if isinstance(x_, ast.Name) and x_.id not in params_:
                        binds_ = [n_ for n_ in ast.walk(f) if (isinstance(n_, ast.Assign) and any(isinstance(y_, ast.Name) and y_.id == x_.id for tt_ in n_.targets for y_ in ast.walk(tt_)))
                                  or (isinstance(n_, ast.AugAssign) and isinstance(n_.target, ast.Name) and n_.target.id == x_.id)]
                        if len(binds_) > 1 and any(isinstance(n_, ast.AugAssign) for n_ in binds_):
                            return True
            return False
        related = [c for c in cands if c[1] is not None and (set(c[1]) & set(atoms_c) or not atoms_c) and not over_zip(c[0]) and not unresolved_local(path_condition(c[0], f))]
        unrelated = [c for c in cands if c not in related]
        if not related and unrelated:
            raise AnalysisError(RULE, f"{mod}::{q} guard `{gid}` ({what}): no raise has the expected atoms {atoms_c}, but `raise {exc}` "
                                      f"statements with conditions in another form exist: {near}")
        # the rejection may live in a helper the function calls (and that could not be seen through)
        called = {call_name(c) for c in ast.walk(f) if isinstance(c, ast.Call)}
        elsewhere = [g.name for g in repo.trees[mod].body if isinstance(g, ast.FunctionDef) and g.name in called and g.name.startswith("_")
                     and any(e_ == exc for _r, e_ in raises_in(g))]
        known_helpers = {"_convert_if_zero", "_check_orthonormality", "_normalize_subspace_eigenvectors"}
        if [g for g in elsewhere if g not in known_helpers] and not related:
            raise AnalysisError(RULE, f"{mod}::{q} guard `{gid}` ({what}): not found in {q} itself; helpers it calls raise {exc} "
                                      f"({[g for g in elsewhere if g not in known_helpers]}) and were not seen through")
        rep.fail(RULE, f"{mod}::{q} guard `{gid}` missing or weakened: {what} must raise {exc}",
                 f"no `raise {exc}` in {q} has the required truth table over atoms {atoms_c}; candidates: {near}",
                 repo.loc(mod, f))
    rep.count("E5.raise_sites_inventoried", inv_count)
    rep.floor(RULE, "raise sites inventoried", inv_count, 30)


# ---------------------------------------------------------------------------
# the H_0 block-diagonality check and dominance of the computation
# ---------------------------------------------------------------------------


def _int_eval(e, subst: dict):
    """Integer value of an index expression after substituting sub-expressions by text; None if not closed."""
    from .resolve import clone

    class T(ast.NodeTransformer):
        def generic_visit(self, node):
            if isinstance(node, ast.expr) and norm(node) in subst:
                return ast.Constant(value=subst[norm(node)])
            return super().generic_visit(node)
    t = T().visit(clone(e))
    for n in ast.walk(t):
        if not isinstance(n, (ast.BinOp, ast.UnaryOp, ast.Constant, ast.operator, ast.unaryop, ast.expr_context)):
            return None
    try:
        v = eval(compile(ast.fix_missing_locations(ast.Expression(body=t)), "<const>", "eval"), {"__builtins__": {}})
    except Exception:
        return None
    return v if isinstance(v, int) and not isinstance(v, bool) else None


def _range_values(it, subst):
    if not (isinstance(it, ast.Call) and call_name(it) == "range" and not it.keywords and 1 <= len(it.args) <= 3):
        return None
    vals = [_int_eval(a, subst) for a in it.args]
    if None in vals:
        return None
    return list(range(*vals))


def _iter_values(it, subst):
    """Concrete values of an iterable over integer ranges: range(...), and the itertools combinators the loops over element /
    block positions are written with (product, combinations, combinations_with_replacement, permutations, pairwise, zip,
    enumerate, reversed, list / tuple / sorted of those).  None when the expression is outside that language."""
    import itertools
    if isinstance(it, (ast.Tuple, ast.List)):
        vals = [_int_eval(e, subst) for e in it.elts]
        return None if None in vals else list(vals)
    if not (isinstance(it, ast.Call) and not it.keywords) and not (isinstance(it, ast.Call) and call_name(it) in ("product", "itertools.product")):
        return None
    name = (call_name(it) or "").split(".")[-1]
    if name == "range":
        return _range_values(it, subst)
    args = [_iter_values(a, subst) for a in it.args if isinstance(a, (ast.Call, ast.Tuple, ast.List))]
    ints = [_int_eval(a, subst) for a in it.args if not isinstance(a, (ast.Call, ast.Tuple, ast.List))]
    if any(a is None for a in args) or any(a is None for a in ints):
        return None
    if name == "product":
        rep_ = [k for k in it.keywords if k.arg == "repeat"]
        if len(rep_) != len(it.keywords):
            return None
        r = _int_eval(rep_[0].value, subst) if rep_ else 1
        return None if r is None or ints else list(itertools.product(*args, repeat=r))
    if name in ("combinations", "combinations_with_replacement", "permutations") and len(args) == 1 and len(ints) == 1:
        return list(getattr(itertools, name)(args[0], ints[0]))
    if name == "pairwise" and len(args) == 1 and not ints:
        return list(itertools.pairwise(args[0]))
    if name == "zip" and args and not ints:
        return list(zip(*args))
    if name == "enumerate" and len(args) == 1 and len(ints) <= 1:
        return list(enumerate(args[0], *ints))
    if name in ("reversed", "list", "tuple", "sorted") and len(args) == 1 and not ints:
        return list({"reversed": reversed, "sorted": sorted}.get(name, list)(args[0]))
    return None


def loop_points(loop: ast.For, subst: dict, rule: str, what: str, depth: int = 0):
    """The leaves of a loop nest over integer positions: list of (binding of the loop variables, statements of the innermost
    body), in execution order.  A loop whose body is a single `for` is descended into."""
    tgt = loop.target
    names = [tgt.id] if isinstance(tgt, ast.Name) else ([e.id for e in tgt.elts] if isinstance(tgt, ast.Tuple) and all(isinstance(e, ast.Name) for e in tgt.elts) else None)
    if names is None:
        raise AnalysisError(rule, f"{what}: loop target `{norm(tgt)}` not understood")
    vals = _iter_values(loop.iter, subst)
    if vals is None:
        raise AnalysisError(rule, f"{what}: loop `for {norm(tgt)} in {norm(loop.iter)[:60]}` is not closed over the integer grid")
    out = []
    for v in vals:
        tup = (v,) if isinstance(tgt, ast.Name) else tuple(v)
        if len(tup) != len(names) or not all(isinstance(x, int) for x in tup):
            raise AnalysisError(rule, f"{what}: loop `for {norm(tgt)} in {norm(loop.iter)[:60]}` does not bind integers to its targets")
        b = dict(zip(names, tup))
        if len(loop.body) == 1 and isinstance(loop.body[0], ast.For) and depth < 3:
            for b2, body in loop_points(loop.body[0], {**subst, **b}, rule, what, depth + 1):
                out.append(({**b, **b2}, body))
        else:
            out.append((b, loop.body))
    return out


def rule_h0_block_diagonal(rep: Report, repo: Repo):
    """A non-zero block (a, b), a != b, of H_0 must be rejected: all of them when hermitian=False, at least one of
    (a, b) / (b, a) when hermitian=True.  Decided by running the loop nest of the check on a 3 x 3 block grid with the
    loop bounds and skip conditions folded to integers, then the remaining guard by truth table."""
    from .e2c import _const_eval
    from .resolve import env_at, resolved
    from .sem import outcomes
    R = "E5.h0"
    f = repo.find(f"{MOD}::block_diagonalize", R)
    loc = lambda n: repo.loc(MOD, n)
    cands = []
    for r, e in raises_in(f):
        if e != "ValueError":
            continue
        loops = []
        p = r
        while p is not f:
            p = p._parent
            if isinstance(p, ast.For):
                loops.append(p)
        lits = path_condition(r, f)
        is_pair_loop = len(loops) == 1 and isinstance(loops[0].target, ast.Tuple) and len(loops[0].target.elts) == 2
        if (len(loops) == 2 or is_pair_loop) and any("zero" in norm(t) for t, _ in lits):
            cands.append((r, loops))
    if len(cands) != 1:
        raise AnalysisError(R, f"{len(cands)} candidate raise statements for the block-diagonality check of H_0 "
                               "(a ValueError inside a loop over block pairs guarded by an `is zero` test)")
    r, lp = cands[0][0], cands[0][1]
    N = 3
    base = {"H.shape[0]": N, "H.shape[1]": N, "len(H.shape)": 2}
    if len(lp) == 2:
        inner, outer = lp
        if not (isinstance(outer.target, ast.Name) and isinstance(inner.target, ast.Name) and inner in outer.body):
            raise AnalysisError(R, "loop nest of the H_0 check not understood")
        I, J = outer.target.id, inner.target.id
        ov = _range_values(outer.iter, base)
        if ov is None:
            raise AnalysisError(R, f"outer loop range `{norm(outer.iter)}` is not closed over the block grid")
        points = []
        for i in ov:
            iv = _range_values(inner.iter, {**base, I: i})
            if iv is None:
                raise AnalysisError(R, f"inner loop range `{norm(inner.iter)}` is not closed over the block grid")
            points += [(i, j) for j in iv]
    else:
        inner = outer = lp[0]
        I, J = (norm(e) for e in outer.target.elts)
        points = _iter_values(outer.iter, base)
        if points is None or not all(isinstance(p_, tuple) and len(p_) == 2 for p_ in points):
            raise AnalysisError(R, f"pair loop iterates `{norm(outer.iter)[:60]}`: not closed over the block grid")
    visited = {}
    guard_rows = set()
    for herm in (False, True):
        seen = set()
        for i, j in points:
            if True:
                sub = {**base, I: i, J: j, "hermitian": herm}
                atom = lambda n, sub=sub: _const_eval(n, sub)
                for o in outcomes(inner.body, None, env={}, atom=atom, expand=False):
                    if o.kind != "raise":
                        continue
                    # which block does the deciding `is zero` test look at?
                    blocks = set()
                    free = []
                    for t, pol in o.conds:
                        if _const_eval(t, sub) is not None:
                            continue
                        free.append((t, pol))
                        for n in ast.walk(t):
                            if isinstance(n, ast.Subscript) and norm(n.value) == "H" and isinstance(n.slice, ast.Tuple) and len(n.slice.elts) == 3:
                                a_, b_ = _int_eval(n.slice.elts[0], sub), _int_eval(n.slice.elts[1], sub)
                                tail = n.slice.elts[2]
                                tt = norm(resolved(tail.value, env_at(outer, f))) if isinstance(tail, ast.Starred) else ""
                                if a_ is None or b_ is None or not (tt.startswith("(0,) * ") and tt.endswith(".n_infinite")):
                                    raise AnalysisError(R, f"tested element `{norm(n)[:60]}` is not a zeroth-order block of H")
                                blocks.add((a_ % N, b_ % N))
                    if len(blocks) != 1:
                        raise AnalysisError(R, f"the rejecting path for loop point ({i}, {j}) tests {len(blocks)} blocks of H")
                    # remaining guard: raise iff the block is non-zero and not a symbolic expression
                    fires = set()
                    for z, sy in product([False, True], repeat=2):
                        def gatom(n, z=z, sy=sy):
                            tx, apol = canon_atom(n)
                            if tx.endswith(" is zero"):
                                return z if apol else not z
                            if tx.startswith("isinstance(") and "sympy." in tx:
                                return sy if apol else not sy
                            return _const_eval(n, sub)
                        vals = [eval_bool(t, gatom) for t, _p in free]
                        if None in vals:
                            raise AnalysisError(R, f"the rejection of a non-zero block depends on a condition that is not understood: "
                                                   f"`{norm(free[vals.index(None)][0])[:70]}`")
                        if all(v == p for v, (_t, p) in zip(vals, free)):
                            fires.add((z, sy))
                    if (False, False) in fires:
                        seen |= blocks  # a non-zero, non-symbolic value of this block is rejected
                    if fires:
                        guard_rows.add(frozenset(fires))
        visited[herm] = seen
    offd = {(a_, b_) for a_ in range(N) for b_ in range(N) if a_ != b_}
    diag_hit = [herm for herm, s_ in visited.items() if any(a_ == b_ for a_, b_ in s_)]
    ok_nh = offd <= visited[False]
    ok_h = all((a_, b_) in visited[True] or (b_, a_) in visited[True] for a_, b_ in offd)
    rep.check(ok_nh and ok_h and not diag_hit, R,
              f"{MOD}::block_diagonalize rejects a non-zero off-diagonal block of H_0 (every i != j; upper only when Hermitian)",
              f"blocks whose non-zero value is rejected on a 3 x 3 grid: hermitian=False {sorted(visited[False])}, hermitian=True {sorted(visited[True])}"
              + ("; a diagonal block is rejected" if diag_hit else ""), loc(r))
    rep.ok(R, f"{MOD}::block_diagonalize block-diagonality check visits every block pair", "loop nest folded over the grid", loc(outer))
    want_row = {frozenset({(False, False)})}
    rep.check(guard_rows == want_row, R, f"{MOD}::block_diagonalize the tested block is H[i, j] at order zero",
              f"(block is zero, block is symbolic) valuations that are rejected: {sorted(map(sorted, guard_rows))}; required only (False, False)", loc(r))
    loops = [inner, outer]
    # dominance: the loop and the zero-diagonal check precede series_computation
    g = CFG(f)
    dom = g.dominators()
    sinks = [n for n in g.nodes if n.ast is not None and not isinstance(n.ast, ast.FunctionDef)
             and any(isinstance(c, ast.Call) and call_name(c) == "series_computation" for c in ast.walk(n.ast))]
    rep.floor(R, "series_computation call", len(sinks), 1)
    heads = [n for n in g.nodes if loops and n.ast is loops[-1].iter]
    ok = bool(heads) and all(any(h.id in dom[s.id] for h in heads) for s in sinks)
    rep.check(ok, R, f"{MOD}::block_diagonalize the block-diagonality check dominates series_computation", "", loc(r))


def rule_guard_dominance(rep: Report, repo: Repo):
    """Every validating raise of block_diagonalize lies before the construction of the
    computation; the biorthonormality check dominates every use of the eigenvectors."""
    R = "E5.dominance"
    f = repo.find(f"{MOD}::block_diagonalize", R)
    loc = lambda n: repo.loc(MOD, n)
    g = CFG(f)
    sinks = [n for n in g.nodes if n.ast is not None and not isinstance(n.ast, ast.FunctionDef)
             and any(isinstance(c, ast.Call) and call_name(c) == "series_computation" for c in ast.walk(n.ast))]
    if len(sinks) != 1:
        raise AnalysisError(R, "series_computation call not found")
    sink = sinks[0]
    after = g.reachable(sink.id)
    late = [n for n in g.nodes if isinstance(n.ast, ast.Raise) and n.id in after and n.id != sink.id]
    rep.check(not late, R, f"{MOD}::block_diagonalize no input validation happens after the computation is defined",
              "; ".join(norm(n.ast)[:60] for n in late), loc(sink.ast))
    # biorthonormality
    checks = [n for n in g.nodes if isinstance(n.ast, ast.Expr) and isinstance(n.ast.value, ast.Call)
              and call_name(n.ast.value) == "_check_biorthonormality"]
    tests = [n for n in g.nodes if n.kind == "test" and canon_atom(n.ast)[0] == "subspace_eigenvectors is not None"]
    if not checks:
        rep.fail(R, f"{MOD}::block_diagonalize never calls _check_biorthonormality", "", loc(f))
    else:
        c = checks[0].ast.value
        args = [norm(a) for a in c.args] + [f"{k.arg}={norm(k.value)}" for k in c.keywords]
        un_ = [s_ for s_ in own_nodes(f) if isinstance(s_, ast.Assign) and isinstance(s_.targets[0], ast.Tuple) and isinstance(s_.value, ast.Call)
               and call_name(s_.value) == "_normalize_subspace_eigenvectors" and len(s_.targets[0].elts) == 2]
        if len(un_) != 1:
            raise AnalysisError(R, "block_diagonalize: unpacking of _normalize_subspace_eigenvectors(...) not found")
        rep.check(args[:2] == [norm(e_) for e_ in un_[0].targets[0].elts], R,
                  f"{MOD}::block_diagonalize _check_biorthonormality receives (right, left) subspaces", str(args), loc(c))
        users = [n for n in g.nodes if n.ast is not None and not isinstance(n.ast, ast.FunctionDef) and any(
            isinstance(x, ast.Call) and call_name(x) in ("solve_sylvester_direct", "solve_sylvester_KPM", "operator_to_BlockSeries")
            for x in ast.walk(n.ast))]
        rep.floor(R, "uses of the eigenvectors", len(users), 3)
        for u in users:
            # every path to the use passes the check or the "no eigenvectors" edge
            blocked = {c.id for c in checks}
            seen, stack = {g.entry.id}, [g.entry.id]
            reached = False
            while stack:
                a = stack.pop()
                if a == u.id:
                    reached = True
                    break
                if a in blocked:
                    continue
                for b, k in g.succ[a]:
                    if any(a == t.id for t in tests):
                        pol = canon_atom(g.nodes[a].ast)[1]
                        absent_edge = "f" if pol else "t"
                        if k == absent_edge:
                            continue
                    if b not in seen:
                        seen.add(b)
                        stack.append(b)
            nm = [call_name(x) for x in ast.walk(u.ast) if isinstance(x, ast.Call) and call_name(x) in
                  ("solve_sylvester_direct", "solve_sylvester_KPM", "operator_to_BlockSeries")][0]
            rep.check(not reached, R, f"{MOD}::block_diagonalize biorthonormality is checked before `{nm}` uses the eigenvectors",
                      "whenever subspace_eigenvectors is given", loc(u.ast))
    # inside _check_biorthonormality: per value kind, the only rejection is `overlap != identity` with overlap = L^H R
    from .sem import Scope, canon, inline, outcomes
    cb = repo.find(f"{MOD}::_check_biorthonormality", R)
    scope = Scope(repo.trees[MOD], cb)
    NUM_T = "isinstance(right_subspaces[0], (np.ndarray, sparse.spmatrix, sparse.sparray))"
    SYM_T = "isinstance(right_subspaces[0], sympy.MatrixBase)"
    DENSE = lambda side: (f"np.hstack([_v0.toarray() if sparse.issparse(_v0) else _v0 for _v0 in {side}_subspaces])",)
    SYMST = lambda side: (f"sympy.Matrix.hstack(*{side}_subspaces)",)
    n_br = 0
    # a check made subspace by subspace sees only the diagonal blocks L_i^H R_i of the overlap matrix
    cparams = [a_.arg for a_ in cb.args.args[:2]]
    for lp_ in [n_ for n_ in own_nodes(cb) if isinstance(n_, ast.For)]:
        it_ = lp_.iter
        pairwise = isinstance(it_, ast.Call) and call_name(it_) == "zip" and len(it_.args) >= 2 and {norm(a_) for a_ in it_.args[:2]} == set(cparams) \
            and isinstance(lp_.target, ast.Tuple) and len(lp_.target.elts) == 2
        raises_in = [r_ for r_ in ast.walk(lp_) if isinstance(r_, ast.Raise)]
        if pairwise and raises_in:
            tg = {x.id for x in ast.walk(lp_.target) if isinstance(x, ast.Name)}
            whole = any(isinstance(x, ast.Name) and x.id in cparams for b_ in lp_.body for x in ast.walk(b_))
            if not whole:
                rep.fail(R, f"{MOD}::_check_biorthonormality tests the overlap of each subspace with itself only (loop over zip({', '.join(cparams)}))",
                         f"the rejection inside the loop sees L_i^H R_i built from {sorted(tg)}; vectors of DIFFERENT subspaces that are not "
                         "(bi)orthogonal (L_i^H R_j != 0) are accepted", loc(raises_in[0]))
                return
    for kind in ("numeric", "symbolic", "other"):
        def atom(n, kind=kind):
            t = norm(canon(n))
            if t == NUM_T:
                return kind == "numeric"
            if t == SYM_T:
                return kind == "symbolic"
            return None
        raising, passing = [], 0
        for o in outcomes(cb.body, scope, env={}, atom=atom, expand=False):
            free = [(t, p) for t, p in o.conds if eval_bool(t, atom) is None]
            if o.kind == "raise":
                raising.append((o, free))
            else:
                passing += 1
        if kind == "other":
            rep.check(not raising and passing >= 1, R, f"{MOD}::_check_biorthonormality values of other types are not checked (no rejection)",
                      "", loc(cb))
            continue
        if len(raising) != 1 or len(raising[0][1]) != 1:
            raise AnalysisError(R, f"_check_biorthonormality[{kind}]: {len(raising)} rejecting paths / undecided conditions")
        n_br += 1
        o, [(test, pol)] = raising[0]
        t = inline(canon(test), scope)
        ok, detail = False, norm(t)[:160]
        stack = DENSE if kind == "numeric" else SYMST
        def overlap_ok(e):
            return any(norm(e) == f"Dagger({l}) @ {r_}" or norm(e) == f"{l}.conj().T @ {r_}" for l in stack("left") for r_ in stack("right"))
        if kind == "numeric":
            c = t.operand if isinstance(t, ast.UnaryOp) and isinstance(t.op, ast.Not) else t
            neg = c is not t
            if isinstance(c, ast.Call) and call_name(c) == "np.allclose" and len(c.args) == 2:
                kw = {k.arg: norm(k.value) for k in c.keywords}
                eye = c.args[1]
                ok = (neg == pol) and overlap_ok(c.args[0]) and kw == {"atol": "atol"} and isinstance(eye, ast.Call) \
                    and call_name(eye) in ("np.eye", "np.identity") and any(norm(eye.args[0]) == f"{r_}.shape[1]" for r_ in stack("right"))
        else:
            # sympy three-valued logic: reject only when the equality is provably False
            if isinstance(t, ast.Compare) and len(t.ops) == 1 and isinstance(t.ops[0], (ast.Eq, ast.Is)) and pol \
                    and norm(t.comparators[0]) in ("False", "sympy.false") and isinstance(t.left, ast.Call) and call_name(t.left) == "sympy.Eq":
                a0, a1 = t.left.args
                ok = overlap_ok(a0) and isinstance(a1, ast.Call) and call_name(a1) == "sympy.eye" \
                    and any(norm(a1.args[0]) == f"{r_}.shape[1]" for r_ in stack("right"))
        rep.check(ok, R, f"{MOD}::_check_biorthonormality[{kind}] raises ValueError unless overlap is the identity", detail, loc(o.node))
        rep.check(ok, R, f"{MOD}::_check_biorthonormality[{kind}] overlap denotes L^H.R", "Dagger(hstack(left)) @ hstack(right)", loc(o.node))
    rep.floor(R, "branches of _check_biorthonormality", n_br, 2)


def rule_symbolic_hermiticity(rep: Report, repo: Repo):
    R = "E5.hermitian_input"
    f = repo.find(f"{MOD}::_sympy_to_BlockSeries", R)
    loc = lambda n: repo.loc(MOD, n)
    ev = [d for d in nested_defs(f) if d.name == "op_eval"][0]
    rs = [(r, path_condition(r, ev)) for r, e in raises_in(ev) if e == "ValueError"]
    ok = False
    if len(rs) == 1:
        tested_names = {norm(n.value) for t, _p in rs[0][1] for n in ast.walk(t) if isinstance(n, ast.Attribute) and n.attr == "is_hermitian"}
        if len(tested_names) != 1:
            raise AnalysisError(R, "op_eval: the expression whose Hermiticity is tested was not found")
        EX = tested_names.pop()  # the local that holds the tested coefficient (what it is, is decided below)

        def classify(a):
            t, pol = canon_atom(a)
            if t == "check_hermitian":
                return ("check", pol)
            if t in (f"{EX}.is_hermitian is False", "L.is_hermitian is False"):
                return ("nonhermitian", pol)
            if t in (f"{EX}.atoms(Operator)", "L.atoms(Operator)"):
                return ("has_operators", pol)
            return None
        ok = True
        for vals in product([False, True], repeat=3):
            env = dict(zip(["check", "nonhermitian", "has_operators"], vals))
            def atom(n):
                c = classify(n)
                if c is None:
                    raise AnalysisError(R, f"atom `{norm(n)}` not understood")
                return env[c[0]] if c[1] else not env[c[0]]
            fires = all(eval_bool(t, atom) == pol for t, pol in rs[0][1])
            if fires != (env["check"] and env["nonhermitian"] and not env["has_operators"]):
                ok = False
    rep.check(ok, R, f"{MOD}::_sympy_to_BlockSeries::op_eval raises ValueError for a provably non-Hermitian term when check_hermitian",
              "expr.is_hermitian is False (three-valued), operator-valued terms exempt", loc(ev))
    # WHAT is tested: the Taylor coefficient itself (symbols set to 0).  Multiplied by the monomial of the symbols the three-valued
    # `is_hermitian` becomes None for entries like x**2 - 3*conjugate(x)**2 and the `is False` test can never fire.
    if len(rs) == 1:
        from .resolve import env_at as _ea5, resolved as _res5
        tested = [n.value for t, _p in rs[0][1] for n in ast.walk(t) if isinstance(n, ast.Attribute) and n.attr == "is_hermitian"]
        if len(tested) != 1:
            raise AnalysisError(R, "op_eval: the expression whose Hermiticity is tested was not found")
        guard_if = rs[0][0]
        while not isinstance(guard_if, ast.If):
            guard_if = guard_if._parent
        te = _res5(tested[0], _ea5(guard_if, ev))
        idx = ev.args.vararg.arg if ev.args.vararg else "index"
        from .e2b import derivative_series_name as _dsn
        DER = _dsn(f, R)
        COEFF = (f"{DER}[{idx}].subs({{_v0: 0 for _v0 in symbols}})", f"{DER}[{idx}].subs(dict.fromkeys(symbols, 0))")
        txt = norm(te)
        has_symbols = any(isinstance(x, ast.Name) and x.id == "symbols" for x in ast.walk(te)
                          if not (isinstance(getattr(x, "_parent", None), ast.comprehension)))
        if txt in COEFF:
            rep.ok(R, f"{MOD}::_sympy_to_BlockSeries::op_eval tests the Hermiticity of the Taylor coefficient itself", txt[:100], loc(guard_if))
        elif any(txt.startswith(c) or c in txt for c in COEFF) and "zip(symbols" in txt:
            rep.fail(R, f"{MOD}::_sympy_to_BlockSeries::op_eval tests the Hermiticity of the coefficient multiplied by the monomial of the symbols",
                     f"`{txt[:140]}`: sympy cannot decide is_hermitian for an entry that contains a free symbol, so a non-Hermitian term of order >= 1 "
                     "is never rejected", loc(guard_if))
        else:
            raise AnalysisError(R, f"op_eval: Hermiticity is tested on `{txt[:80]}`, a form that is not understood")
    # the raise precedes the return of the term
    g = CFG(ev)
    dom = g.dominators()
    rets = [n for n in g.nodes if isinstance(n.ast, ast.Return)]
    tests = [n for n in g.nodes if n.kind == "test"]
    ok = bool(rets) and bool(tests) and all(any(t.id in dom[r.id] for t in tests) for r in rets)
    rep.check(ok, R, f"{MOD}::_sympy_to_BlockSeries::op_eval the Hermiticity test dominates the return of the term", "", loc(ev))
    # the flag is threaded: block_diagonalize(hermitian) -> _to_scalar_BlockSeries(check_hermitian=hermitian) -> _sympy_to_BlockSeries
    chain = [("block_diagonalize", "_to_scalar_BlockSeries", "hermitian"),
             ("operator_to_BlockSeries", "_to_scalar_BlockSeries", "hermitian"),
             ("_to_scalar_BlockSeries", "_sympy_to_BlockSeries", "check_hermitian")]
    for caller, callee, val in chain:
        fn = repo.find(f"{MOD}::{caller}", R)
        calls = [c for c in own_nodes(fn) if isinstance(c, ast.Call) and call_name(c) == callee]
        from .sem import bind_args
        cdef = repo.find(f"{MOD}::{callee}", R)
        bound = [bind_args(cdef, c) for c in calls]
        if any(b is None for b in bound):
            raise AnalysisError(R, f"cannot bind the arguments of a call to {callee} in {caller}")
        ok = bool(calls) and all(norm(b["check_hermitian"]) == val for b in bound)
        rep.check(ok, R, f"{MOD}::{caller} passes check_hermitian={val} to {callee}", "", loc(fn))


# ---------------------------------------------------------------------------
# totality of callbacks
# ---------------------------------------------------------------------------


def rule_total_callbacks(rep: Report, repo: Repo):
    R = "E5.total"
    from .e2b import _eval_closures

    funcs = [(mod, q, f) for mod, q, f in _eval_closures(repo) if isinstance(f, ast.FunctionDef)]
    # solver and mask closures handed to the algorithm scope
    for q in ("solve_sylvester_diagonal", "solve_sylvester_KPM", "solve_sylvester_direct", "_preprocess_sylvester"):
        outer = repo.find(f"{MOD}::{q}", R)
        for d in nested_defs(outer):
            if d.name in ("solve_sylvester", "wrapped", "solve_sylvester_kpm"):
                funcs.append((MOD, f"{q}::{d.name}", d))
    sq = repo.find("second_quantization::solve_sylvester_2nd_quant", R)
    funcs += [("second_quantization", f"solve_sylvester_2nd_quant::{d.name}", d) for d in nested_defs(sq)]
    bd = repo.find(f"{MOD}::block_diagonalize", R)
    for d in nested_defs(bd):
        if d.name in ("diag", "offdiag"):
            funcs.append((MOD, f"block_diagonalize::{d.name}@L{d.lineno}", d))
    # the floor counts callback ROLES (a role defined several times, like the diag / offdiag pairs, counts once), so that merging or
    # splitting definitions of one role does not look like lost coverage
    roles = {(mod, q.split("@L")[0]) for mod, q, _f in funcs}
    rep.floor(R, "callback roles", len(roles), 14)
    for mod, q, f in funcs:
        g = CFG(f)
        bad = []
        for p, k in g.pred[g.exit.id]:
            n = g.nodes[p]
            if not (isinstance(n.ast, ast.Return) and n.ast.value is not None
                    and not (isinstance(n.ast.value, ast.Constant) and n.ast.value.value is None)):
                bad.append(n)
        name = q.split("@")[0]
        if bad:
            rep.fail(R, f"{mod}::{name} can finish without returning a value (implicit None) after `{norm(bad[0].ast)[:60]}`",
                     "a callback that falls off the end caches None as a series element; every path must end in "
                     "`return <value>` or `raise`", repo.loc(mod, bad[0].ast))
        else:
            rep.ok(R, f"{mod}::{q} every path ends in `return <value>` or `raise`", "", repo.loc(mod, f))


# ---------------------------------------------------------------------------
# position-wise pairing of two dictionaries
# ---------------------------------------------------------------------------


def rule_dict_pairing(rep: Report, repo: Repo):
    """`zip(A.values(), B.values())` pairs the k-th value of A with the k-th value of B.  That is the pairing by key only if B was built
    by iterating A itself (`for k in A`, `A.items()`, `A.keys()`); a B built over `set(A)` / `sorted(A)` has another order than A's
    insertion order, and every check or formula applied to the pairs then compares the entry of one block with the data of another.
    Looked for in block_diagonalize and operator_to_BlockSeries with private helpers seen through."""
    from .resolve import env_at, resolved
    R = "E5.pairing"
    n_sites = 0
    for q in ("block_diagonalize", "operator_to_BlockSeries"):
        try:
            f = repo.find_expanded(f"{MOD}::{q}", R)
        except AnalysisError:
            f = repo.find(f"{MOD}::{q}", R)
        for z in [n for n in ast.walk(f) if isinstance(n, ast.Call) and call_name(n) == "zip" and len(n.args) >= 2]:
            env = env_at(z, f)
            views = []  # (dictionary name | None, the comprehension it resolves to | None)
            for a in z.args:
                r = resolved(a, env)
                if isinstance(r, ast.Call) and isinstance(r.func, ast.Attribute) and r.func.attr in ("values", "items", "keys") and not r.args:
                    if isinstance(r.func.value, ast.Name):
                        views.append((r.func.value.id, None))
                        continue
                    if isinstance(r.func.value, ast.DictComp):
                        raw = a.func.value.id if isinstance(a, ast.Call) and isinstance(a.func, ast.Attribute) and isinstance(a.func.value, ast.Name) else "<dict>"
                        views.append((raw, r.func.value))
                        continue
            if len(views) < 2 or len({v[0] for v in views}) < 2:
                continue
            n_sites += 1
            base, base_comp = views[0]
            for other, comp in views[1:]:
                if other == base:
                    continue
                if comp is None:
                    asg = [n for n in ast.walk(f) if isinstance(n, ast.Assign) and len(n.targets) == 1 and isinstance(n.targets[0], ast.Name)
                           and n.targets[0].id == other and n.lineno <= z.lineno]
                    comp = asg[-1].value if asg else None
                inst = f"{MOD}::{q} `{norm(z)[:70]}` pairs `{base}` and `{other}` position by position"
                if base_comp is not None or not (isinstance(comp, ast.DictComp) and len(comp.generators) == 1):
                    raise AnalysisError(R, f"{inst}: how the two dictionaries are built is not understood")
                it = norm(comp.generators[0].iter)
                if it in (base, f"{base}.items()", f"{base}.keys()", f"list({base})", f"tuple({base})") and not comp.generators[0].ifs:
                    rep.ok(R, inst, f"`{other}` is built by iterating `{base}` itself: same order", repo.loc(MOD, z))
                elif it in (f"set({base})", f"sorted({base})", f"sorted({base}.keys())", f"frozenset({base})", f"reversed({base})") or comp.generators[0].ifs:
                    rep.fail(R, f"{inst}, but the second one is built over `{it}`" + (" with a filter" if comp.generators[0].ifs else ""),
                             f"the order of `{it}` is not the insertion order of `{base}`: the k-th entries belong to different keys "
                             "(e.g. a mask given as {1: ..., 0: ...} is checked against the data of the other block)", repo.loc(MOD, z))
                else:
                    raise AnalysisError(R, f"{inst}: the second dictionary iterates `{it[:50]}`: not understood")
    rep.ok(R, "position-wise pairings of two dictionaries", f"{n_sites} zip sites over views of different dictionaries", repo.rel(MOD))
