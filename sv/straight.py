"""Straight-line evaluation of small closures on a case grid.

``run(func, atom)`` executes the body of a function symbolically: values are expression trees over the parameters and the
captured names, every branch condition must be decided by ``atom`` (the caller enumerates the cases), loops must run over
a tuple / list whose length is known after substitution (they are unrolled), lists may be built by ``append``.  The result
is the returned expression tree.  Anything else -- a condition the grid does not decide, a loop over an unknown iterable,
a statement with unknown effects -- is an AnalysisError: the caller reports "cannot decide", never a violation.

An item store ``X[i] = v`` on a local is recorded in the value: X becomes ``_setitem(X, i, v)``.
"""

from __future__ import annotations

import ast

from .core import AnalysisError, call_name, norm
from .paths import eval_bool
from .resolve import clone


class _Returned(Exception):
    def __init__(self, value):
        self.value = value


def setitem(base: ast.AST, idx: ast.AST, val: ast.AST) -> ast.AST:
    return ast.Call(func=ast.Name(id="_setitem", ctx=ast.Load()), args=[base, idx, val], keywords=[])


def run(func: ast.FunctionDef, atom, rule: str, limit: int = 400, env0: dict | None = None):
    """-> returned expression (AST) of `func` in the case described by `atom`.  `env0` binds names (parameters) beforehand."""
    env: dict = dict(env0 or {})
    steps = [0]

    def const_atom(n):
        # comparisons of integer constants (after len() folding) are decided here, everything else by the caller
        if isinstance(n, ast.Compare) and len(n.ops) == 1 and isinstance(n.left, ast.Constant) and isinstance(n.comparators[0], ast.Constant) \
                and isinstance(n.left.value, int) and isinstance(n.comparators[0].value, int):
            a, b = n.left.value, n.comparators[0].value
            return {ast.Eq: a == b, ast.NotEq: a != b, ast.Lt: a < b, ast.LtE: a <= b, ast.Gt: a > b, ast.GtE: a >= b}.get(type(n.ops[0]))
        return atom(n)

    class Simp(ast.NodeTransformer):
        def visit_Name(self, node):
            if isinstance(node.ctx, ast.Load) and node.id in env:
                return clone(env[node.id])
            return node

        def visit_IfExp(self, node):
            test = self.visit(node.test)
            v = eval_bool(test, const_atom)
            if v is None:
                raise AnalysisError(rule, f"{func.name}: conditional expression on `{norm(test)[:60]}` is not decided by the case grid")
            return self.visit(node.body if v else node.orelse)

        def visit_Call(self, node):
            self.generic_visit(node)
            if call_name(node) == "len" and len(node.args) == 1 and isinstance(node.args[0], (ast.List, ast.Tuple)) \
                    and not any(isinstance(x, ast.Starred) for x in node.args[0].elts):
                return ast.Constant(value=len(node.args[0].elts))
            if call_name(node) in ("tuple", "list") and len(node.args) == 1 and isinstance(node.args[0], (ast.List, ast.Tuple)):
                return node.args[0]
            return node

        def visit_Subscript(self, node):
            self.generic_visit(node)
            if isinstance(node.value, (ast.List, ast.Tuple)) and isinstance(node.slice, ast.Constant) and isinstance(node.slice.value, int) \
                    and not any(isinstance(x, ast.Starred) for x in node.value.elts) and -len(node.value.elts) <= node.slice.value < len(node.value.elts):
                return node.value.elts[node.slice.value]
            return node

        def _comp(self, node):
            # a comprehension over a sequence of known length is unrolled
            if len(node.generators) == 1 and not node.generators[0].ifs and isinstance(node.generators[0].target, ast.Name):
                it = self.visit(clone(node.generators[0].iter))
                if isinstance(it, (ast.List, ast.Tuple)) and not any(isinstance(x, ast.Starred) for x in it.elts):
                    var = node.generators[0].target.id
                    saved = env.get(var)
                    elts = []
                    for x in it.elts:
                        env[var] = x
                        elts.append(self.visit(clone(node.elt)))
                    if saved is None:
                        env.pop(var, None)
                    else:
                        env[var] = saved
                    return ast.List(elts=elts, ctx=ast.Load())
            raise AnalysisError(rule, f"{func.name}: comprehension `{norm(node)[:60]}` over a sequence of unknown length")

        def visit_ListComp(self, node):
            return self._comp(node)

        def visit_GeneratorExp(self, node):
            return self._comp(node)

        def visit_Lambda(self, node):
            return node

    def val(e):
        return Simp().visit(clone(e))

    def bind(target, value):
        if isinstance(target, ast.Name):
            env[target.id] = value
        elif isinstance(target, (ast.Tuple, ast.List)):
            if not (isinstance(value, (ast.Tuple, ast.List)) and len(value.elts) == len(target.elts)
                    and not any(isinstance(x, ast.Starred) for x in [*value.elts, *target.elts])):
                raise AnalysisError(rule, f"{func.name}: unpacking of `{norm(value)[:60]}` not understood")
            for t, v in zip(target.elts, value.elts):
                bind(t, v)
        elif isinstance(target, ast.Subscript) and isinstance(target.value, ast.Name):
            base = env.get(target.value.id, ast.Name(id=target.value.id, ctx=ast.Load()))
            env[target.value.id] = setitem(base, val(target.slice), value)
        else:
            raise AnalysisError(rule, f"{func.name}: store to `{norm(target)[:60]}` not understood")

    def block(stmts):
        for s in stmts:
            steps[0] += 1
            if steps[0] > limit:
                raise AnalysisError(rule, f"{func.name}: too many steps")
            if isinstance(s, ast.Expr) and isinstance(s.value, ast.Constant):
                continue
            if isinstance(s, ast.Assign):
                v = val(s.value)
                for t in s.targets:
                    bind(t, v)
            elif isinstance(s, ast.AnnAssign) and s.value is not None:
                bind(s.target, val(s.value))
            elif isinstance(s, ast.AugAssign) and isinstance(s.target, ast.Name):
                cur = env.get(s.target.id, ast.Name(id=s.target.id, ctx=ast.Load()))
                if isinstance(s.op, ast.Add) and isinstance(cur, ast.List):
                    inc = val(s.value)
                    if not isinstance(inc, (ast.List, ast.Tuple)):
                        raise AnalysisError(rule, f"{func.name}: `{norm(s)[:60]}` extends a list by an unknown sequence")
                    env[s.target.id] = ast.List(elts=[*cur.elts, *inc.elts], ctx=ast.Load())
                else:
                    env[s.target.id] = ast.BinOp(left=cur, op=s.op, right=val(s.value))
            elif isinstance(s, ast.AugAssign) and isinstance(s.target, ast.Subscript) and isinstance(s.target.value, ast.Name):
                # X[i] op= v  ==  X[i] = X[i] op v
                nm = s.target.value.id
                base = env.get(nm, ast.Name(id=nm, ctx=ast.Load()))
                idx = val(s.target.slice)
                cur = ast.Subscript(value=clone(base), slice=idx, ctx=ast.Load())
                env[nm] = setitem(base, idx, ast.BinOp(left=cur, op=s.op, right=val(s.value)))
            elif isinstance(s, ast.Expr) and isinstance(s.value, ast.Call) and isinstance(s.value.func, ast.Attribute) \
                    and s.value.func.attr == "append" and isinstance(s.value.func.value, ast.Name) \
                    and isinstance(env.get(s.value.func.value.id), ast.List) and len(s.value.args) == 1:
                nm = s.value.func.value.id
                env[nm] = ast.List(elts=[*env[nm].elts, val(s.value.args[0])], ctx=ast.Load())
            elif isinstance(s, ast.If):
                test = val(s.test)
                v = eval_bool(test, const_atom)
                if v is None:
                    raise AnalysisError(rule, f"{func.name}: condition `{norm(test)[:70]}` is not decided by the case grid")
                block(s.body if v else s.orelse)
            elif isinstance(s, ast.For) and not s.orelse:
                it = val(s.iter)
                if not (isinstance(it, (ast.Tuple, ast.List)) and not any(isinstance(x, ast.Starred) for x in it.elts)):
                    raise AnalysisError(rule, f"{func.name}: loop over `{norm(it)[:60]}` (unknown length)")
                for x in it.elts:
                    bind(s.target, x)
                    block(s.body)
            elif isinstance(s, ast.Return):
                raise _Returned(val(s.value) if s.value is not None else ast.Constant(value=None))
            elif isinstance(s, ast.Pass):
                continue
            else:
                raise AnalysisError(rule, f"{func.name}: statement `{norm(s)[:60]}` not understood")

    try:
        block(func.body)
    except _Returned as r:
        return ast.fix_missing_locations(r.value)
    raise AnalysisError(rule, f"{func.name}: a path ends without return")
