"""Evaluation of a small piece of code on a finite MODEL of its inputs.

Several rules ask "which positions does this loop nest touch" or "which entries does this table get" for every shape the loop can be
written in (nested ranges, zip of slices, enumerate with an index test, a comprehension with an isinstance filter).  Instead of
recognising shapes, the statements are evaluated on a model: the names and attributes the code reads are bound to small concrete
stand-ins (tuples of tagged objects, integers), library calls the rule knows are bound to functions on those stand-ins, and the
evaluator supports only a whitelist of side-effect-free Python (displays, comprehensions, subscripts and slices, comparisons, boolean
logic, integer arithmetic, zip / enumerate / range / len / any / all / sum / isinstance, loops, if / continue / break, stores into
local dicts and lists).  Anything else raises AnalysisError: the caller reports "cannot decide".  The model is chosen by the rule so that
the positions / classes that matter are all distinguishable (one operator of each class, distinct non-zero powers, ...)."""

from __future__ import annotations

import ast

from .core import AnalysisError, call_name, dotted, norm


class Obj:
    """An opaque model object with a class tag (for isinstance) and a label."""

    def __init__(self, cls: str, label: str):
        self.cls, self.label = cls, label

    def __repr__(self):
        return f"<{self.label}>"


class ClassRef:
    """A class passed around as a value (`count(BosonOp)`)."""

    def __init__(self, name: str):
        self.name = name


class _Continue(Exception):
    pass


class _Break(Exception):
    pass


class _Return(Exception):
    def __init__(self, value):
        self.value = value


_SAFE_BUILTINS = {"zip": zip, "enumerate": enumerate, "range": range, "len": len, "any": any, "all": all, "sum": sum, "tuple": tuple,
                  "list": list, "dict": dict, "set": set, "reversed": reversed, "sorted": sorted, "int": int, "bool": bool, "min": min,
                  "max": max, "abs": abs}


class Model:
    def __init__(self, rule: str, what: str, names: dict | None = None, paths: dict | None = None, funcs: dict | None = None,
                 subclasses: dict | None = None, budget: int = 20000):
        """`names`: local / global names -> value.  `paths`: dotted expressions (`self.operators`) -> value, looked up before attribute
        access is attempted.  `funcs`: call names (dotted) -> python function on model values.  `subclasses`: class name -> set of the
        class tags that are instances of it (`{"pauli.SigmaOpBase": {"SigmaMinus", "SigmaPlus"}}`); a tag is an instance of itself."""
        self.rule, self.what = rule, what
        self.names, self.paths, self.funcs = dict(names or {}), dict(paths or {}), dict(funcs or {})
        self.subclasses = dict(subclasses or {})
        self.budget = budget

    def fail(self, msg):
        raise AnalysisError(self.rule, f"{self.what}: {msg}")

    # -- expressions -----------------------------------------------------------------------------------------------
    def ev(self, e: ast.AST, env: dict):
        self.budget -= 1
        if self.budget < 0:
            self.fail("evaluation on the model does not end")
        d = dotted(e) if isinstance(e, (ast.Attribute, ast.Name)) else None
        if d is not None and d in self.paths:
            return self.paths[d]
        if isinstance(e, ast.Constant):
            return e.value
        if isinstance(e, ast.Name):
            if e.id in env:
                return env[e.id]
            if e.id in self.names:
                return self.names[e.id]
            if e.id in self.names.get("__classes__", ()):
                return ClassRef(e.id)
            self.fail(f"name `{e.id}` is not part of the model")
        if isinstance(e, (ast.Tuple, ast.List, ast.Set)):
            out = []
            for x in e.elts:
                if isinstance(x, ast.Starred):
                    out.extend(self.ev(x.value, env))
                else:
                    out.append(self.ev(x, env))
            return tuple(out) if isinstance(e, ast.Tuple) else (list(out) if isinstance(e, ast.List) else set(out))
        if isinstance(e, ast.Dict):
            out = {}
            for k, v in zip(e.keys, e.values):
                if k is None:
                    out.update(self.ev(v, env))
                else:
                    out[self.ev(k, env)] = self.ev(v, env)
            return out
        if isinstance(e, (ast.ListComp, ast.GeneratorExp, ast.SetComp, ast.DictComp)):
            out = []

            def gen(i, env_):
                if i == len(e.generators):
                    out.append((self.ev(e.key, env_), self.ev(e.value, env_)) if isinstance(e, ast.DictComp) else self.ev(e.elt, env_))
                    return
                g = e.generators[i]
                for v in self.iterate(self.ev(g.iter, env_)):
                    env2 = dict(env_)
                    self.bind(g.target, v, env2)
                    if all(self.truth(self.ev(c, env2)) for c in g.ifs):
                        gen(i + 1, env2)
            gen(0, env)
            return dict(out) if isinstance(e, ast.DictComp) else (set(out) if isinstance(e, ast.SetComp) else list(out))
        if isinstance(e, ast.Subscript):
            base = self.ev(e.value, env)
            if isinstance(e.slice, ast.Slice):
                lo, hi, st = (None if x is None else self.ev(x, env) for x in (e.slice.lower, e.slice.upper, e.slice.step))
                if not isinstance(base, (tuple, list)) or not all(x is None or isinstance(x, int) for x in (lo, hi, st)):
                    self.fail(f"slice `{norm(e)[:50]}` outside the model")
                return base[lo:hi:st]
            idx = self.ev(e.slice, env)
            try:
                return base[idx]
            except Exception:
                self.fail(f"subscript `{norm(e)[:50]}` outside the model")
        if isinstance(e, ast.BoolOp):
            val = None
            for v in e.values:
                val = self.ev(v, env)
                if isinstance(e.op, ast.And) and not self.truth(val):
                    return val
                if isinstance(e.op, ast.Or) and self.truth(val):
                    return val
            return val
        if isinstance(e, ast.UnaryOp):
            v = self.ev(e.operand, env)
            if isinstance(e.op, ast.Not):
                return not self.truth(v)
            if isinstance(e.op, ast.USub) and isinstance(v, int):
                return -v
            self.fail(f"operator in `{norm(e)[:40]}` outside the model")
        if isinstance(e, ast.BinOp):
            a, b = self.ev(e.left, env), self.ev(e.right, env)
            for x_, other_, swapped_ in ((a, b, False), (b, a, True)):
                if hasattr(x_, "model_binop"):
                    r_ = x_.model_binop(type(e.op).__name__, other_, swapped_)
                    if r_ is NotImplemented:
                        self.fail(f"arithmetic `{norm(e)[:50]}` outside the model")
                    return r_
            ints = isinstance(a, int) and isinstance(b, int)
            seqs = isinstance(a, (tuple, list)) and type(a) is type(b)
            if isinstance(e.op, ast.Add) and (ints or seqs):
                return a + b
            if isinstance(e.op, ast.Sub) and ints:
                return a - b
            if isinstance(e.op, ast.Mult) and (ints or (isinstance(a, (tuple, list)) and isinstance(b, int))):
                return a * b
            self.fail(f"arithmetic `{norm(e)[:50]}` outside the model")
        if isinstance(e, ast.Compare):
            left = self.ev(e.left, env)
            for op, c in zip(e.ops, e.comparators):
                right = self.ev(c, env)
                if isinstance(op, (ast.Is, ast.IsNot)):
                    r = (left is right) or (left == right and isinstance(left, (int, str, type(None), bool)))
                    r = r if isinstance(op, ast.Is) else not r
                elif isinstance(op, (ast.In, ast.NotIn)):
                    r = (left in right) if isinstance(op, ast.In) else (left not in right)
                elif isinstance(op, (ast.Eq, ast.NotEq)):
                    r = (left == right) if isinstance(op, ast.Eq) else (left != right)
                else:
                    if not (isinstance(left, int) and isinstance(right, int)):
                        self.fail(f"ordering `{norm(e)[:50]}` of non-integers")
                    r = {ast.Lt: left < right, ast.LtE: left <= right, ast.Gt: left > right, ast.GtE: left >= right}[type(op)]
                if not r:
                    return False
                left = right
            return True
        if isinstance(e, ast.IfExp):
            return self.ev(e.body if self.truth(self.ev(e.test, env)) else e.orelse, env)
        if isinstance(e, ast.NamedExpr):
            v = self.ev(e.value, env)
            env[e.target.id] = v
            return v
        if isinstance(e, ast.Call):
            name = call_name(e)
            if isinstance(e.func, ast.Name) and isinstance(env.get(e.func.id), tuple) and env[e.func.id][:1] == ("__closure__",) and not e.keywords:
                _tag, fdef, fenv = env[e.func.id]
                params = [a.arg for a in fdef.args.args]
                if len(e.args) != len(params):
                    self.fail(f"call `{norm(e)[:50]}` does not fit the local function")
                local = dict(fenv)
                local.update(zip(params, [self.ev(a, env) for a in e.args]))
                return self.run(fdef.body, local)
            if name in self.funcs:
                return self.funcs[name](*[self.ev(a, env) for a in e.args], **{k.arg: self.ev(k.value, env) for k in e.keywords})
            if name == "isinstance" and len(e.args) == 2:
                v = self.ev(e.args[0], env)
                cls = e.args[1].elts if isinstance(e.args[1], ast.Tuple) else [e.args[1]]
                return any(self.instance(v, c, env) for c in cls)
            if name in _SAFE_BUILTINS:
                args = [self.ev(a, env) for a in e.args]
                kw = {k.arg: self.ev(k.value, env) for k in e.keywords}
                if name in ("zip", "enumerate", "reversed", "range"):
                    return list(_SAFE_BUILTINS[name](*args, **kw))
                try:
                    return _SAFE_BUILTINS[name](*args, **kw)
                except Exception:
                    self.fail(f"call `{norm(e)[:50]}` outside the model")
            if isinstance(e.func, ast.Attribute) and e.func.attr in ("items", "keys", "values", "get", "index", "count"):
                base = self.ev(e.func.value, env)
                args = [self.ev(a, env) for a in e.args]
                try:
                    r = getattr(base, e.func.attr)(*args)
                except Exception:
                    self.fail(f"call `{norm(e)[:50]}` outside the model")
                return list(r) if e.func.attr in ("items", "keys", "values") else r
            self.fail(f"call `{norm(e)[:60]}` is not part of the model")
        if isinstance(e, ast.Attribute):
            if e.attr in self.names.get("__classes__", ()):
                return ClassRef(e.attr)
            self.fail(f"attribute `{norm(e)[:50]}` is not part of the model")
        self.fail(f"expression `{norm(e)[:60]}` outside the evaluator's language")

    def instance(self, v, cls_node, env) -> bool:
        if isinstance(cls_node, ast.Name) and isinstance(env.get(cls_node.id), ClassRef):
            return isinstance(v, Obj) and self._is(v.cls, env[cls_node.id].name)
        if isinstance(cls_node, ast.Starred):
            vals = self.ev(cls_node.value, env)
            return any(isinstance(v, Obj) and self._is(v.cls, c) for c in vals)
        d = dotted(cls_node)
        if d is not None and d in self.paths and isinstance(self.paths[d], (tuple, list)):
            return any(isinstance(v, Obj) and self._is(v.cls, c) for c in self.paths[d])
        if d is None:
            self.fail(f"class `{norm(cls_node)[:40]}` not understood")
        if d in ("int", "tuple", "list", "dict"):
            return isinstance(v, {"int": int, "tuple": tuple, "list": list, "dict": dict}[d])
        if not isinstance(v, Obj):
            return False
        return self._is(v.cls, d)

    def _is(self, tag: str, cls: str) -> bool:
        short = cls.split(".")[-1]
        if tag == cls or tag == short:
            return True
        for k, members in self.subclasses.items():
            if k == cls or k.split(".")[-1] == short:
                return tag in members
        known = {tag_ for ms in self.subclasses.values() for tag_ in ms} | set(self.subclasses)
        if short not in known and cls not in known and short not in self.names.get("__classes__", ()):
            self.fail(f"class `{cls}` is not part of the model")
        return False

    def truth(self, v) -> bool:
        if isinstance(v, Obj):
            return True
        return bool(v)

    def iterate(self, v):
        if isinstance(v, (tuple, list, set, dict, range)):
            return list(v)
        self.fail("iteration over a value outside the model")

    def bind(self, target, value, env):
        if isinstance(target, ast.Name):
            env[target.id] = value
        elif isinstance(target, (ast.Tuple, ast.List)):
            vals = list(value) if isinstance(value, (tuple, list)) else self.fail("unpacking of a non-sequence")
            if len(vals) != len(target.elts) or any(isinstance(t, ast.Starred) for t in target.elts):
                self.fail(f"unpacking `{norm(target)}` does not fit the model")
            for t, v in zip(target.elts, vals):
                self.bind(t, v, env)
        elif isinstance(target, ast.Attribute) and dotted(target) is not None:
            self.paths[dotted(target)] = value  # an attribute of a model object: kept by its dotted name
        elif isinstance(target, ast.Subscript):
            base = self.ev(target.value, env)
            if not isinstance(base, (dict, list)):
                self.fail(f"store into `{norm(target.value)[:40]}` outside the model")
            base[self.ev(target.slice, env)] = value
        else:
            self.fail(f"assignment target `{norm(target)[:40]}`")

    # -- statements ------------------------------------------------------------------------------------------------
    def run(self, stmts, env: dict):
        """Executes the statements on the model; returns the value of a `return`, or None."""
        try:
            self._block(stmts, env)
        except _Return as r:
            return r.value
        return None

    def _block(self, stmts, env):
        for s in stmts:
            self.budget -= 1
            if self.budget < 0:
                self.fail("evaluation on the model does not end")
            if isinstance(s, ast.Expr) and isinstance(s.value, ast.Constant):
                continue
            if isinstance(s, ast.FunctionDef) and not s.decorator_list and not (s.args.vararg or s.args.kwarg or s.args.kwonlyargs or s.args.posonlyargs):
                env[s.name] = ("__closure__", s, env)
                continue
            if isinstance(s, ast.Assign):
                v = self.ev(s.value, env)
                for t in s.targets:
                    self.bind(t, v, env)
            elif isinstance(s, ast.AnnAssign) and s.value is not None:
                self.bind(s.target, self.ev(s.value, env), env)
            elif isinstance(s, ast.AugAssign) and isinstance(s.target, ast.Name) and isinstance(s.op, (ast.Add, ast.Sub)):
                a, b = self.ev(s.target, env), self.ev(s.value, env)
                env[s.target.id] = a + b if isinstance(s.op, ast.Add) else a - b
            elif isinstance(s, ast.If):
                self._block(s.body if self.truth(self.ev(s.test, env)) else s.orelse, env)
            elif isinstance(s, ast.For) and not s.orelse:
                for v in self.iterate(self.ev(s.iter, env)):
                    self.bind(s.target, v, env)
                    try:
                        self._block(s.body, env)
                    except _Continue:
                        continue
                    except _Break:
                        break
            elif isinstance(s, ast.Continue):
                raise _Continue()
            elif isinstance(s, ast.Break):
                raise _Break()
            elif isinstance(s, ast.Return):
                raise _Return(self.ev(s.value, env) if s.value is not None else None)
            elif isinstance(s, ast.Pass):
                continue
            elif isinstance(s, ast.Expr) and isinstance(s.value, ast.Call) and isinstance(s.value.func, ast.Attribute) \
                    and s.value.func.attr in ("append", "update", "add", "extend", "setdefault"):
                base = self.ev(s.value.func.value, env)
                if not isinstance(base, (list, dict, set)):
                    self.fail(f"`{norm(s)[:50]}` on a value outside the model")
                getattr(base, s.value.func.attr)(*[self.ev(a, env) for a in s.value.args])
            else:
                self.fail(f"statement `{norm(s)[:60]}` outside the evaluator's language")
