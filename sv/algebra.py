"""Free *-algebra normaliser used by engine E1.

Polynomials: dict word -> Fraction.  A word is a tuple of atoms; an atom is a
string (generator) or ('S', word) -- the opaque "selected part" operator applied
to a normalised word whose type is not known in the current mode.

Rewriting (all terminating; confluence on the critical pairs was checked in the
design phase and is re-checked by ``self_check``):

* pair rules on adjacent generators (unitarity / inverse relations),
* S pulls the diagonal H_0 (`h0`) out on both sides,
* S of a typed word is the word (type S) or 0 (type R),
* S[S[w]] = S[w]  (an S-atom is S-typed),
* optional atom-level substitution on S-atoms (non-Hermitian gauge S[g] -> S[u]).

Typing of words per mode:
  general     only single atoms are typed
  commuting   S.S = S, S.R = R.S = R
  two_block   additionally R.R = S
"""

from __future__ import annotations

from fractions import Fraction as Fr
from itertools import product as iproduct

from .core import AnalysisError

Poly = dict


class Algebra:
    def __init__(self, herm: dict, types: dict, mode: set, s_subst: dict | None = None,
                 adjoint_ok: bool = True):
        self.herm = herm  # atom -> +1 / -1 / ('adj', other_atom)
        self.types = types  # atom -> 'S' / 'R' / None
        self.mode = set(mode)
        self.rules: dict[tuple, Poly] = {}
        self.s_subst = s_subst or {}  # S-atom -> S-atom
        self.adjoint_ok = adjoint_ok
        self.steps = 0

    # -- constructors -------------------------------------------------------
    @staticmethod
    def P(*atoms, c=1) -> Poly:
        return {tuple(atoms): Fr(c)}

    one = staticmethod(lambda: {(): Fr(1)})

    @staticmethod
    def add(*ps) -> Poly:
        out: Poly = {}
        for p in ps:
            for w, c in p.items():
                v = out.get(w, 0) + c
                if v == 0:
                    out.pop(w, None)
                else:
                    out[w] = v
        return out

    @staticmethod
    def scale(p, c) -> Poly:
        c = Fr(c)
        return {w: c * v for w, v in p.items()} if c else {}

    def sub(self, a, b) -> Poly:
        return self.add(a, self.scale(b, -1))

    def mul(self, *ps) -> Poly:
        out = {(): Fr(1)}
        for p in ps:
            nxt: Poly = {}
            for (w1, c1), (w2, c2) in iproduct(out.items(), p.items()):
                w = w1 + w2
                v = nxt.get(w, 0) + c1 * c2
                if v == 0:
                    nxt.pop(w, None)
                else:
                    nxt[w] = v
            out = nxt
        return self.norm(out)

    def comm(self, a, b) -> Poly:
        return self.sub(self.mul(a, b), self.mul(b, a))

    # -- adjoint --------------------------------------------------------------
    def adj_atom(self, a) -> Poly:
        if isinstance(a, tuple):
            if not self.adjoint_ok:
                raise AnalysisError(
                    "E1.algebra", "adjoint of a selected part needed in a mode with asymmetric masks"
                )
            return self.S(self.adj({a[1]: Fr(1)}))
        h = self.herm.get(a)
        if h is None:
            raise AnalysisError("E1.algebra", f"no adjoint declared for atom {a}")
        if isinstance(h, tuple):
            return {(h[1],): Fr(1)}
        return {(a,): Fr(h)}

    def adj(self, p) -> Poly:
        out: Poly = {}
        for w, c in p.items():
            q = {(): Fr(1)}
            for a in reversed(w):
                q = self.mul(q, self.adj_atom(a))
            out = self.add(out, self.scale(q, c))
        return self.norm(out)

    # -- typing ---------------------------------------------------------------
    def atom_type(self, a):
        return "S" if isinstance(a, tuple) else self.types.get(a)

    def word_type(self, w):
        if len(w) == 0:
            return "S"
        if len(w) == 1:
            return self.atom_type(w[0])
        if not ({"commuting", "two_block"} & self.mode):
            return None
        t = self.atom_type(w[0])
        for a in w[1:]:
            ta = self.atom_type(a)
            if t is None or ta is None:
                return None
            if t == "S":
                t = ta
            elif ta == "S":
                t = "R"
            else:  # R.R
                t = "S" if "two_block" in self.mode else None
        return t

    # -- selected part --------------------------------------------------------
    def _S_word(self, w) -> Poly:
        w = list(w)
        pre, post = [], []
        while w and w[0] == "h0":
            pre.append(w.pop(0))
        while w and w[-1] == "h0":
            post.insert(0, w.pop())
        w = tuple(w)
        t = self.word_type(w)
        if t == "S":
            core = {w: Fr(1)}
        elif t == "R":
            core = {}
        else:
            atom = ("S", w)
            atom = self.s_subst.get(atom, atom)
            core = {(atom,): Fr(1)}
        return {tuple(pre) + k + tuple(post): c for k, c in core.items()}

    def S(self, p) -> Poly:
        p = self.norm(p)
        out: Poly = {}
        for w, c in p.items():
            out = self.add(out, self.scale(self._S_word(w), c))
        return self.norm(out)

    def R(self, p) -> Poly:
        return self.sub(self.norm(p), self.S(p))

    # -- normalisation ----------------------------------------------------------
    def _rewrite_word(self, w):
        for i, a in enumerate(w):
            if isinstance(a, tuple):
                inner = self.norm({a[1]: Fr(1)})
                if inner != {a[1]: Fr(1)}:
                    q = self.S(inner)
                    return self._mul3({w[:i]: Fr(1)}, q, {w[i + 1 :]: Fr(1)})
                sub = self.s_subst.get(a)
                if sub is not None:
                    return {w[:i] + (sub,) + w[i + 1 :]: Fr(1)}
        for i in range(len(w) - 1):
            r = self.rules.get((w[i], w[i + 1]))
            if r is not None:
                return self._mul3({w[:i]: Fr(1)}, r, {w[i + 2 :]: Fr(1)})
        return None

    @staticmethod
    def _mul3(a, b, c) -> Poly:
        out: Poly = {}
        for (w1, c1), (w2, c2), (w3, c3) in iproduct(a.items(), b.items(), c.items()):
            w = w1 + w2 + w3
            v = out.get(w, 0) + c1 * c2 * c3
            if v == 0:
                out.pop(w, None)
            else:
                out[w] = v
        return out

    def norm(self, p) -> Poly:
        changed = True
        while changed:
            changed = False
            out: Poly = {}
            for w, c in p.items():
                r = self._rewrite_word(w)
                if r is None:
                    q = {w: c}
                else:
                    q = self.scale(r, c)
                    changed = True
                    self.steps += 1
                    if self.steps > 2_000_000:
                        raise AnalysisError("E1.algebra", "normalisation did not terminate")
                out = self.add(out, q)
            p = out
        return p

    # -- grading ----------------------------------------------------------------
    @staticmethod
    def _is_order0_atom(a) -> bool:
        if isinstance(a, tuple):
            return all(Algebra._is_order0_atom(x) for x in a[1])
        return a == "h0"

    def order0(self, p) -> Poly:
        return {w: c for w, c in p.items() if all(self._is_order0_atom(a) for a in w)}

    def positive(self, p) -> Poly:
        return {w: c for w, c in p.items() if not all(self._is_order0_atom(a) for a in w)}

    # -- printing ---------------------------------------------------------------
    def show(self, p, limit: int = 400) -> str:
        def sa(a):
            return a if isinstance(a, str) else "S[" + ".".join(sa(x) for x in a[1]) + "]"

        items = sorted(p.items(), key=lambda kv: (len(kv[0]), str(kv[0])))
        s = " + ".join(
            f"{c}*{'.'.join(sa(a) for a in w) or '1'}" for w, c in items
        ) or "0"
        return s if len(s) <= limit else s[: limit - 3] + "..."

    def proportional(self, p, q):
        """Return Fraction k with p == k*q, or None."""
        if not q:
            return None
        w0 = next(iter(sorted(q, key=str)))
        if w0 not in p:
            return None
        k = p[w0] / q[w0]
        return k if self.sub(p, self.scale(q, k)) == {} else None
